"""Type-directed generator of (mostly valid) Circom definitions, rendered as token lists so
that comments / whitespace can be inserted between tokens. All randomness from vlib.SplitMix64."""

INFIX = ["+", "-", "*", "/", "\\", "%", "**", "<<", ">>", "&", "|", "^", "==", "!=", "<", "<=", ">", ">=", "&&", "||"]
ARITH = ["+", "-", "*"]
PREFIX = ["-", "~", "!"]
P_BN254 = 21888242871839275222246405745257275088548364400416034343698204186575808495617


class Scope:
    def __init__(self, parent=None):
        self.parent = parent
        self.vars = []      # scalar locals/params
        self.arrays = []    # (name, size)
        self.signals_in = []
        self.signals_out = []
        self.signals_mid = []
        self.comps = []     # (name, template, ins, outs)

    def all_vars(self):
        s, out = self, []
        while s:
            out += s.vars
            s = s.parent
        return out

    def all_arrays(self):
        s, out = self, []
        while s:
            out += s.arrays
            s = s.parent
        return out

    def root(self):
        s = self
        while s.parent:
            s = s.parent
        return s


class Gen:
    def __init__(self, rng, kind="template", shadow=False, max_depth=3, max_stmts=8, sugar=False,
                 callees=None, funcs=None, loops=True):
        self.rng = rng
        self.kind = kind
        self.shadow = shadow
        self.max_depth = max_depth
        self.max_stmts = max_stmts
        self.sugar = sugar
        self.callees = callees or []   # [(template name, nparams, [ins], [outs])]
        self.funcs = funcs or []       # [(function name, nparams)]
        self.loops = loops
        self.counter = 0
        self.stats = {}

    def hit(self, k):
        self.stats[k] = self.stats.get(k, 0) + 1

    def fresh(self, base, scope):
        r = self.rng
        if self.shadow and r.chance(1, 3):
            pool = scope.all_vars()
            if pool:
                self.hit("shadowing-decl")
                return r.choice(pool)
        if self.shadow and r.chance(1, 6):
            pool = scope.all_vars()
            if pool:
                self.hit("suffix-lookalike")
                return r.choice(pool) + "_" + str(r.below(2))
        self.counter += 1
        return "%s%d" % (base, self.counter)

    # ---- expressions ---------------------------------------------------------------------
    def literal(self):
        r = self.rng
        m = r.below(10)
        if m < 6:
            return [str(r.below(5))]
        if m == 6:
            return [str(r.choice([254, 253, 255, 64, 63, 256]))]
        if m == 7:
            return [str(r.choice([P_BN254 - 1, P_BN254 // 2, P_BN254 // 2 + 1, 2 ** 64 - 1]))]
        if m == 8:
            return ["0x" + format(r.below(4096), "x")]
        return [str(r.below(1000))]

    def atom(self, scope, signals=True):
        r = self.rng
        opts = []
        vs = scope.all_vars()
        if vs:
            opts += ["var"] * 4
        arrs = scope.all_arrays()
        if arrs:
            opts += ["arr"] * 2
        root = scope.root()
        sigs = root.signals_in + root.signals_mid + root.signals_out if signals else []
        if sigs:
            opts += ["sig"] * 3
        if signals and root.comps:
            opts += ["port"]
        opts += ["lit"] * 2
        k = r.choice(opts)
        if k == "var":
            return [r.choice(vs)]
        if k == "arr":
            n, size = r.choice(arrs)
            idx = [str(r.below(size))] if r.chance(2, 3) or not vs else [r.choice(vs)]
            return [n, "["] + idx + ["]"]
        if k == "sig":
            return [r.choice(sigs)]
        if k == "port":
            c = r.choice(root.comps)
            if c[3]:
                return [c[0], ".", r.choice(c[3])]
            return self.literal()
        return self.literal()

    def expr(self, scope, depth=0, signals=True, ops=None):
        r = self.rng
        if depth >= 3 or r.chance(2, 5):
            return self.atom(scope, signals)
        m = r.below(12)
        if m < 7:
            op = r.choice(ops or INFIX)
            self.hit("op " + op)
            return ["("] + self.expr(scope, depth + 1, signals, ops) + [op] + self.expr(scope, depth + 1, signals, ops) + [")"]
        if m < 9:
            op = r.choice(PREFIX if not ops else ["-"])
            self.hit("prefix " + op)
            return ["(", op] + self.expr(scope, depth + 1, signals, ops) + [")"]
        if m == 9 and not ops:
            self.hit("ternary")
            return ["("] + self.expr(scope, depth + 1, signals) + ["?"] + self.expr(scope, depth + 1, signals) + [":"] + self.expr(scope, depth + 1, signals) + [")"]
        if m == 10 and self.funcs and not ops:
            f, n = r.choice(self.funcs)
            self.hit("call")
            out = [f, "("]
            for i in range(n):
                if i:
                    out.append(",")
                out += self.expr(scope, depth + 1, signals)
            return out + [")"]
        return self.atom(scope, signals)

    def cond(self, scope, signals=False):
        r = self.rng
        op = r.choice(["==", "!=", "<", "<=", ">", ">="])
        return self.expr(scope, 1, signals) + [op] + self.expr(scope, 1, signals)

    # ---- statements ----------------------------------------------------------------------
    def block(self, scope, depth, in_loop=False):
        inner = Scope(scope)
        out = ["{"]
        n = self.rng.below(self.max_stmts if depth == 0 else 4) + (1 if depth == 0 else 0)
        for _ in range(n):
            out += self.stmt(inner, depth, in_loop)
        return out + ["}"]

    def body_or_bare(self, scope, depth, in_loop):
        if self.rng.chance(1, 6):
            self.hit("bare-body")
            return self.simple_stmt(Scope(scope))
        return self.block(scope, depth, in_loop)

    def simple_stmt(self, scope):
        r = self.rng
        vs = scope.all_vars()
        if vs and r.chance(2, 3):
            v = r.choice(vs)
            m = r.below(4)
            if m == 0:
                self.hit("compound-assign")
                return [v, r.choice(["+=", "-=", "*="])] + self.expr(scope, 1, self.kind == "template" and r.chance(1, 4)) + [";"]
            if m == 1:
                self.hit("incdec")
                return [v, r.choice(["++", "--"]), ";"]
            return [v, "="] + self.expr(scope, 0, self.kind == "template" and r.chance(1, 4)) + [";"]
        arrs = scope.all_arrays()
        if arrs:
            n, size = r.choice(arrs)
            self.hit("array-assign")
            return [n, "[", str(r.below(size)), "]", "="] + self.expr(scope, 1, False) + [";"]
        return ["log", "("] + self.expr(scope, 1, False) + [")", ";"]

    def stmt(self, scope, depth, in_loop=False):
        r = self.rng
        m = r.below(20)
        root = scope.root()
        if m < 4:
            name = self.fresh("v", scope)
            self.hit("var-decl")
            # circomspect rejects reads of never-assigned locals, so uninitialised declarations are kept rare
            if r.chance(9, 10) or name in scope.all_vars():
                out = ["var", name, "="] + self.expr(scope, 0, self.kind == "template" and r.chance(1, 4))
                if r.chance(1, 6):
                    # one declaration statement with several symbols: `var a = e1, b = e2;` (an initialization block of
                    # declarations and substitutions that must keep their source order)
                    self.hit("var-decl-multi")
                    scope.vars.append(name)
                    used = {name}
                    for _ in range(1 + r.below(2)):
                        name2 = self.fresh("v", scope)
                        if name2 in used:
                            # the same name twice in one declaration is rejected by the compiler (and the two symbols would share one
                            # source range, the identity of a declaration in the C10 resolver)
                            self.counter += 1
                            name2 = "v%d" % self.counter
                        used.add(name2)
                        out += [",", name2]
                        if r.chance(3, 4):
                            out += ["="] + self.expr(scope, 0, False)
                        scope.vars.append(name2)
                    return out + [";"]
                out += [";"]
            else:
                self.hit("var-decl-noinit")
                out = ["var", name, ";"]
            scope.vars.append(name)
            return out
        if m == 4:
            name = self.fresh("a", scope)
            size = r.below(3) + 1
            self.hit("array-decl")
            if r.chance(1, 3):
                # an inline array with three or four elements as initialiser (the degree and value of the array come from all of them)
                size = r.below(2) + 3
                self.hit("array-inline")
                out = ["var", name, "[", str(size), "]", "=", "["]
                for k in range(size):
                    if k:
                        out.append(",")
                    out += self.expr(scope, 1, self.kind == "template")
                out += ["]", ";"]
                scope.arrays.append((name, size))
                return out
            out = ["var", name, "[", str(size), "]", ";"]
            if r.chance(5, 6):
                out += [name, "[", str(r.below(size)), "]", "="] + self.expr(scope, 1, False) + [";"]
            scope.arrays.append((name, size))
            return out
        if m < 8:
            return self.simple_stmt(scope)
        if m < 11 and depth < self.max_depth:
            self.hit("if")
            # a condition of a template may read signals (the analysis treats a signal like any other variable)
            sig_cond = self.kind == "template" and r.chance(1, 3)
            if sig_cond:
                self.hit("if-on-signal")
            out = ["if", "("] + self.cond(scope, sig_cond) + [")"] + self.body_or_bare(scope, depth + 1, in_loop)
            if r.chance(1, 2):
                self.hit("else")
                out += ["else"] + self.body_or_bare(scope, depth + 1, in_loop)
            return out
        if m == 11 and depth < self.max_depth and self.loops:
            self.hit("while")
            vs = scope.all_vars()
            if not vs:
                return self.simple_stmt(scope)
            v = r.choice(vs)
            return ["while", "(", v, "<", str(r.below(4) + 1), ")"] + self.block(scope, depth + 1, True)
        if m == 12 and depth < self.max_depth and self.loops:
            self.hit("for")
            inner = Scope(scope)
            i = self.fresh("i", inner)
            inner.vars.append(i)
            return ["for", "(", "var", i, "=", "0", ";", i, "<", str(r.below(4) + 1), ";", i, "++", ")"] + self.block(inner, depth + 1, True)
        if m == 18 and self.kind == "function" and depth < self.max_depth:
            # a local left unassigned on one edge into a join of several edges, the other edges carrying equal constants
            name = self.fresh("v", scope)
            self.hit("partial-assign")
            lit = self.literal()
            same = lit if r.chance(1, 2) else ["("] + lit + ["+", "0", ")"]
            other = same if r.chance(3, 4) else self.literal()
            scope.vars.append(name)
            inner = ["if", "("] + self.cond(scope) + [")", "{", name, "="] + other + [";", "}"]
            if r.chance(1, 2):
                body = ["{", name, "="] + lit + [";"] + inner + ["}"]
                out = ["var", name, ";", "if", "("] + self.cond(scope) + [")"] + body
            else:
                out = ["var", name, ";", "if", "("] + self.cond(scope) + [")", "{", name, "="] + lit + [";", "}", "else", "{"] + inner + ["}"]
            return out + ["if", "(", name, "=="] + lit + [")"] + self.body_or_bare(scope, depth + 1, in_loop)
        if self.kind == "function":
            if m == 13:
                self.hit("assert")
                return ["assert", "("] + self.cond(scope) + [")", ";"]
            if m == 14 and depth > 0:
                self.hit("early-return")
                return ["return"] + self.expr(scope, 1, False) + [";"]
            return self.simple_stmt(scope)
        # template-only statements
        if m == 13:
            self.hit("assert")
            return ["assert", "("] + self.cond(scope, True) + [")", ";"]
        if m in (14, 15):
            tgt = root.signals_mid + root.signals_out
            if tgt:
                s = r.choice(tgt)
                op = r.choice(["<--", "<--", "<=="])
                self.hit("sig " + op)
                rhs = self.expr(scope, 1, True, ARITH if op == "<==" else None)
                if r.chance(1, 5):
                    rop = {"<--": "-->", "<==": "==>"}[op]
                    self.hit("sig " + rop)
                    return rhs + [rop, s, ";"]
                return [s, op] + rhs + [";"]
        if m == 19:
            # one signal assigned on both sides of a branch (one run executes one of them), then compared
            tgt = root.signals_mid + root.signals_out
            if tgt and depth < self.max_depth:
                s = r.choice(tgt)
                op = r.choice(["<--", "<=="])
                self.hit("sig-branch")
                lit = self.literal()
                a = lit if r.chance(2, 3) else self.expr(scope, 1, True, ARITH)
                b = self.expr(scope, 1, True, ARITH) if r.chance(2, 3) else self.literal()
                if r.chance(1, 2):
                    a, b = b, a
                return (["if", "("] + self.cond(scope) + [")", "{", s, op] + a + [";", "}", "else", "{", s, op] + b + [";", "}"] +
                        ["if", "(", s, "=="] + lit + [")"] + self.body_or_bare(scope, depth + 1, in_loop))
        if m == 16 and r.chance(1, 4) and scope.all_vars():
            # a constraint that mentions one local only (its value is an expression over signals)
            v = r.choice(scope.all_vars())
            self.hit("constraint-single-name")
            return r.choice([[v, "===", ] + self.literal() + [";"], [v, "*", v, "===", v, ";"], self.literal() + ["===", v, ";"]])
        if m == 16:
            self.hit("constraint")
            return self.expr(scope, 1, True, ARITH) + ["==="] + self.expr(scope, 1, True, ARITH) + [";"]
        if m == 17 and depth == 0:
            name = self.fresh("s", scope)
            self.hit("signal-decl")
            root.signals_mid.append(name)
            return ["signal", name, ";"]
        if m == 18 and depth == 0 and self.callees:
            t, np, ins, outs = r.choice(self.callees)
            name = self.fresh("c", scope)
            self.hit("component")
            out = ["component", name, "=", t, "("]
            for i in range(np):
                if i:
                    out.append(",")
                out += self.literal()
            out += [")", ";"]
            for i in ins:
                out += [name, ".", i, r.choice(["<==", "<--"])] + self.expr(scope, 1, True, ARITH) + [";"]
            root.comps.append((name, t, ins, outs))
            return out
        return self.simple_stmt(scope)

    # ---- definitions ---------------------------------------------------------------------
    def function(self, name, nparams=None):
        r = self.rng
        self.kind = "function"
        scope = Scope()
        n = r.below(3) + 1 if nparams is None else nparams
        params = ["p%d" % i for i in range(n)]
        scope.vars += params
        out = ["function", name, "("]
        for i, p in enumerate(params):
            if i:
                out.append(",")
            out.append(p)
        out += [")", "{"]
        inner = Scope(scope)
        for _ in range(r.below(self.max_stmts) + 1):
            out += self.stmt(inner, 0)
        out += ["return"] + self.expr(inner, 0, False) + [";", "}"]
        return out, n

    def template(self, name, nparams=None):
        r = self.rng
        self.kind = "template"
        scope = Scope()
        n = r.below(3) if nparams is None else nparams
        params = ["n%d" % i for i in range(n)]
        scope.vars += params
        out = ["template", name, "("]
        for i, p in enumerate(params):
            if i:
                out.append(",")
            out.append(p)
        out += [")", "{"]
        nin = r.below(3) + 1
        nout = r.below(2) + 1
        ins = ["in%d" % i for i in range(nin)]
        outs = ["out%d" % i for i in range(nout)]
        for s in ins:
            out += ["signal", "input", s, ";"]
        for s in outs:
            out += ["signal", "output", s, ";"]
        scope.signals_in += ins
        scope.signals_out += outs
        if self.callees and r.chance(2, 3):
            # instantiate an earlier template (cross-definition lookup in the inter-procedural pass)
            t, np, cins, couts = r.choice(self.callees)
            cname = self.fresh("c", scope)
            self.hit("component")
            out += ["component", cname, "=", t, "("]
            for i in range(np):
                if i:
                    out.append(",")
                out += self.literal()
            out += [")", ";"]
            for i in cins:
                out += [cname, ".", i, "<=="] + [r.choice(ins)] + [";"]
            scope.comps.append((cname, t, cins, couts))
        for _ in range(r.below(self.max_stmts) + 1):
            out += self.stmt(scope, 0)
        # make sure outputs are assigned
        for s in outs:
            op = r.choice(["<==", "<--"])
            out += [s, op] + self.expr(scope, 1, True, ARITH if op == "<==" else None) + [";"]
        out += ["}"]
        return out, n, ins, outs


def render(tokens, rng=None, comments=None):
    """tokens -> text. `comments`: list of comment strings to splice between tokens at random."""
    out = []
    line = 0
    for i, t in enumerate(tokens):
        if comments and rng and rng.chance(1, 6):
            c = rng.choice(comments)
            out.append(c)
            if c.startswith("//") and not c.endswith("\n"):
                out.append("\n")
        out.append(t)
        if t in (";", "{", "}"):
            out.append("\n")
        else:
            out.append(" ")
    return "".join(out)


COMMENT_SHAPES = ["/**/", "/***/", "/* x **/", "//*\n", "/*/ */", "/* \" */", "// \"\n", "/* é ü */", "// é\n",
                  "/* // */", "// /* \n", "/** doc **/", "/* * / */", "/*\n*/", "/* a */ /* b */", "/****/"]


def project(rng, n_templates=2, n_functions=1, shadow=False, sugar=False, main=True, max_stmts=8, loops=True):
    """A one-file project: functions, templates calling earlier templates, optional main."""
    g = Gen(rng, shadow=shadow, sugar=sugar, max_stmts=max_stmts, loops=loops)
    toks = ["pragma circom", "2.0.0", ";"]  # one token in the grammar
    defs = []
    for i in range(n_functions):
        name = "f%d" % i
        t, n = g.function(name)
        g.funcs.append((name, n))
        defs.append(("function", name, t))
    for i in range(n_templates):
        name = "T%d" % i
        t, n, ins, outs = g.template(name)
        g.callees.append((name, n, ins, outs))
        defs.append(("template", name, t))
    for _, _, t in defs:
        toks += t
    if main and g.callees:
        t, n, ins, outs = g.callees[-1]
        toks += ["component", "main", "=", t, "("]
        for i in range(n):
            if i:
                toks.append(",")
            toks.append(str(rng.below(5)))
        toks += [")", ";"]
    return toks, defs, g.stats
