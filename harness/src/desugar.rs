//! `desugar`: one file through the real `parse_files`; returns, per definition, the AST as parsed
//! (from the same text with everything outside the definition blanked, so that all offsets agree),
//! the AST after `remove_syntactic_sugar`, the declaration order of inputs/outputs, and the reports.
use program_structure::file_definition::FileLibrary;
use serde_json::{json, Value};
use std::path::PathBuf;

/// request: {"input": path, "defs": [{"name": .., "start": .., "end": ..}]}
pub fn handle(line: &str) -> String {
    let req: Value = match serde_json::from_str(line) {
        Ok(v) => v,
        Err(_) => return "bad-op".to_string(),
    };
    let path = PathBuf::from(req["input"].as_str().unwrap_or(""));
    let text = std::fs::read_to_string(&path).unwrap_or_default();
    let mut pre = serde_json::Map::new();
    for d in req["defs"].as_array().cloned().unwrap_or_default() {
        let (a, b) = (d["start"].as_u64().unwrap_or(0) as usize, d["end"].as_u64().unwrap_or(0) as usize);
        let blanked: String = text
            .char_indices()
            .map(|(i, c)| if (i >= a && i < b) || c == '\n' { c } else { ' ' })
            .collect();
        let name = d["name"].as_str().unwrap_or("").to_string();
        match parser::parse_definition(&blanked) {
            Some(def) => pre.insert(name, crate::dump::ast_def(&def)),
            None => pre.insert(name, json!("parse-error")),
        };
    }
    let version = (2, 1, 4);
    let (templates, functions, lib, reports): (_, _, FileLibrary, _) = match parser::parse_files(&[path], &[], &version) {
        parser::ParseResult::Program(p, r) => (p.templates.clone(), p.functions.clone(), p.file_library.clone(), r),
        parser::ParseResult::Library(l, r) => (l.templates.clone(), l.functions.clone(), l.file_library.clone(), r),
    };
    let mut post = serde_json::Map::new();
    let mut sigs = serde_json::Map::new();
    for (name, t) in &templates {
        post.insert(name.clone(), crate::dump::ast_stmt(t.get_body()));
        sigs.insert(
            name.clone(),
            json!({"inputs": t.get_declaration_inputs().iter().map(|x| x.0.clone()).collect::<Vec<_>>(),
                   "outputs": t.get_declaration_outputs().iter().map(|x| x.0.clone()).collect::<Vec<_>>()}),
        );
    }
    let mut fns = serde_json::Map::new();
    for (name, f) in &functions {
        fns.insert(name.clone(), crate::dump::ast_stmt(f.get_body()));
    }
    json!({"pre": pre, "post": post, "functions": fns, "sigs": sigs,
           "reports": reports.iter().map(|r| crate::analyze::report_json(r, &lib)).collect::<Vec<_>>()})
    .to_string()
}
