use parser::verif::preprocess;

pub fn unhex(h: &str) -> Option<Vec<u8>> {
    if h == "-" {
        return Some(vec![]);
    }
    if h.len() % 2 != 0 {
        return None;
    }
    (0..h.len()).step_by(2).map(|i| u8::from_str_radix(&h[i..i + 2], 16).ok()).collect()
}

pub fn hex(b: &[u8]) -> String {
    if b.is_empty() {
        return "-".to_string();
    }
    b.iter().map(|x| format!("{:02x}", x)).collect()
}

/// `<hex of utf-8 text>` -> `ok <hex>` | `err <start> <end> <file>`
pub fn handle(line: &str) -> String {
    let bytes = match unhex(line.trim()) {
        Some(b) => b,
        None => return "bad-op".to_string(),
    };
    let text = match String::from_utf8(bytes) {
        Ok(t) => t,
        Err(_) => return "bad-op".to_string(),
    };
    match preprocess(&text, 7) {
        Ok(pp) => format!("ok {}", hex(pp.as_bytes())),
        Err(report) => {
            let l = &report.primary()[0];
            if l.range.start == l.range.end && l.file_id == 7 && report.primary().len() == 1 {
                format!("err {}", l.range.start)
            } else {
                format!("err {} {} {}", l.range.start, l.range.end, l.file_id)
            }
        }
    }
}
