//! `isolate`: per-definition observations used as the parameters of the runner model:
//! for every definition of a user file, the outcome and reports of CFG generation, the reports
//! of the passes and the other definitions the passes look up — each measured on a *fresh*
//! runner so that no other definition can influence it.
use parser::ParseResult;
use program_analysis::analysis_context::{AnalysisContext, AnalysisError};
use program_analysis::analysis_runner::AnalysisRunner;
use program_analysis::{config, get_analysis_passes};
use program_structure::cfg::{Cfg, IntoCfg};
use program_structure::constants::Curve;
use program_structure::file_definition::{FileID, FileLocation};
use program_structure::report::{Report, ReportCollection};
use serde_json::{json, Value};
use std::path::PathBuf;
use std::str::FromStr;

struct Recorder {
    inner: AnalysisRunner,
    lookups: Vec<String>,
}

impl AnalysisContext for Recorder {
    fn is_template(&self, name: &str) -> bool {
        self.inner.is_template(name)
    }
    fn is_function(&self, name: &str) -> bool {
        self.inner.is_function(name)
    }
    fn template(&mut self, name: &str) -> Result<&Cfg, AnalysisError> {
        self.lookups.push(name.to_string());
        self.inner.template(name)
    }
    fn function(&mut self, name: &str) -> Result<&Cfg, AnalysisError> {
        self.lookups.push(name.to_string());
        self.inner.function(name)
    }
    fn underlying_str(&self, file_id: &FileID, loc: &FileLocation) -> Result<String, AnalysisError> {
        self.inner.underlying_str(file_id, loc)
    }
}

pub fn handle(line: &str) -> String {
    let req: Value = match serde_json::from_str(line) {
        Ok(v) => v,
        Err(_) => return "bad-op".to_string(),
    };
    let paths = |k: &str| -> Vec<PathBuf> {
        req[k].as_array().map(|a| a.iter().filter_map(|x| x.as_str()).map(PathBuf::from).collect()).unwrap_or_default()
    };
    let curve = Curve::from_str(req["curve"].as_str().unwrap_or("BN254")).unwrap_or_default();
    let inputs = paths("inputs");
    let libs = paths("libs");
    // what the parser hands over
    let (templates, functions, lib, parse_reports) = match parser::parse_files(&inputs, &libs, &config::COMPILER_VERSION) {
        ParseResult::Program(p, r) => (p.templates, p.functions, p.file_library, r),
        ParseResult::Library(l, r) => (l.templates, l.functions, l.file_library, r),
    };
    let rj = |rs: &[Report]| -> Vec<Value> { rs.iter().map(|r| crate::analyze::report_json(r, &lib)).collect() };
    let mut defs = Vec::new();
    let mut names: Vec<(String, bool)> = Vec::new();
    for (n, t) in templates.iter() {
        if lib.is_user_input(t.get_file_id()) {
            names.push((n.clone(), true));
        }
    }
    for (n, f) in functions.iter() {
        if lib.is_user_input(f.get_file_id()) {
            names.push((n.clone(), false));
        }
    }
    names.sort();
    for (name, is_template) in names {
        // CFG generation (the same two steps as `generate_cfg` in analysis_runner.rs)
        let mut gen_reports = ReportCollection::new();
        let res = if is_template {
            templates.get(&name).unwrap().into_cfg(&curve, &mut gen_reports)
        } else {
            functions.get(&name).unwrap().into_cfg(&curve, &mut gen_reports)
        };
        let ok = match res {
            Ok(cfg) => match cfg.into_ssa() {
                Ok(_) => true,
                Err(e) => {
                    gen_reports.push(e.into());
                    false
                }
            },
            Err(e) => {
                gen_reports.push(e.into());
                false
            }
        };
        // passes on a fresh runner, recording lookups
        let (runner, _) = AnalysisRunner::new(curve.clone()).with_libraries(&libs).with_files(&inputs);
        let mut rec = Recorder { inner: runner, lookups: Vec::new() };
        let mut pass_reports = ReportCollection::new();
        let taken = if is_template { rec.inner.take_template(&name) } else { rec.inner.take_function(&name) };
        if let Ok(cfg) = taken {
            for pass in get_analysis_passes() {
                pass_reports.append(&mut pass(&mut rec, &cfg));
            }
        }
        defs.push(json!({"name": name, "kind": if is_template {"template"} else {"function"}, "ok": ok,
                         "gen": rj(&gen_reports), "passes": rj(&pass_reports), "lookups": rec.lookups}));
    }
    // the main component (since 1121aa8), on a fresh runner: null when no batch is handed to the writer
    #[allow(unused_mut)]
    let mut main = Value::Null;
    #[cfg(has_main_component)]
    {
        let (mut runner, _) = AnalysisRunner::new(curve.clone()).with_libraries(&libs).with_files(&inputs);
        let mut w = crate::analyze::Collect::default();
        runner.analyze_main_component(&mut w, true);
        if w.events.iter().any(|e| e["msg"] == "analyzing main component") {
            main = Value::Array(w.events.iter().filter_map(|e| e.get("report").cloned()).collect());
        }
    }
    json!({"parse": rj(&parse_reports), "defs": defs, "main": main}).to_string()
}
