//! `lift`: one definition (source text) -> AST dump, pre-SSA CFG dump, SSA CFG dump, reports.
use program_structure::cfg::IntoCfg;
use program_structure::constants::Curve;
use program_structure::file_definition::FileLibrary;
use program_structure::report::ReportCollection;
use serde_json::{json, Value};
use std::str::FromStr;

pub fn handle(line: &str) -> String {
    let req: Value = match serde_json::from_str(line) {
        Ok(v) => v,
        Err(_) => return "bad-op".to_string(),
    };
    let src = req["src"].as_str().unwrap_or("");
    let curve = Curve::from_str(req["curve"].as_str().unwrap_or("BN254")).unwrap_or_default();
    let Some(def) = parser::parse_definition(src) else {
        return json!({"error": "parse"}).to_string();
    };
    // pass budgets (hook H2): the number of passes each propagation loop may perform
    program_structure::cfg::verif::VALUE_PASSES.with(|b| b.set(req["value_passes"].as_u64().map(|x| x as usize)));
    program_structure::cfg::verif::DEGREE_PASSES.with(|b| b.set(req["degree_passes"].as_u64().map(|x| x as usize)));
    let lib = FileLibrary::new();
    let mut out = json!({"ast": crate::dump::ast_def(&def)});
    let mut reports = ReportCollection::new();
    match def.into_cfg(&curve, &mut reports) {
        Err(e) => {
            out["cfg_error"] = json!(format!("{}", e));
        }
        Ok(cfg) => {
            out["cfg"] = crate::dump::cfg(&cfg);
            match cfg.into_ssa() {
                Err(e) => {
                    let r: program_structure::report::Report = e.into();
                    out["ssa_error"] = json!(r.message());
                }
                Ok(ssa) => {
                    out["ssa"] = crate::dump::cfg(&ssa);
                    // the number of passes each propagation loop performed (hook H2)
                    out["value_passes_run"] = json!(program_structure::cfg::verif::VALUE_PASSES_RUN.with(|c| c.get()));
                    out["degree_passes_run"] = json!(program_structure::cfg::verif::DEGREE_PASSES_RUN.with(|c| c.get()));
                    // the variables of the CFG that the lookup accessors do not find (C14: every version is covered by a declaration)
                    let missing: Vec<String> = ssa
                        .variables()
                        .filter(|v| ssa.get_declaration(v).is_none() || ssa.get_type(v).is_none())
                        .map(|v| format!("{v:?}"))
                        .collect();
                    out["undeclared_by_lookup"] = json!(missing);
                }
            }
        }
    }
    out["reports"] = Value::Array(reports.iter().map(|r| crate::analyze::report_json(r, &lib)).collect());
    out.to_string()
}
