//! Canonical dumps of the AST and of the IR/CFG (with all metadata the analyses attach) as
//! uniform JSON trees: every node is an array `[tag, child, ...]`, leaves are strings.
//! See DESIGN.md Appendix A.
use program_structure::ast;
use program_structure::cfg::{Cfg, DefinitionType};
use program_structure::ir;
use program_structure::ir::degree_meta::{Degree, DegreeRange};
use program_structure::ir::value_meta::ValueReduction;
use program_structure::ir::variable_meta::{VariableMeta, VariableUse};
use serde_json::{json, Value};

fn s<T: ToString>(x: T) -> Value {
    Value::String(x.to_string())
}

// ---------------------------------------------------------------------------------- AST

pub fn ast_meta(m: &ast::Meta) -> Value {
    json!(["m", s(m.location.start), s(m.location.end)])
}

fn ast_infix(op: &ast::ExpressionInfixOpcode) -> &'static str {
    use ast::ExpressionInfixOpcode::*;
    match op {
        Mul => "mul", Div => "div", Add => "add", Sub => "sub", Pow => "pow", IntDiv => "idiv", Mod => "mod",
        ShiftL => "shl", ShiftR => "shr", LesserEq => "le", GreaterEq => "ge", Lesser => "lt", Greater => "gt",
        Eq => "eq", NotEq => "ne", BoolOr => "bor", BoolAnd => "band", BitOr => "or", BitAnd => "and", BitXor => "xor",
    }
}

fn ast_prefix(op: &ast::ExpressionPrefixOpcode) -> &'static str {
    use ast::ExpressionPrefixOpcode::*;
    match op { Sub => "neg", BoolNot => "not", Complement => "compl" }
}

fn ast_assign(op: &ast::AssignOp) -> &'static str {
    use ast::AssignOp::*;
    match op { AssignVar => "var", AssignSignal => "sig", AssignConstraintSignal => "csig" }
}

fn ast_vartype(t: &ast::VariableType) -> Value {
    use ast::VariableType::*;
    match t {
        Var => json!(["local"]),
        Signal(st, _) => json!(["signal", match st { ast::SignalType::Input => "input", ast::SignalType::Output => "output", ast::SignalType::Intermediate => "mid" }]),
        Component => json!(["component"]),
        AnonymousComponent => json!(["anoncomponent"]),
    }
}

fn ast_access(a: &ast::Access) -> Value {
    match a {
        ast::Access::ComponentAccess(n) => json!(["cmp", n]),
        ast::Access::ArrayAccess(e) => json!(["idx", ast_expr(e)]),
    }
}

pub fn ast_expr(e: &ast::Expression) -> Value {
    use ast::Expression::*;
    match e {
        InfixOp { meta, lhe, infix_op, rhe } => json!(["infix", ast_meta(meta), ast_infix(infix_op), ast_expr(lhe), ast_expr(rhe)]),
        PrefixOp { meta, prefix_op, rhe } => json!(["prefix", ast_meta(meta), ast_prefix(prefix_op), ast_expr(rhe)]),
        InlineSwitchOp { meta, cond, if_true, if_false } => json!(["switch", ast_meta(meta), ast_expr(cond), ast_expr(if_true), ast_expr(if_false)]),
        ParallelOp { meta, rhe } => json!(["par", ast_meta(meta), ast_expr(rhe)]),
        Variable { meta, name, access } => json!(["var", ast_meta(meta), name, access.iter().map(ast_access).collect::<Vec<_>>()]),
        Number(meta, n) => json!(["num", ast_meta(meta), s(n)]),
        Call { meta, id, args } => json!(["call", ast_meta(meta), id, args.iter().map(ast_expr).collect::<Vec<_>>()]),
        AnonymousComponent { meta, id, params, signals, names, is_parallel } => json!(["anon", ast_meta(meta), id,
            params.iter().map(ast_expr).collect::<Vec<_>>(), signals.iter().map(ast_expr).collect::<Vec<_>>(),
            match names { Some(ns) => Value::Array(ns.iter().map(|(op, n)| json!([ast_assign(op), n])).collect()), None => s("-") },
            if *is_parallel { "1" } else { "0" }]),
        ArrayInLine { meta, values } => json!(["arr", ast_meta(meta), values.iter().map(ast_expr).collect::<Vec<_>>()]),
        Tuple { meta, values } => json!(["tuple", ast_meta(meta), values.iter().map(ast_expr).collect::<Vec<_>>()]),
    }
}

pub fn ast_stmt(st: &ast::Statement) -> Value {
    use ast::Statement::*;
    match st {
        IfThenElse { meta, cond, if_case, else_case } => json!(["ite", ast_meta(meta), ast_expr(cond), ast_stmt(if_case),
            match else_case { Some(e) => ast_stmt(e), None => s("-") }]),
        While { meta, cond, stmt } => json!(["while", ast_meta(meta), ast_expr(cond), ast_stmt(stmt)]),
        Return { meta, value } => json!(["ret", ast_meta(meta), ast_expr(value)]),
        InitializationBlock { meta, xtype, initializations } => json!(["init", ast_meta(meta), ast_vartype(xtype), initializations.iter().map(ast_stmt).collect::<Vec<_>>()]),
        Declaration { meta, xtype, name, dimensions, .. } => json!(["decl", ast_meta(meta), ast_vartype(xtype), name, dimensions.iter().map(ast_expr).collect::<Vec<_>>()]),
        Substitution { meta, var, access, op, rhe } => json!(["sub", ast_meta(meta), var, access.iter().map(ast_access).collect::<Vec<_>>(), ast_assign(op), ast_expr(rhe)]),
        MultiSubstitution { meta, lhe, op, rhe } => json!(["msub", ast_meta(meta), ast_expr(lhe), ast_assign(op), ast_expr(rhe)]),
        ConstraintEquality { meta, lhe, rhe } => json!(["ceq", ast_meta(meta), ast_expr(lhe), ast_expr(rhe)]),
        LogCall { meta, args } => json!(["log", ast_meta(meta), args.iter().map(|a| match a {
            ast::LogArgument::LogStr(t) => json!(["str", s(t.len())]),
            ast::LogArgument::LogExp(e) => json!(["exp", ast_expr(e)]) }).collect::<Vec<_>>()]),
        Block { meta, stmts } => json!(["blk", ast_meta(meta), stmts.iter().map(ast_stmt).collect::<Vec<_>>()]),
        Assert { meta, arg } => json!(["assert", ast_meta(meta), ast_expr(arg)]),
    }
}

pub fn ast_def(d: &ast::Definition) -> Value {
    match d {
        ast::Definition::Template { name, args, arg_location, body, is_custom_gate, .. } => json!(["def",
            if *is_custom_gate { "custom" } else { "tmpl" }, name, args, ["m", s(arg_location.start), s(arg_location.end)], ast_stmt(body)]),
        ast::Definition::Function { name, args, arg_location, body, .. } => json!(["def", "fn", name, args,
            ["m", s(arg_location.start), s(arg_location.end)], ast_stmt(body)]),
    }
}

// ----------------------------------------------------------------------------------- IR

pub fn var(v: &ir::VariableName) -> Value {
    json!(["v", v.name(), match v.suffix() { Some(x) => s(x), None => s("-") }, match v.version() { Some(x) => s(x), None => s("-") }])
}

fn deg(d: Degree) -> &'static str {
    match d { Degree::Constant => "c", Degree::Linear => "l", Degree::Quadratic => "q", Degree::NonQuadratic => "n" }
}

fn range(r: Option<&DegreeRange>) -> Value {
    match r { Some(r) => json!([deg(r.start()), deg(r.end())]), None => s("-") }
}

fn value(v: Option<&ValueReduction>) -> Value {
    match v {
        Some(ValueReduction::Boolean { value }) => json!(["b", if *value { "1" } else { "0" }]),
        Some(ValueReduction::FieldElement { value }) => json!(["f", s(value)]),
        None => s("-"),
    }
}

fn vtype(t: Option<&ir::VariableType>) -> Value {
    match t {
        Some(ir::VariableType::Local) => json!(["local"]),
        Some(ir::VariableType::Component) => json!(["component"]),
        Some(ir::VariableType::AnonymousComponent) => json!(["anoncomponent"]),
        Some(ir::VariableType::Signal(st, _)) => json!(["signal", match st { ir::SignalType::Input => "input", ir::SignalType::Output => "output", ir::SignalType::Intermediate => "mid" }]),
        None => s("-"),
    }
}

pub fn meta(m: &ir::Meta) -> Value {
    json!(["m", s(m.location.start), s(m.location.end), value(m.value_knowledge().get_reduces_to()),
           range(m.degree_knowledge().degree()), vtype(m.type_knowledge().variable_type())])
}

fn infix(op: &ir::ExpressionInfixOpcode) -> &'static str {
    use ir::ExpressionInfixOpcode::*;
    match op {
        Mul => "mul", Div => "div", Add => "add", Sub => "sub", Pow => "pow", IntDiv => "idiv", Mod => "mod",
        ShiftL => "shl", ShiftR => "shr", LesserEq => "le", GreaterEq => "ge", Lesser => "lt", Greater => "gt",
        Eq => "eq", NotEq => "ne", BoolOr => "bor", BoolAnd => "band", BitOr => "or", BitAnd => "and", BitXor => "xor",
    }
}

fn prefix(op: &ir::ExpressionPrefixOpcode) -> &'static str {
    use ir::ExpressionPrefixOpcode::*;
    match op { Sub => "neg", BoolNot => "not", Complement => "compl" }
}

fn access(a: &ir::AccessType) -> Value {
    match a {
        ir::AccessType::ComponentAccess(n) => json!(["cmp", n]),
        ir::AccessType::ArrayAccess(e) => json!(["idx", expr(e)]),
    }
}

pub fn expr(e: &ir::Expression) -> Value {
    use ir::Expression::*;
    match e {
        InfixOp { meta: m, lhe, infix_op, rhe } => json!(["infix", meta(m), infix(infix_op), expr(lhe), expr(rhe)]),
        PrefixOp { meta: m, prefix_op, rhe } => json!(["prefix", meta(m), prefix(prefix_op), expr(rhe)]),
        SwitchOp { meta: m, cond, if_true, if_false } => json!(["switch", meta(m), expr(cond), expr(if_true), expr(if_false)]),
        Variable { meta: m, name } => json!(["var", meta(m), var(name)]),
        Number(m, n) => json!(["num", meta(m), s(n)]),
        Call { meta: m, name, args } => json!(["call", meta(m), name, args.iter().map(expr).collect::<Vec<_>>()]),
        InlineArray { meta: m, values } => json!(["arr", meta(m), values.iter().map(expr).collect::<Vec<_>>()]),
        Access { meta: m, var: v, access: a } => json!(["acc", meta(m), var(v), a.iter().map(access).collect::<Vec<_>>()]),
        Update { meta: m, var: v, access: a, rhe } => json!(["upd", meta(m), var(v), a.iter().map(access).collect::<Vec<_>>(), expr(rhe)]),
        Phi { meta: m, args } => json!(["phi", meta(m), args.iter().map(var).collect::<Vec<_>>()]),
    }
}

fn uses<'a>(it: impl Iterator<Item = &'a VariableUse>) -> Value {
    let mut v: Vec<String> = it.map(|u| {
        let acc: Vec<String> = u.access().iter().map(|a| match a {
            ir::AccessType::ComponentAccess(n) => format!(".{}", n),
            ir::AccessType::ArrayAccess(_) => "[]".to_string() }).collect();
        format!("{:?}{}", u.name(), acc.join(""))
    }).collect();
    v.sort();
    v.dedup();
    json!(v)
}

pub fn stmt(st: &ir::Statement) -> Value {
    use ir::Statement::*;
    let body = match st {
        Declaration { meta: m, names, var_type, dimensions } => json!(["decl", meta(m), names.iter().map(var).collect::<Vec<_>>(), vtype(Some(var_type)), dimensions.iter().map(expr).collect::<Vec<_>>()]),
        IfThenElse { meta: m, cond, true_index, false_index } => json!(["if", meta(m), expr(cond), s(true_index), match false_index { Some(i) => s(i), None => s("-") }]),
        Return { meta: m, value } => json!(["ret", meta(m), expr(value)]),
        Substitution { meta: m, var: v, op, rhe } => json!(["sub", meta(m), var(v),
            match op { ir::AssignOp::AssignSignal => "sig", ir::AssignOp::AssignConstraintSignal => "csig", ir::AssignOp::AssignLocalOrComponent => "var" }, expr(rhe)]),
        ConstraintEquality { meta: m, lhe, rhe } => json!(["ceq", meta(m), expr(lhe), expr(rhe)]),
        LogCall { meta: m, args } => json!(["log", meta(m), args.iter().map(|a| match a {
            ir::LogArgument::String(t) => json!(["str", s(t.len())]),
            ir::LogArgument::Expr(e) => json!(["exp", expr(e)]) }).collect::<Vec<_>>()]),
        Assert { meta: m, arg } => json!(["assert", meta(m), expr(arg)]),
    };
    json!(["st", body, ["use", uses(st.locals_read().iter()), uses(st.locals_written().iter()), uses(st.signals_read().iter()),
                        uses(st.signals_written().iter()), uses(st.components_read().iter()), uses(st.components_written().iter())]])
}

pub fn cfg(c: &Cfg) -> Value {
    let blocks: Vec<Value> = c.iter().map(|b| {
        let mut p: Vec<usize> = b.predecessors().iter().cloned().collect();
        p.sort();
        let mut q: Vec<usize> = b.successors().iter().cloned().collect();
        q.sort();
        json!(["b", s(b.index()), s(b.loop_depth()), p.iter().map(s).collect::<Vec<_>>(), q.iter().map(s).collect::<Vec<_>>(),
               b.iter().map(stmt).collect::<Vec<_>>()])
    }).collect();
    let mut decls: Vec<(String, Value)> = c.declarations().iter().map(|(n, d)| (format!("{:?}", n),
        json!(["d", var(n), vtype(Some(d.variable_type())), s(d.file_location().start), s(d.file_location().end), s(d.dimensions().len())]))).collect();
    decls.sort_by(|a, b| a.0.cmp(&b.0));
    let doms: Vec<Value> = c.iter().map(|b| {
        let mut d: Vec<usize> = c.get_dominators(b).iter().map(|x| x.index()).collect();
        d.sort();
        let mut f: Vec<usize> = c.get_dominance_frontier(b).iter().map(|x| x.index()).collect();
        f.sort();
        let mut ch: Vec<usize> = c.get_dominator_successors(b).iter().map(|x| x.index()).collect();
        ch.sort();
        json!(["dom", d.iter().map(s).collect::<Vec<_>>(), match c.get_immediate_dominator(b) { Some(x) => s(x.index()), None => s("-") },
               ch.iter().map(s).collect::<Vec<_>>(), f.iter().map(s).collect::<Vec<_>>()])
    }).collect();
    json!(["cfg", c.name(), match c.definition_type() { DefinitionType::Function => "fn", DefinitionType::Template => "tmpl", DefinitionType::CustomTemplate => "custom" },
           c.parameters().iter().map(var).collect::<Vec<_>>(), decls.into_iter().map(|x| x.1).collect::<Vec<_>>(), blocks, doms])
}
