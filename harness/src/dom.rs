//! `dom`: the public generic `DominatorTree::new` on an arbitrary digraph.
use program_structure::ssa::dominator_tree::DominatorTree;
use program_structure::ssa::traits::{DirectedGraphNode, Index, IndexSet};

struct Node {
    index: Index,
    preds: IndexSet,
    succs: IndexSet,
}

impl DirectedGraphNode for Node {
    fn index(&self) -> Index {
        self.index
    }
    fn predecessors(&self) -> &IndexSet {
        &self.preds
    }
    fn successors(&self) -> &IndexSet {
        &self.succs
    }
}

fn csv(v: Vec<usize>) -> String {
    if v.is_empty() {
        "-".to_string()
    } else {
        v.iter().map(|x| x.to_string()).collect::<Vec<_>>().join(",")
    }
}

/// `<n> <preds of 0> <preds of 1> ...` (csv or `-`)
pub fn handle(line: &str) -> String {
    let parts: Vec<&str> = line.split_whitespace().collect();
    let n: usize = match parts.first().and_then(|s| s.parse().ok()) {
        Some(n) => n,
        None => return "bad-op".to_string(),
    };
    if parts.len() != n + 1 {
        return "bad-op".to_string();
    }
    let mut nodes: Vec<Node> = (0..n).map(|i| Node { index: i, preds: IndexSet::new(), succs: IndexSet::new() }).collect();
    for i in 0..n {
        if parts[i + 1] != "-" {
            for p in parts[i + 1].split(',') {
                let j: usize = p.parse().unwrap();
                nodes[i].preds.insert(j);
                nodes[j].succs.insert(i);
            }
        }
    }
    let t = DominatorTree::new(&nodes);
    let mut out = Vec::new();
    for i in 0..n {
        let mut d: Vec<usize> = t.get_dominators(i).into_iter().collect();
        d.sort();
        let mut c: Vec<usize> = t.get_dominator_successors(i).into_iter().collect();
        c.sort();
        let mut f: Vec<usize> = t.get_dominance_frontier(i).into_iter().collect();
        f.sort();
        let id = t.get_immediate_dominator(i).map(|x| x.to_string()).unwrap_or("-".to_string());
        out.push(format!("D={} I={} C={} F={}", csv(d), id, csv(c), csv(f)));
    }
    out.join(";")
}
