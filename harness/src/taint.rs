//! `taint`: one definition (source text) -> SSA CFG -> the facts the taint / constraint / side-effect
//! analyses are computed from (per statement: kind, variables read / written, branch regions), the
//! real taint map, constraint map, definitions, and the reports of the side-effect pass.
use program_analysis::analysis_runner::AnalysisRunner;
use program_analysis::constraint_analysis::run_constraint_analysis;
use program_analysis::get_analysis_passes;
use program_analysis::taint_analysis::run_taint_analysis;
use program_structure::cfg::IntoCfg;
use program_structure::constants::Curve;
use program_structure::ir::value_meta::ValueMeta;
use program_structure::ir::variable_meta::VariableMeta;
use program_structure::ir::{AssignOp, Expression, SignalType, Statement, VariableName, VariableType};
use program_structure::report::ReportCollection;
use serde_json::{json, Value};
use std::collections::BTreeSet;
use std::str::FromStr;

/// unambiguous spelling of an SSA name: `name~suffix.version` (the Debug spelling `name_suffix.version`
/// collides with a source identifier that already ends in `_<n>`)
fn nm(n: &VariableName) -> String {
    let mut s = n.name().to_string();
    if let Some(x) = n.suffix() {
        s.push('~');
        s.push_str(&x.to_string());
    }
    if let Some(v) = n.version() {
        s.push('.');
        s.push_str(&v.to_string());
    }
    s
}

fn names<'a>(it: impl Iterator<Item = &'a program_structure::ir::variable_meta::VariableUse>) -> Vec<String> {
    let s: BTreeSet<String> = it.map(|u| nm(u.name())).collect();
    s.into_iter().collect()
}

pub fn handle(line: &str) -> String {
    let req: Value = match serde_json::from_str(line) {
        Ok(v) => v,
        Err(_) => return "bad-op".to_string(),
    };
    let src = req["src"].as_str().unwrap_or("");
    let curve = Curve::from_str(req["curve"].as_str().unwrap_or("BN254")).unwrap_or_default();
    let Some(mut def) = parser::parse_definition(src) else {
        return json!({"error": "parse"}).to_string();
    };
    {
        // give every node a file id so that the reports carry their locations
        use program_structure::ast::{Definition, FillMeta};
        let mut elem = 0;
        match &mut def {
            Definition::Template { body, .. } | Definition::Function { body, .. } => body.fill(0, &mut elem),
        }
    }
    let mut reports = ReportCollection::new();
    let cfg = match def.into_cfg(&curve, &mut reports) {
        Ok(c) => c,
        Err(r) => return json!({"error": "cfg", "message": format!("{}", r)}).to_string(),
    };
    let cfg = match cfg.into_ssa() {
        Ok(c) => c,
        Err(_) => return json!({"error": "ssa"}).to_string(),
    };
    let mut blocks = Vec::new();
    for bb in cfg.iter() {
        let mut stmts = Vec::new();
        for st in bb.iter() {
            use Statement::*;
            let (kind, extra): (&str, Value) = match st {
                Substitution { op, rhe, .. } => (
                    "sub",
                    json!({"constraint": matches!(op, AssignOp::AssignConstraintSignal), "phi": matches!(rhe, Expression::Phi { .. })}),
                ),
                Declaration { names: ns, dimensions, .. } => {
                    let mut dim_reads = BTreeSet::new();
                    for d in dimensions {
                        for u in d.variables_read() {
                            dim_reads.insert(nm(u.name()));
                        }
                    }
                    ("decl", json!({"declared": ns.iter().map(nm).collect::<Vec<_>>(), "dim_reads": dim_reads.into_iter().collect::<Vec<_>>()}))
                }
                IfThenElse { cond, true_index, false_index, .. } => {
                    let true_blocks: BTreeSet<usize> = cfg.get_true_branch(bb).iter().map(|b| b.index()).collect();
                    let false_blocks: BTreeSet<usize> = cfg.get_false_branch(bb).iter().map(|b| b.index()).collect();
                    let mut region = BTreeSet::new();
                    let mut region_blocks = BTreeSet::new();
                    for b in cfg.get_true_branch(bb).iter().chain(cfg.get_false_branch(bb).iter()) {
                        region_blocks.insert(b.index());
                        for u in b.variables_written() {
                            region.insert(nm(u.name()));
                        }
                    }
                    ("branch", json!({"const": cond.value().is_some(), "region": region.into_iter().collect::<Vec<_>>(),
                                      "region_blocks": region_blocks.into_iter().collect::<Vec<_>>(),
                                      "true_index": true_index, "false_index": false_index,
                                      "true_blocks": true_blocks.into_iter().collect::<Vec<_>>(),
                                      "false_blocks": false_blocks.into_iter().collect::<Vec<_>>(),
                                      "cond_reads": names(cond.variables_read())}))
                }
                Return { .. } => ("ret", json!({})),
                Assert { .. } => ("assert", json!({})),
                ConstraintEquality { .. } => ("ceq", json!({})),
                LogCall { .. } => ("log", json!({})),
            };
            stmts.push(json!({"kind": kind, "extra": extra, "read": names(st.variables_read()), "written": names(st.variables_written()),
                              "ir": crate::dump::stmt(st)}));
        }
        let mut succ: Vec<usize> = bb.successors().iter().cloned().collect();
        succ.sort();
        blocks.push(json!({"index": bb.index(), "stmts": stmts, "succ": succ, "block_read": names(bb.variables_read())}));
    }
    let taint = run_taint_analysis(&cfg);
    let cons = run_constraint_analysis(&cfg);
    let mut all: BTreeSet<String> = BTreeSet::new();
    let mut all_names: Vec<VariableName> = Vec::new();
    for bb in cfg.iter() {
        for u in bb.variables_read().chain(bb.variables_written()) {
            if all.insert(nm(u.name())) {
                all_names.push(u.name().clone());
            }
        }
    }
    for p in cfg.parameters().iter() {
        if all.insert(nm(p)) {
            all_names.push(p.clone());
        }
    }
    for (n, _) in cfg.declarations().iter() {
        if all.insert(nm(n)) {
            all_names.push(n.clone());
        }
    }
    let mut taint_map = serde_json::Map::new();
    let mut cons_map = serde_json::Map::new();
    let mut taint_closure = serde_json::Map::new();
    let mut cons_closure = serde_json::Map::new();
    for n in &all_names {
        // the closures as the passes compute them (`multi_step_taint`: zero or more steps, `multi_step_constraint`: one or more)
        let mut t: Vec<String> = taint.multi_step_taint(n).iter().map(nm).collect();
        t.sort();
        taint_closure.insert(nm(n), json!(t));
        let mut c: Vec<String> = cons.multi_step_constraint(n).iter().map(nm).collect();
        c.sort();
        cons_closure.insert(nm(n), json!(c));
        let mut t: Vec<String> = taint.single_step_taint(n).iter().map(nm).collect();
        t.sort();
        if !t.is_empty() {
            taint_map.insert(nm(n), json!(t));
        }
        let mut c: Vec<String> = cons.single_step_constraint(n).iter().map(nm).collect();
        c.sort();
        if !c.is_empty() {
            cons_map.insert(nm(n), json!(c));
        }
    }
    let mut defs: Vec<Value> = taint
        .definitions()
        .map(|u| json!({"name": nm(u.name()), "display": u.to_string(), "start": u.meta().file_location().start, "end": u.meta().file_location().end}))
        .collect();
    defs.sort_by_key(|v| v["name"].as_str().unwrap_or("").to_string());
    let mut exported = Vec::new();
    let mut signals = Vec::new();
    for (n, d) in cfg.declarations().iter() {
        if let VariableType::Signal(t, _) = d.variable_type() {
            signals.push(nm(n));
            if matches!(t, SignalType::Input | SignalType::Output) {
                exported.push(nm(n));
            }
        }
    }
    exported.sort();
    signals.sort();
    let mut runner = AnalysisRunner::new(curve);
    let passes = get_analysis_passes();
    let se = passes[3](&mut runner, &cfg);
    let lib = runner.file_library();
    json!({"blocks": blocks, "params": cfg.parameters().iter().map(nm).collect::<Vec<_>>(), "exported": exported, "signals": signals,
           "kind": match cfg.definition_type() { program_structure::cfg::DefinitionType::Function => "fn", program_structure::cfg::DefinitionType::Template => "tmpl", _ => "custom" },
           "ssa": crate::dump::cfg(&cfg), "taint_map": taint_map, "constraint_map": cons_map, "taint_closure": taint_closure,
           "constraint_closure": cons_closure, "definitions": defs,
           "reports": se.iter().map(|r| crate::analyze::report_json(r, lib)).collect::<Vec<_>>()})
    .to_string()
}
