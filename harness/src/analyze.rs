//! `analyze`: runs the real pipeline (parse_files, AnalysisRunner with all passes) in-process
//! on a project materialised on disk and returns every report *offered* to the writer.
use program_analysis::analysis_runner::AnalysisRunner;
use program_structure::constants::Curve;
use program_structure::file_definition::FileLibrary;
use program_structure::report::Report;
use program_structure::writers::{LogWriter, ReportWriter};
use serde_json::{json, Value};
use std::fmt::Display;
use std::path::PathBuf;
use std::str::FromStr;

#[derive(Default)]
pub struct Collect {
    pub events: Vec<Value>,
    pub written: usize,
}

pub fn label_json(l: &codespan_reporting::diagnostic::Label<usize>, lib: &FileLibrary) -> Value {
    let name = match lib.to_storage().get(l.file_id) {
        Ok(f) => f.name().to_string(),
        Err(_) => format!("<unknown file {}>", l.file_id),
    };
    let len = lib.to_storage().get(l.file_id).map(|f| f.source().len()).unwrap_or(0);
    json!({"file": name, "file_id": l.file_id, "start": l.range.start, "end": l.range.end,
           "label": l.message, "file_len": len})
}

pub fn report_json(r: &Report, lib: &FileLibrary) -> Value {
    json!({
        "id": r.id(),
        "name": r.name(),
        "level": r.category().to_string(),
        "message": r.message(),
        "primary": r.primary().iter().map(|l| label_json(l, lib)).collect::<Vec<_>>(),
        "secondary": r.secondary().iter().map(|l| label_json(l, lib)).collect::<Vec<_>>(),
        "notes": r.notes().iter().map(|n| n.to_string()).collect::<Vec<_>>(),
        "user_input": r.primary_file_ids().iter().any(|id| lib.is_user_input(*id)),
    })
}

impl LogWriter for Collect {
    fn write_messages<D: Display>(&mut self, messages: &[D]) {
        for m in messages {
            self.events.push(json!({"msg": m.to_string()}));
        }
    }
}

impl ReportWriter for Collect {
    fn write_reports(&mut self, reports: &[Report], lib: &FileLibrary) -> usize {
        for r in reports {
            self.events.push(json!({"report": report_json(r, lib)}));
        }
        self.written += reports.len();
        reports.len()
    }
    fn reports_written(&self) -> usize {
        self.written
    }
}

/// request: {"inputs": [paths], "libs": [paths], "curve": "BN254"}
pub fn handle(line: &str) -> String {
    let req: Value = match serde_json::from_str(line) {
        Ok(v) => v,
        Err(_) => return "bad-op".to_string(),
    };
    let paths = |k: &str| -> Vec<PathBuf> {
        req[k].as_array().map(|a| a.iter().filter_map(|x| x.as_str()).map(PathBuf::from).collect()).unwrap_or_default()
    };
    let curve = Curve::from_str(req["curve"].as_str().unwrap_or("BN254")).unwrap_or_default();
    // pass budgets (hook H2), as in `lift`: absent = the real time box only
    program_structure::cfg::verif::VALUE_PASSES.with(|b| b.set(req["value_passes"].as_u64().map(|x| x as usize)));
    program_structure::cfg::verif::DEGREE_PASSES.with(|b| b.set(req["degree_passes"].as_u64().map(|x| x as usize)));
    let (mut runner, reports) = AnalysisRunner::new(curve).with_libraries(&paths("libs")).with_files(&paths("inputs"));
    let mut w = Collect::default();
    w.write_reports(&reports, runner.file_library());
    w.events.push(json!({"msg": "--parse-done--"}));
    runner.analyze_functions(&mut w, true);
    runner.analyze_templates(&mut w, true);
    #[cfg(has_main_component)]
    runner.analyze_main_component(&mut w, true);
    let lib = runner.file_library();
    let mut files = Vec::new();
    let mut id = 0;
    while let Ok(f) = lib.to_storage().get(id) {
        files.push(json!({"id": id, "name": f.name().to_string(), "len": f.source().len(), "user": lib.is_user_input(id)}));
        id += 1;
    }
    json!({"events": w.events, "files": files}).to_string()
}
