//! Verification harness: drives the real circomspect crates in-process.
//! One request per input line, one reply per output line (see DESIGN.md Appendix A).
use std::io::{self, BufRead, Write};
use std::panic;

mod field;
mod strip;
mod analyze;
mod defpasses;
mod isolate;
mod dom;
mod dump;
mod lift;
mod desugar;
mod taint;
mod tables;

pub fn with_catch<F: FnOnce() -> String + panic::UnwindSafe>(f: F) -> String {
    match panic::catch_unwind(f) {
        Ok(s) => s,
        Err(e) => {
            let msg = if let Some(s) = e.downcast_ref::<&str>() {
                s.to_string()
            } else if let Some(s) = e.downcast_ref::<String>() {
                s.clone()
            } else {
                "?".to_string()
            };
            let loc = LAST_PANIC.with(|l| l.borrow().clone());
            format!("panic {} @ {}", msg.replace('\n', " "), loc)
        }
    }
}

thread_local! {
    pub static LAST_PANIC: std::cell::RefCell<String> = std::cell::RefCell::new(String::new());
}

fn main() {
    // the same stack size as the real binary (cli/src/main.rs runs on a 1 GB thread)
    // (pure arithmetic / string commands keep the default stack so that a runaway recursion ends quickly)
    let cmd = std::env::args().nth(1).unwrap_or_default();
    let stack = if matches!(cmd.as_str(), "field" | "strip" | "dom" | "curve" | "tables" | "primes") { 8 } else { 1024 } * 1024 * 1024;
    let handle = std::thread::Builder::new().stack_size(stack).spawn(real_main).expect("spawn");
    if handle.join().is_err() {
        std::process::exit(101);
    }
}

fn real_main() {
    panic::set_hook(Box::new(|info| {
        let loc = info.location().map(|l| format!("{}:{}", l.file(), l.line())).unwrap_or_default();
        LAST_PANIC.with(|l| *l.borrow_mut() = loc);
    }));
    let args: Vec<String> = std::env::args().collect();
    let cmd = args.get(1).map(|s| s.as_str()).unwrap_or("");
    let stdin = io::stdin();
    let stdout = io::stdout();
    let mut out = io::BufWriter::new(stdout.lock());
    match cmd {
        "field" => {
            for line in stdin.lock().lines() {
                let line = line.unwrap();
                let reply = with_catch(move || field::handle(&line));
                writeln!(out, "{}", reply).unwrap();
                out.flush().unwrap();
            }
        }
        "strip" => {
            for line in stdin.lock().lines() {
                let line = line.unwrap();
                let reply = with_catch(move || strip::handle(&line));
                writeln!(out, "{}", reply).unwrap();
                out.flush().unwrap();
            }
        }
        "analyze" => {
            for line in stdin.lock().lines() {
                let line = line.unwrap();
                let reply = with_catch(move || analyze::handle(&line));
                writeln!(out, "{}", reply).unwrap();
                out.flush().unwrap();
            }
        }
        "isolate" => {
            for line in stdin.lock().lines() {
                let line = line.unwrap();
                let reply = with_catch(move || isolate::handle(&line));
                writeln!(out, "{}", reply).unwrap();
                out.flush().unwrap();
            }
        }
        "dom" => {
            for line in stdin.lock().lines() {
                let line = line.unwrap();
                let reply = with_catch(move || dom::handle(&line));
                writeln!(out, "{}", reply).unwrap();
                out.flush().unwrap();
            }
        }
        "lift" => {
            for line in stdin.lock().lines() {
                let line = line.unwrap();
                let reply = with_catch(move || lift::handle(&line));
                writeln!(out, "{}", reply).unwrap();
                out.flush().unwrap();
            }
        }
        "desugar" => {
            for line in stdin.lock().lines() {
                let line = line.unwrap();
                let reply = with_catch(move || desugar::handle(&line));
                writeln!(out, "{}", reply).unwrap();
                out.flush().unwrap();
            }
        }
        "taint" => {
            for line in stdin.lock().lines() {
                let line = line.unwrap();
                let reply = with_catch(move || taint::handle(&line));
                writeln!(out, "{}", reply).unwrap();
                out.flush().unwrap();
            }
        }
        "defpasses" => {
            for line in stdin.lock().lines() {
                let line = line.unwrap();
                let reply = with_catch(move || defpasses::handle(&line));
                writeln!(out, "{}", reply).unwrap();
                out.flush().unwrap();
            }
        }
        "curve" => {
            for line in stdin.lock().lines() {
                let line = line.unwrap();
                let reply = with_catch(move || defpasses::curve(&line));
                writeln!(out, "{}", reply).unwrap();
                out.flush().unwrap();
            }
        }
        "tables" => {
            write!(out, "{}", tables::render()).unwrap();
        }
        "primes" => {
            use program_structure::constants::{Curve, UsefulConstants};
            for c in [Curve::Bn254, Curve::Bls12_381, Curve::Goldilocks] {
                let k = UsefulConstants::new(&c);
                writeln!(out, "{} {} {}", c, k.prime(), k.prime_size()).unwrap();
            }
        }
        _ => {
            eprintln!("unknown command {cmd}");
            std::process::exit(2);
        }
    }
    out.flush().unwrap();
}
