//! `defpasses`: one definition given as source text -> CFG -> SSA -> every analysis pass.
use program_analysis::analysis_runner::AnalysisRunner;
use program_analysis::get_analysis_passes;
use program_structure::cfg::IntoCfg;
use program_structure::constants::Curve;
use program_structure::report::ReportCollection;
use serde_json::{json, Value};
use std::str::FromStr;

pub fn handle(line: &str) -> String {
    let req: Value = match serde_json::from_str(line) {
        Ok(v) => v,
        Err(_) => return "bad-op".to_string(),
    };
    let src = req["src"].as_str().unwrap_or("");
    let curve = match Curve::from_str(req["curve"].as_str().unwrap_or("BN254")) {
        Ok(c) => c,
        Err(_) => return json!({"error": "curve"}).to_string(),
    };
    let Some(mut def) = parser::parse_definition(src) else {
        return json!({"error": "parse"}).to_string();
    };
    if req["dump"].as_bool().unwrap_or(false) {
        // give every node a file id so that the reports carry their locations (as in `taint`)
        use program_structure::ast::{Definition, FillMeta};
        let mut elem = 0;
        match &mut def {
            Definition::Template { body, .. } | Definition::Function { body, .. } => body.fill(0, &mut elem),
        }
    }
    // pass budgets (hook H2), as in `lift`: the number of passes each propagation loop may perform
    program_structure::cfg::verif::VALUE_PASSES.with(|b| b.set(req["value_passes"].as_u64().map(|x| x as usize)));
    program_structure::cfg::verif::DEGREE_PASSES.with(|b| b.set(req["degree_passes"].as_u64().map(|x| x as usize)));
    let mut reports = ReportCollection::new();
    let cfg = match def.into_cfg(&curve, &mut reports) {
        Ok(c) => c,
        Err(r) => return json!({"error": "cfg", "message": format!("{}", r)}).to_string(),
    };
    let cfg = match cfg.into_ssa() {
        Ok(c) => c,
        Err(_) => return json!({"error": "ssa"}).to_string(),
    };
    let mut runner = AnalysisRunner::new(curve);
    for pass in get_analysis_passes() {
        reports.append(&mut pass(&mut runner, &cfg));
    }
    let lib = runner.file_library();
    let out: Vec<Value> = reports.iter().map(|r| crate::analyze::report_json(r, lib)).collect();
    if req["dump"].as_bool().unwrap_or(false) {
        return json!({"reports": out, "ssa": crate::dump::cfg(&cfg)}).to_string();
    }
    json!({"reports": out}).to_string()
}

/// `curve <hex of utf-8 spelling>` -> `ok <canonical name>` | `err`
pub fn curve(line: &str) -> String {
    let Some(bytes) = crate::strip::unhex(line.trim()) else { return "bad-op".to_string() };
    let Ok(text) = String::from_utf8(bytes) else { return "bad-op".to_string() };
    match Curve::from_str(&text) {
        Ok(c) => format!("ok {}", c),
        Err(_) => "err".to_string(),
    }
}
