use circom_algebra::modular_arithmetic as ma;
use num_bigint_dig::BigInt;

fn res(r: Result<BigInt, ma::ArithmeticError>) -> String {
    match r {
        Ok(v) => format!("ok {}", v),
        Err(ma::ArithmeticError::DivisionByZero) => "err div0".to_string(),
        Err(ma::ArithmeticError::BitOverFlowInShift) => "err shift".to_string(),
    }
}

/// `<op> <a> <b> <p>`
pub fn handle(line: &str) -> String {
    let parts: Vec<&str> = line.split_whitespace().collect();
    if parts.len() != 4 {
        return "bad-op".to_string();
    }
    let parse = |s: &str| BigInt::parse_bytes(s.as_bytes(), 10);
    let (a, b, p) = match (parse(parts[1]), parse(parts[2]), parse(parts[3])) {
        (Some(a), Some(b), Some(p)) => (a, b, p),
        _ => return "bad-op".to_string(),
    };
    match parts[0] {
        "add" => res(Ok(ma::add(&a, &b, &p))),
        "sub" => res(Ok(ma::sub(&a, &b, &p))),
        "mul" => res(Ok(ma::mul(&a, &b, &p))),
        "div" => res(ma::div(&a, &b, &p)),
        "idiv" => res(ma::idiv(&a, &b, &p)),
        "mod" => res(ma::mod_op(&a, &b, &p)),
        "pow" => res(Ok(ma::pow(&a, &b, &p))),
        "neg" => res(Ok(ma::prefix_sub(&a, &p))),
        "compl" => res(Ok(ma::complement_256(&a, &p))),
        "shl" => res(ma::shift_l(&a, &b, &p)),
        "shr" => res(ma::shift_r(&a, &b, &p)),
        "or" => res(Ok(ma::bit_or(&a, &b, &p))),
        "and" => res(Ok(ma::bit_and(&a, &b, &p))),
        "xor" => res(Ok(ma::bit_xor(&a, &b, &p))),
        "not" => res(Ok(ma::not(&a, &p))),
        "bor" => res(Ok(ma::bool_or(&a, &b, &p))),
        "band" => res(Ok(ma::bool_and(&a, &b, &p))),
        "eq" => res(Ok(ma::eq(&a, &b, &p))),
        "ne" => res(Ok(ma::not_eq(&a, &b, &p))),
        "lt" => res(Ok(ma::lesser(&a, &b, &p))),
        "le" => res(Ok(ma::lesser_eq(&a, &b, &p))),
        "gt" => res(Ok(ma::greater(&a, &b, &p))),
        "ge" => res(Ok(ma::greater_eq(&a, &b, &p))),
        _ => "bad-op".to_string(),
    }
}
