//! The harness mirrors `cli/src/main.rs`; the entry point for the main component exists since the
//! repair of F-C11-main-component. Trees without it (the reverse of that repair) must still build.
use std::fs;

fn main() {
    let repo = std::env::var("VERIF_REPO").unwrap_or_else(|_| "/repo".to_string());
    let runner = format!("{repo}/program_analysis/src/analysis_runner.rs");
    println!("cargo:rerun-if-env-changed=VERIF_REPO");
    println!("cargo:rerun-if-changed={runner}");
    println!("cargo:rustc-check-cfg=cfg(has_main_component)");
    if fs::read_to_string(&runner).map(|s| s.contains("pub fn analyze_main_component")).unwrap_or(false) {
        println!("cargo:rustc-cfg=has_main_component");
    }
}
