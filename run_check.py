#!/usr/bin/env python3
"""run_check.py Cxx [--tier quick|thorough] [--replay path]

Decides one property on /repo's current working tree (see DESIGN.md section 2.3).
Exit 0: held on everything explored. Exit 1: a line `VIOLATION property=<id> replay=<path>`.
"""
import argparse
import importlib
import os
import sys
import traceback

sys.path.insert(0, os.path.dirname(os.path.abspath(__file__)))
import vlib


def main():
    ap = argparse.ArgumentParser()
    ap.add_argument("prop")
    ap.add_argument("--tier", default=os.environ.get("VERIF_TIER", "quick"))
    ap.add_argument("--replay", default=None)
    a = ap.parse_args()
    seed = int(os.environ.get("VERIF_SEED", "1") or "1")
    tier = a.tier if a.tier in ("quick", "thorough") else "quick"
    ctx = vlib.Ctx(a.prop, tier, seed)
    mod = importlib.import_module("checks." + a.prop.lower())
    try:
        if a.replay:
            mod.replay(ctx, a.replay)
        else:
            mod.run(ctx)
    except vlib.BuildError as e:
        # The machinery could not even be built against the current tree: the property is no
        # longer shown to hold. Reported as a violation without a failing input.
        ctx.say("build error: %s" % e)
        ctx.violation("build-error", {"broken": "build", "detail": str(e)[-3000:]}, no_input=True)
    except Exception:
        tb = traceback.format_exc()
        ctx.say(tb)
        ctx.violation("check-crashed", {"broken": "check", "detail": tb[-3000:]}, no_input=True)
    sys.exit(ctx.finish())


if __name__ == "__main__":
    main()
