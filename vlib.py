"""Shared machinery for the circomspect verification checks (python3, stdlib only).

A check is a function `run(ctx)` in checks/cXX.py.  It builds what it needs from /repo's
current working tree, re-checks the Lean theorems of its property, runs the correspondence
between the Lean model and the real code, and records violations in `ctx`.
"""
import fcntl
import hashlib
import json
import os
import re
import subprocess
import sys
import time

VERIF = os.path.dirname(os.path.abspath(__file__))
REPO = os.environ.get("VERIF_REPO", "/repo")
LEAN = os.path.join(VERIF, "lean")
HARNESS = os.path.join(VERIF, "harness")
HARNESS_BIN = os.path.join(HARNESS, "target", "debug", "vharness")
CSMODEL = os.path.join(LEAN, ".lake", "build", "bin", "csmodel")
STD_AXIOMS = {"propext", "Classical.choice", "Quot.sound"}
TRUSTED_BASE = [
    "Lean 4.33 kernel (lake build) and, in the thorough tier, leanchecker re-check of the property module",
    "axioms allowed: propext, Classical.choice, Quot.sound (audited with #print axioms on every run)",
    "no sorry/admit/axiom/native_decide/bv_decide/implemented_by/unsafe in lean/ (grep audit on every run)",
    "the Rust harness /verif/harness (calls the real crates in-process), the Lean driver csmodel and this Python diff",
    "the correspondence between hand-written model and code is sampled (generated + corpus inputs), not exhaustive, unless the evidence says exhaustive",
]


class SplitMix64:
    """The only source of randomness; seeded from VERIF_SEED so every run replays."""

    def __init__(self, seed):
        self.s = seed & 0xFFFFFFFFFFFFFFFF

    def next(self):
        self.s = (self.s + 0x9E3779B97F4A7C15) & 0xFFFFFFFFFFFFFFFF
        z = self.s
        z = ((z ^ (z >> 30)) * 0xBF58476D1CE4E5B9) & 0xFFFFFFFFFFFFFFFF
        z = ((z ^ (z >> 27)) * 0x94D049BB133111EB) & 0xFFFFFFFFFFFFFFFF
        return z ^ (z >> 31)

    def below(self, n):
        return self.next() % n if n > 0 else 0

    def choice(self, xs):
        return xs[self.below(len(xs))]

    def chance(self, num, den):
        return self.below(den) < num

    def bits(self, k):
        v = 0
        for _ in range((k + 63) // 64):
            v = (v << 64) | self.next()
        return v & ((1 << k) - 1)

    def shuffle(self, xs):
        xs = list(xs)
        for i in range(len(xs) - 1, 0, -1):
            j = self.below(i + 1)
            xs[i], xs[j] = xs[j], xs[i]
        return xs


class Ctx:
    def __init__(self, prop, tier, seed):
        self.prop = prop
        self.tier = tier
        self.seed = seed
        self.rng = SplitMix64(seed * 1000003 + int(prop[1:]))
        self.t0 = time.time()
        self.violations = []  # (signature, replay_path, no_input)
        self.known_hits = []
        self.coverage = {
            "evaluations": 0,
            "distinct_nontrivial": 0,
            "rule": "",
            "samples": [],
            "obligations": 0,
            "discharged": 0,
            "checker_cmd": "",
            "trusted_base": list(TRUSTED_BASE),
        }
        self.assumptions = []
        self.level = "proof"
        self.known = [k for k in load_known() if k.get("property") == prop and k.get("status") == "open"]
        self.lines = []

    def say(self, msg):
        print(msg, flush=True)

    # -- violations ------------------------------------------------------------------------
    def violation(self, signature, replay, no_input=False):
        """signature: stable string identifying *what* fails (panic site, hypothesis, input).
        replay: dict written to replays/<prop>/<hash>.json."""
        for k in self.known:
            if known_matches(k, signature, replay):
                if k["id"] not in [h["id"] for h in self.known_hits]:
                    self.known_hits.append(k)
                return
        replay = dict(replay)
        replay.setdefault("property", self.prop)
        replay.setdefault("tier", self.tier)
        replay.setdefault("seed", self.seed)
        replay["signature"] = signature
        blob = json.dumps(replay, sort_keys=True, indent=1, default=str)
        h = hashlib.sha1(blob.encode()).hexdigest()[:12]
        d = os.path.join(VERIF, "replays", self.prop)
        os.makedirs(d, exist_ok=True)
        path = os.path.join(d, h + ".json")
        with open(path, "w") as f:
            f.write(blob + "\n")
        if len(self.violations) < 400:
            self.violations.append((signature, path, no_input))

    def finish(self):
        wall = time.time() - self.t0
        for k in self.known_hits:
            print("KNOWN-FINDING: property=%s %s" % (self.prop, k["description"]), flush=True)
        # at most 20 lines, those with a failing input first
        self.violations = sorted(self.violations, key=lambda v: v[2])[:20]
        for sig, path, no_input in self.violations:
            tail = " no-failing-input-found" if no_input else ""
            print("VIOLATION property=%s replay=%s%s" % (self.prop, path, tail), flush=True)
        cov = self.coverage
        ev = {
            "property_id": self.prop,
            "tier": self.tier,
            "seed": self.seed,
            "level": self.level,
            "coverage": cov,
            "assumptions": self.assumptions,
            "wall_s": round(wall, 2),
            "violations": len(self.violations),
            "known_findings_hit": [k["id"] for k in self.known_hits],
        }
        os.makedirs(os.path.join(VERIF, "evidence"), exist_ok=True)
        with open(os.path.join(VERIF, "evidence", self.prop + ".json"), "w") as f:
            json.dump(ev, f, indent=1, default=str)
            f.write("\n")
        print("%s %s: %d evaluations, %d/%d obligations discharged, %d violation(s), %.1fs" % (
            self.prop, self.tier, cov.get("evaluations", 0), cov.get("discharged", 0),
            cov.get("obligations", 0), len(self.violations), wall), flush=True)
        return 1 if self.violations else 0


def load_known():
    p = os.path.join(VERIF, "known_findings.json")
    if not os.path.exists(p):
        return []
    with open(p) as f:
        return json.load(f)


def known_matches(k, signature, replay):
    m = k.get("match")
    if m is None:
        return False
    return re.search(m, signature) is not None


# -- building ---------------------------------------------------------------------------

class Lock:
    def __init__(self, name):
        self.path = os.path.join(VERIF, ".lock-" + name)

    def __enter__(self):
        self.f = open(self.path, "w")
        fcntl.flock(self.f, fcntl.LOCK_EX)

    def __exit__(self, *a):
        fcntl.flock(self.f, fcntl.LOCK_UN)
        self.f.close()


def sh(cmd, cwd=None, timeout=None, input=None, env=None):
    e = dict(os.environ)
    e["CARGO_NET_OFFLINE"] = "true"
    if env:
        e.update(env)
    p = subprocess.run(cmd, cwd=cwd, timeout=timeout, input=input, env=e,
                       stdout=subprocess.PIPE, stderr=subprocess.PIPE, text=True)
    return p.returncode, p.stdout, p.stderr


def build_harness():
    """Rebuilds the harness (and with it the repo crates) from /repo's working tree."""
    with Lock("cargo"):
        lock_src = os.path.join(REPO, "Cargo.lock")
        lock_dst = os.path.join(HARNESS, "Cargo.lock")
        if not os.path.exists(lock_dst):
            import shutil
            shutil.copy(lock_src, lock_dst)
        rc, out, err = sh(["cargo", "build", "--offline"], cwd=HARNESS, timeout=1800)
    if rc != 0:
        sys.stdout.write(err[-4000:])
        raise BuildError("harness does not build against the current tree:\n" + err[-3000:])
    return HARNESS_BIN


_cli_built = {}


def build_cli():
    """Builds the real `circomspect` binary from /repo's working tree (target dir in /verif)."""
    tgt = os.path.join(HARNESS, "target", "cli")
    with Lock("cargo"):
        rc, out, err = sh(["cargo", "build", "--offline", "-p", "circomspect", "--target-dir", tgt],
                          cwd=REPO, timeout=1800)
    if rc != 0:
        raise BuildError("circomspect does not build:\n" + err[-3000:])
    return os.path.join(tgt, "debug", "circomspect")


class BuildError(Exception):
    pass


def lake_build(targets):
    with Lock("lake"):
        rc, out, err = sh(["lake", "build"] + targets, cwd=LEAN, timeout=3600)
    return rc, out + err


def theorem_names(module_file):
    """Names of the theorems stated in a Props file (namespace-qualified)."""
    names = []
    ns = []
    with open(module_file) as f:
        for line in f:
            m = re.match(r"^namespace\s+(\S+)", line)
            if m:
                ns.append(m.group(1))
            m = re.match(r"^end\s+(\S+)", line)
            if m and ns and ns[-1] == m.group(1):
                ns.pop()
            m = re.match(r"^(?:private\s+|protected\s+)?theorem\s+(\S+)", line)
            if m:
                names.append(".".join(ns + [m.group(1)]))
    return names


FORBIDDEN = re.compile(r"\b(sorry|admit|native_decide|bv_decide|implemented_by)\b|^\s*axiom\s|\bunsafe\s|maxHeartbeats\s+0")


def grep_audit():
    """No sorry/admit/axiom/... outside comments anywhere in lean/."""
    hits = []
    for root, _, files in os.walk(LEAN):
        if ".lake" in root:
            continue
        for fn in files:
            if not fn.endswith(".lean"):
                continue
            path = os.path.join(root, fn)
            src = open(path).read()
            # strip block comments (non-nested approximation, nested handled by loop) and line comments
            prev = None
            while prev != src:
                prev = src
                src = re.sub(r"/-(?:(?!/-|-/).)*?-/", lambda m: "\n" * m.group(0).count("\n"), src, flags=re.S)
            for i, line in enumerate(src.split("\n"), 1):
                line = re.sub(r"--.*$", "", line)
                line = re.sub(r'"(?:[^"\\]|\\.)*"', '""', line)
                if FORBIDDEN.search(line):
                    hits.append("%s:%d: %s" % (os.path.relpath(path, LEAN), i, line.strip()))
    return hits


def check_theorems(ctx, prop_modules, extra_build=None, leanchecker=None):
    """Builds the property module(s), audits axioms, fills obligations/discharged.
    Returns (ok, failing_theorems, log)."""
    mods = ["Circomspect.Props." + m for m in prop_modules]
    files = [os.path.join(LEAN, "Circomspect", "Props", m + ".lean") for m in prop_modules]
    names = []
    for f in files:
        names += theorem_names(f)
    ctx.coverage["obligations"] = len(names)
    ctx.coverage["checker_cmd"] = "cd lean && lake build %s && lake env lean <#print axioms audit>" % " ".join(mods)
    ctx.coverage["theorems"] = names
    bad = grep_audit()
    if bad:
        ctx.coverage["discharged"] = 0
        return False, ["forbidden construct: " + b for b in bad], "\n".join(bad)
    rc, log = lake_build((extra_build or []) + mods + ["csmodel"])
    if rc != 0:
        failing = sorted(set(re.findall(r"error: [^\n]*?(Circomspect/[\w/]+\.lean:\d+:\d+)", log)))
        ctx.coverage["discharged"] = 0
        return False, failing or ["lake build failed"], log
    # axiom audit
    audit = "".join("import %s\n" % m for m in mods) + "".join("#print axioms %s\n" % n for n in names)
    apath = os.path.join(LEAN, ".lake", "audit_%s.lean" % ctx.prop)
    with open(apath, "w") as f:
        f.write(audit)
    with Lock("lake"):
        rc, out, err = sh(["lake", "env", "lean", apath], cwd=LEAN, timeout=1800)
    text = out + err
    discharged = 0
    failing = []
    blocks = re.split(r"(?=^'[^']+' (?:depends on axioms|does not depend on any axioms))", text, flags=re.M)
    seen = {}
    for b in blocks:
        m = re.match(r"'([^']+)' (depends on axioms: \[(.*?)\]|does not depend on any axioms)", b, flags=re.S)
        if not m:
            continue
        axs = set()
        if m.group(3) is not None:
            axs = {a.strip() for a in m.group(3).replace("\n", " ").split(",") if a.strip()}
        seen[m.group(1)] = axs
    for n in names:
        if n in seen and seen[n] <= STD_AXIOMS:
            discharged += 1
        else:
            failing.append("%s: axioms %s" % (n, sorted(seen.get(n, {"<not found>"}))))
    ctx.coverage["discharged"] = discharged
    ctx.coverage["axioms_used"] = sorted(set().union(*seen.values())) if seen else []
    if leanchecker or ctx.tier == "thorough":
        with Lock("lake"):
            rc2, o2, e2 = sh(["lake", "env", "leanchecker"] + mods, cwd=LEAN, timeout=3600)
        ctx.coverage["leanchecker_rc"] = rc2
        if rc2 != 0:
            failing.append("leanchecker: " + (o2 + e2)[-500:])
    return (not failing), failing, text


def run_model(lines):
    """Pipes request lines through the compiled Lean driver; returns reply lines."""
    data = "\n".join(lines) + "\n"
    rc, out, err = sh([CSMODEL], input=data, timeout=3600)
    if rc != 0:
        raise BuildError("csmodel failed: " + err[-2000:])
    replies = out.split("\n")
    if replies and replies[-1] == "":
        replies.pop()
    if len(replies) != len(lines):
        raise BuildError("csmodel returned %d replies for %d requests" % (len(replies), len(lines)))
    return replies


def run_harness(cmd, lines, timeout=3600, extra_args=None):
    data = "\n".join(lines) + "\n"
    rc, out, err = sh([HARNESS_BIN, cmd] + (extra_args or []), input=data, timeout=timeout)
    if rc != 0:
        raise BuildError("harness %s failed (rc %d): %s" % (cmd, rc, err[-2000:]))
    replies = out.split("\n")
    if replies and replies[-1] == "":
        replies.pop()
    if len(replies) != len(lines):
        raise BuildError("harness %s returned %d replies for %d requests" % (cmd, len(replies), len(lines)))
    return replies


def theorem_gate(ctx, prop_modules, extra_build=None):
    """Standard step 3 of a run. A failing proof obligation is a violation unless a failing
    input is found by the caller; returns (ok, failing)."""
    ok, failing, log = check_theorems(ctx, prop_modules, extra_build)
    if not ok:
        ctx.say("proof obligations failing: %s" % failing[:5])
        ctx.coverage["lake_log_tail"] = log[-3000:]
    return ok, failing


MEMORY_LIMIT = 8 << 30


def limit_memory():
    """for the processes that run the code under test: an input that makes the tool allocate without bound ends in an allocation
    failure (abort) of that process instead of exhausting the machine"""
    import resource
    resource.setrlimit(resource.RLIMIT_AS, (MEMORY_LIMIT, MEMORY_LIMIT))


def run_harness_robust(cmd, lines, timeout_per_batch=1800, extra_args=None, max_restarts=25):
    """Like run_harness, but survives a process abort (stack overflow, OOM) or hang: the request
    that killed the process gets the reply 'abort rc=<n>' / 'timeout' and the rest is re-run
    (after `max_restarts` deaths the remaining requests get the reply 'not-run')."""
    replies = []
    todo = list(lines)
    restarts = 0
    while todo:
        if restarts > max_restarts:
            replies += ["not-run"] * len(todo)
            break
        restarts += 1
        data = "\n".join(todo) + "\n"
        try:
            p = subprocess.run([HARNESS_BIN, cmd] + (extra_args or []), input=data, timeout=timeout_per_batch, preexec_fn=limit_memory,
                               stdout=subprocess.PIPE, stderr=subprocess.PIPE, text=True)
            out, rc, timed_out = p.stdout, p.returncode, False
        except subprocess.TimeoutExpired as e:
            out = e.stdout or ""
            if isinstance(out, bytes):
                out = out.decode("utf-8", "replace")
            rc, timed_out = -1, True
        got = out.split("\n")
        if got and got[-1] == "":
            got.pop()
        if len(got) >= len(todo):
            replies += got[:len(todo)]
            break
        # process died while handling request number len(got)
        replies += got
        replies.append("timeout" if timed_out else "abort rc=%d" % rc)
        todo = todo[len(got) + 1:]
    return replies


class Workdir:
    """Scratch directory outside /repo and /verif, removed on exit."""

    def __init__(self, tag):
        import tempfile
        base = "/var/tmp"
        self.path = tempfile.mkdtemp(prefix="verif-%s-" % tag, dir=base)

    def __enter__(self):
        return self

    def __exit__(self, *a):
        import shutil
        shutil.rmtree(self.path, ignore_errors=True)

    def write(self, rel, content):
        p = os.path.join(self.path, rel)
        os.makedirs(os.path.dirname(p), exist_ok=True)
        mode = "wb" if isinstance(content, bytes) else "w"
        with open(p, mode) as f:
            f.write(content)
        return p


def analyze(requests):
    """requests: list of dict(inputs=[paths], libs=[paths], curve=str). Returns parsed replies:
    dict with events/files, or {'crash': text}."""
    lines = [json.dumps(r) for r in requests]
    out = []
    for rep in run_harness_robust("analyze", lines):
        if rep.startswith("{"):
            out.append(json.loads(rep))
        else:
            out.append({"crash": rep})
    return out


def reports_of(reply):
    return [e["report"] for e in reply.get("events", []) if "report" in e]


def norm_report(r, with_pos=True):
    """canonical, comparable form of a report"""
    def lab(l):
        return (os.path.basename(l["file"]), l["start"], l["end"], l["label"]) if with_pos else (os.path.basename(l["file"]), l["label"])
    return (r["id"], r["level"], r["message"], tuple(sorted(lab(l) for l in r["primary"])),
            tuple(sorted(lab(l) for l in r["secondary"])), tuple(r["notes"]))


_SAFE = re.compile(r"^[A-Za-z0-9_$.\-+*/<>=!&|^~%:,\[\]{}#@?']+$")


def sexp(v):
    """uniform JSON tree (arrays of arrays/strings) -> one-line S-expression for the Lean driver"""
    if isinstance(v, list):
        return "(" + " ".join(sexp(x) for x in v) + ")"
    t = str(v)
    if _SAFE.match(t):
        return t
    return "x" + t.encode("utf-8").hex()
