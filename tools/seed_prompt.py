import json,sys,subprocess,os
pid, names = sys.argv[1], sys.argv[2].split(',')
p=[json.loads(l) for l in open('/verif/properties.jsonl') if json.loads(l)['id']==pid][0]
d='/var/tmp/seeds/wt_%s'%pid
if not os.path.exists(d):
    subprocess.run(['git','-C','/repo','worktree','add','--detach',d,'HEAD'],check=True,stdout=subprocess.DEVNULL)
print(f"""You are working on the open-source project trailofbits/circomspect (a Rust static analyzer for Circom circuits). Your scratch copy is the git worktree at {d} (HEAD = current pinned tree). Work ONLY inside {d}. Do not read, list or modify /repo or /verif (you need nothing from there). The sandbox is offline: use `cargo build --offline` / `cargo test --workspace --no-fail-fast --offline` (the existing suite has 54 tests and must keep passing). The CLI binary is the `circomspect` package (cli/); `cargo run --offline -q -p circomspect -- file.circom` runs it.

This is a mutation-testing exercise for a verification effort: we want realistic, subtle *bugs* that a maintainer could plausibly introduce (an optimisation, a refactor, an off-by-one, a wrong-but-plausible condition, a reordered step, two sites that each look fine alone), which violate the following semantic property of the tool while the code still compiles and the whole existing test suite still passes.

PROPERTY {p['id']} — {p['title']}
{p['statement']}
(Quantifies over: {p['quantifier']['text']}. Code anchors: {', '.join(p['anchors']['files'])}.)

Produce {len(names)} DIFFERENT and independent changes (each is applied on its own to the clean tree), named {', '.join(names)}. Requirements for each:
 1. It compiles, and `cargo test --workspace --no-fail-fast --offline` still passes (run it and confirm all 54 pass).
 2. It really breaks the property, and you demonstrate it: a small demonstration (one or more .circom files plus a `run.sh`, or a Rust test/program) that FAILS (non-zero exit) with the change applied and PASSES (exit 0) on the unchanged tree. The demonstration must observe the tool's real behaviour (CLI output / exit status / library API), not just grep the source.
 3. It needs something specific to manifest — a particular unusual input shape, a multi-step sequence, a particular ordering / hash order, a boundary value, a fault at a particular point, or two cooperating code sites — so that ordinary use and simple smoke inputs would NOT expose it at once. Avoid trivial mutations that break everything (e.g. flipping a ubiquitous condition). Prefer changes away from the most obvious line; changes in helper code that the anchored mechanism relies on are welcome. The two changes should be of different kinds and touch different mechanisms if possible.
 4. Keep it small (a few lines to a few dozen lines), source files only (no test edits, no Cargo changes).

Deliver for each change <name> a directory {d}/_seed_out/<name>/ containing:
   - patch.diff   : `git diff` against HEAD (must apply with `git apply` from the repository root of a clean checkout)
   - the demonstration files and run.sh (run.sh takes the repository root as $1, builds what it needs with --offline, exits 0 iff the property holds on the demo)
   - meta.json    : {{"property": "{pid}", "files": [...touched files...], "summary": "...what the change does and why it violates the property...", "needs": "...what specific input/sequence/ordering is needed for it to manifest...", "ran": "...the commands you ran and what you observed with and without the change..."}}
When finished, restore the worktree sources to the clean state (`git -C {d} checkout -- .`), leaving only the untracked _seed_out directory, and remove {d}/target if it is larger than 3 GB. Reply with a short summary of each change (files, idea, how it manifests).""")
