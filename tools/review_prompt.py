#!/usr/bin/env python3
"""Prompt for an independent review of recent `fix:` commits: the sub-agent gets a scratch worktree, the texts of the properties and a
list of commits, and looks for regressions or gaps in those repairs (nothing from /verif).
  review_prompt.py <name> <commit> [<commit> ...] > /var/tmp/seeds/r_<name>.txt   (creates the worktree /var/tmp/seeds/rv_<name>)"""
import json, sys, subprocess, os
name, commits = sys.argv[1], sys.argv[2:]
d = '/var/tmp/seeds/rv_%s' % name
if not os.path.exists(d):
    subprocess.run(['git', '-C', '/repo', 'worktree', 'add', '--detach', d, 'HEAD'], check=True, stdout=subprocess.DEVNULL)
props = [json.loads(l) for l in open('/verif/properties.jsonl')]
ptext = "\n".join("%s — %s: %s" % (p['id'], p['title'], p['statement']) for p in props)
print(f"""You are reviewing recent repairs in the open-source project trailofbits/circomspect (a Rust static analyzer for Circom circuits). Your scratch copy is the git worktree at {d} (HEAD = the current tree). Work ONLY inside {d}. Do not read, list or modify /repo or /verif (you need nothing from there). The sandbox is offline: build with `cargo build --offline -p circomspect` (binary: {d}/target/debug/circomspect); `cargo test --workspace --no-fail-fast --offline` runs the existing suite. Do NOT change the sources (you may add scratch programs under {d}/_review_out/).

The tool is expected to satisfy these semantic properties:

{ptext}

Task: the following commits are recent repairs (`git show <commit>` in your worktree shows each with its message): {' '.join(commits)}. Review each of them critically, as a maintainer who distrusts the patch would: (1) does it introduce a REGRESSION — a concrete input on which the tool now violates one of the properties above (or panics, hangs, loses a correct finding it used to give, or gives a false one) although it behaved correctly before the commit (`git stash`-free way to compare: build a second copy of the parent commit with `git worktree add` inside {d}/_review_out/ if you need the old behaviour — remove it when done); (2) is the repair INCOMPLETE — a close variant of the defect described in the commit message that the patch does not cover; (3) does it interact badly with another of these commits or with the per-definition time box (value/degree propagation may stop early, leaving facts missing), hash-order nondeterminism, shadowing/renaming, component arrays, includes, or unusual but valid Circom. Form concrete hypotheses from reading the diffs and the surrounding code, and test each by running the real binary (or a small Rust program against the library).

Rules:
 - Only report what you have reproduced and can explain from the code; minimise each input; say which property is violated and which commit is responsible.
 - Distinguish (a) genuine regressions/gaps, (b) loss of precision that is acceptable (the tool says less than before but nothing false), (c) out of scope. Only (a) counts; list (b)/(c) briefly.
 - Try at least 3 hypotheses per commit; list also the ones that held.

Deliver in {d}/_review_out/: one directory per finding (f1, f2, ...) with the minimal input file(s), a `run.sh` (takes the repository root as $1, exits 0 iff the behaviour is CORRECT — so it exits non-zero on the current tree for a genuine finding) and `finding.json`: {{"commit": "...", "property": "...", "summary": "...", "input": "...", "observed": "...", "expected": "...", "why_genuine": "...", "code_location": "..."}}; and {d}/_review_out/hypotheses.md with every hypothesis and its outcome. When finished remove {d}/target if it is larger than 3 GB. Reply with a short summary.""")
