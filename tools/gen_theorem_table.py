#!/usr/bin/env python3
"""Regenerates the table of §9.1 of DESIGN.md (theorem names per property) from lean/Circomspect/Props/Cxx.lean."""
import os
import re

V = os.path.dirname(os.path.dirname(os.path.abspath(__file__)))
rows = []
for i in range(1, 21):
    pid = "C%02d" % i
    src = open(os.path.join(V, "lean/Circomspect/Props/%s.lean" % pid)).read()
    names = re.findall(r"^theorem\s+([A-Za-z0-9_'.]+)", src, re.M)
    rows.append("| %s | proof | %s |" % (pid, ", ".join("`%s`" % n for n in names)))
p = os.path.join(V, "DESIGN.md")
s = open(p).read()
head = "| id | level | theorems |\n|----|-------|----------|\n"
a = s.index(head) + len(head)
b = s.index("\n\n", a)
s = s[:a] + "\n".join(rows) + s[b:]
open(p, "w").write(s)
print("theorem table: %d rows" % len(rows))
