#!/usr/bin/env python3
"""Writes ledger/panic_sites.json from the classification rules below (run by hand when the set of
panic sites of /repo changes; the result is committed and `panic_scan.py --check` only reads it).
Each rule: (file regex, function regex, text regex, disposition, reason / theorem)."""
import json
import os
import re
import sys

sys.path.insert(0, os.path.dirname(os.path.abspath(__file__)))
import panic_scan

R = [
    # ---- parser -------------------------------------------------------------------------------------
    (r"include_logic", r"add_include", r"current_location", "invariant",
     "take_next sets current_location before parse_file calls add_include (Model/Includes.step: the file is taken before its includes are added)"),
    (r"include_logic", r"add_included_from", r"current_file", "invariant",
     "take_next sets current_file together with current_location before parse_source calls add_include"),
    (r"include_logic", r"include_library", r"file_name\(\)", "guarded",
     "file libraries are stored canonicalised with the extension `circom`, so the path has a final component"),
    (r"lang\.lalrpop", r"DECNUMBER", r"base10", "guarded", "the terminal's regex [0-9]+ only matches decimal digits"),
    (r"lang\.lalrpop", r"HEXNUMBER", r"base16", "guarded", "the terminal's regex 0x[0-9A-Fa-f]+ only matches at least one hexadecimal digit (fixed: 5641700)"),
    (r"syntax_sugar_remover", r"remove_syntactic_sugar", r"unreachable", "proved",
     "theorem:C01_desugar_body_block — the body of a template is a block (grammar) and removing anonymous components from a block returns a block"),
    (r"syntax_sugar_remover", r"remove_anonymous_from_", r"get_line", "invariant",
     "every AST node carries the id of the file it was parsed from (FillMeta in parse_file), and that file is in the library"),
    (r"syntax_sugar_remover", r"remove_anonymous_from_expression", r"var_access\.as_ref\(\)\.unwrap", "guarded", "inside the else branch of `var_access.is_none()`"),
    (r"syntax_sugar_remover", r"remove_anonymous_from_expression", r"template\.unwrap\(\)", "guarded", "the function returns an error above when `template.is_none()`"),
    (r"syntax_sugar_remover", r"remove_anonymous_from_expression", r"position\(", "guarded", "inside the else branch of `!names.contains(&inp.0)`"),
    (r"syntax_sugar_remover", r"remove_anonymous_from_expression", r"signals\.get\(pos\)|operators\.get\(pos\)", "invariant",
     "ListableWithInputNames builds `names` and `signals` with the same length, and pos < names.len(); the model returns a sentinel error here and the "
     "correspondence of checks/c18.py never observes it"),
    (r"syntax_sugar_remover", r"remove_anonymous_from_expression", r"new_signals\.get\(i\)|new_operators\.get\(i\)", "guarded",
     "the length check `inputs.len() != new_signals.len()` returns an error before the loop, and both vectors are filled together"),
    (r"syntax_sugar_remover", r"separate_declarations_in_comp_var_subs", r"unreachable", "proved",
     "theorem:C01_desugar_decl_kinds — the declarations produced by the removal are local/component declarations and substitutions"),
    (r"syntax_sugar_remover", r"remove_tuple_from_expression", r"unreachable", "proved",
     "theorem:C01_no_anon_after_removal — tuple removal runs on the output of the anonymous-component removal, which is free of them"),
    # ---- AST ----------------------------------------------------------------------------------------
    (r"abstract_syntax_tree/ast\.rs", r"get_file_id", r"Empty file id", "invariant", "file ids are filled for every node by FillMeta in parse_file before any later stage runs"),
    (r"abstract_syntax_tree/ast\.rs", r"reduces_to|concrete_dimensions|full_length|abstract_memory_address", r"panic!", "dead-api", "type-analysis accessors inherited from the compiler, unused by the analyzer"),
    (r"ast_shortcuts", r"split_declaration_into_single_nodes_and_multi_substitution", r"debug_assert", "guarded",
     "the grammar only passes SimpleSymbol (no initialiser) to the tuple-declaration productions"),
    # ---- CFG ----------------------------------------------------------------------------------------
    (r"control_flow_graph/cfg\.rs", r"get_predecessors|get_successors|get_interval|get_true_branch|get_false_branch", r"in control-flow graph", "proved",
     "theorem:C01_cfg_indices — block indices stored in predecessor/successor sets and in branch statements are indices of existing blocks (from theorem:C12_shape and theorem:C12_branch_targets; the model CFG is compared with every real CFG by C12's check)"),
    (r"control_flow_graph/cfg\.rs", r"get_true_branch|get_false_branch", r"does not end with an if-statement", "guarded",
     "the only caller (taint_analysis) calls it while visiting the IfThenElse statement of that block, and a branch is the last statement of its block (theorem:C12_branch_last)"),
    (r"control_flow_graph/lifting\.rs", r"build_basic_blocks", r"assert!\(matches!\(body", "invariant", "definition bodies are produced by ParseBlock and stay blocks through desugaring (theorem C01_desugar_body_block for templates)"),
    (r"control_flow_graph/lifting\.rs", r"visit_statement", r"is_empty\(\)", "proved",
     "theorem:C01_init_block_assert — the children of an InitializationBlock are declarations and substitutions (grammar), for which visit_statement returns the empty predecessor set"),
    (r"control_flow_graph/unique_vars\.rs", r"ensure_unique_variables", r"assert!\(matches!", "invariant", "definition bodies are blocks (see build_basic_blocks)"),
    (r"control_flow_graph/ssa_impl\.rs", r"ensure_phi_argument", r"expected phi statement", "guarded", "only called from update_phi_statements on statements selected by is_phi_statement"),
    (r"control_flow_graph/ssa_impl\.rs", r"insert_ssa_variables|visit_expression", r"version\(\)\.is_none\(\)", "proved",
     "theorem:C01_ssa_sites_once — the pre-order walk over the dominator tree converts every statement once (the subtrees of different children are disjoint), so names are unversioned on entry; the walk model reproduces every real SSA dump (C14, L3)"),
    (r"control_flow_graph/ssa_impl\.rs", r"update_declarations", r"", "invariant", "every declared name was entered into the SSA environment by Environment::new / insert_phi_statements"),
    (r"intermediate_representation/declarations\.rs", r"add_declaration", r"assert!", "proved",
     "theorem:C10_injective — after ensure_unique_variables two declarations never share a name"),
    (r"intermediate_representation/degree_meta\.rs", r"iter_inf", r"must not be empty", "guarded", "the only caller, iter_opt, checks `!ranges.is_empty()`"),
    (r"intermediate_representation/expression_impl\.rs", r"propagate_values", r"next\(\)\.unwrap", "guarded", "inside the match arm `values.len() == 1`"),
    (r"intermediate_representation/lifting\.rs", r"try_lift", r"failed to convert AST statement", "proved",
     "theorem:C18_template_clean / theorem:C18_function_reject — no MultiSubstitution reaches lifting; Block/While/IfThenElse/InitializationBlock are matched by the CFG lifting before it calls try_lift"),
    (r"intermediate_representation/lifting\.rs", r"try_lift", r"failed to convert AST expression", "proved",
     "theorem:C18_template_clean / theorem:C18_function_reject — no tuple or anonymous component reaches lifting"),
    (r"intermediate_representation/variable_meta\.rs", r"(locals|signals|components)_(read|written)", r"must be initialized", "invariant",
     "cache_variable_use runs at the end of into_cfg and into_ssa, and on every statement created or changed afterwards (phi insertion); all passes run on such CFGs"),
    (r"program_library/(function|template)_data\.rs", r"get_(mut_)?body_as_vec", r"should be a block", "dead-api", "unused accessors"),
    (r"program_library/program_archive\.rs", r"get_(mut_)?(template|function)_data", r"", "dead-api", "unused accessors of the program archive"),
    (r"program_library/template_library\.rs", r"get_(template|function)(_mut)?", r"", "dead-api", "unused accessors of the template library"),
    (r"static_single_assignment/dominator_tree\.rs", r"new", r"immediate_dominators\[0\]", "proved", "theorem:C15_no_panic — the entry block has no immediate dominator"),
    (r"static_single_assignment/dominator_tree\.rs", r"compute_immediate_dominators", r"idom_candidates", "proved", "theorem:C15_no_panic — at most one immediate-dominator candidate"),
    (r"static_single_assignment/mod\.rs", r"insert_ssa_variables_impl", r"invalid block index", "invariant", "successor and dominator-tree indices are indices of existing blocks (C12 / C15 on every real CFG)"),
    (r"utils/constants\.rs", r"prime", r"failed to parse prime", "guarded", "the three primes are decimal string constants"),
    (r"utils/sarif_conversion\.rs", r"to_sarif", r"range\.start <= self\.range\.end", "invariant", "source ranges come from the parser's @L/@R positions"),
    (r"utils/sarif_conversion\.rs", r"to_uri", r"to_str\(\)\.unwrap", "guarded", "the PathBuf is built from a String (the file name stored in the file library)"),
    (r"utils/writers\.rs", r"write_messages|write_reports", r"failed to write", "environment", "stdout closed or not writable"),
    (r"analysis_runner\.rs", r"with_src", r"parse_definition", "test-only", "the function is #[cfg(test)]"),
    (r"analysis_runner\.rs", r"cache_template|cache_function|take_template|take_function", r"unwrap\(\)", "guarded", "the entry was inserted (or its presence checked) a few lines above"),
    (r"circom_algebra/src/modular_arithmetic\.rs", r"complement_256", r"from_radix_le", "guarded", "the digits are 0/1 and the radix is 2"),
    # ---- utils/environment.rs -----------------------------------------------------------------------
    (r"utils/environment\.rs", r"^remove_variable_block$", r"assert!", "proved",
     "theorem:C01_ssa_scopes_nonempty — the environment starts with one block and scopes are pushed and popped in pairs (around dominator-tree children in SSA conversion, around blocks in unique_vars: Model/UniqueVars enter/exit events), so the stack below the innermost block is never touched"),
    (r"utils/environment\.rs", r"^add_variable$", r"", "proved", "theorem:C01_ssa_scopes_nonempty — the environment always has at least one block"),
    (r"utils/environment\.rs", r"^get_variable$|^get_mut_variable$", r"", "guarded", "VariableBlock::get_variable is only called after contains_variable returned true"),
    (r"utils/environment\.rs", r"merge|_or_break", r"", "dead-api", "unused parts of the environment type inherited from the compiler"),
]


def classify(site):
    for fre, fnre, tre, disp, reason in R:
        if re.search(fre, site["file"]) and re.search(fnre, site["fn"]) and re.search(tre, site["text"]):
            return disp, reason
    return None


def main():
    sites = panic_scan.scan()
    out = {}
    missing = []
    for s in sites:
        c = classify(s)
        if c is None:
            missing.append(s)
            continue
        out[s["key"]] = {"disposition": c[0], "reason": c[1]}
    path = os.path.join(panic_scan.VERIF, "ledger", "panic_sites.json")
    json.dump({"sites": out}, open(path, "w"), indent=1, sort_keys=True)
    print(len(out), "classified;", len(missing), "unclassified")
    for s in missing:
        print("  UNCLASSIFIED %s:%d [%s] %s" % (s["file"], s["line"], s["fn"], s["text"][:140]))


if __name__ == "__main__":
    main()
