#!/usr/bin/env python3
"""Prompt for a differential review: realistic circuits through the pinned base and the current tree, every difference in the findings judged.
  diff_prompt.py > /var/tmp/seeds/d_all.txt   (creates the worktrees /var/tmp/seeds/df_head and /var/tmp/seeds/df_base)"""
import json, subprocess, os
base = subprocess.run(['git', '-C', '/repo', 'rev-list', '--max-parents=0', 'HEAD'], stdout=subprocess.PIPE, text=True).stdout.split()[0]
for d, rev in (('/var/tmp/seeds/df_head', 'HEAD'), ('/var/tmp/seeds/df_base', base)):
    if not os.path.exists(d):
        subprocess.run(['git', '-C', '/repo', 'worktree', 'add', '--detach', d, rev], check=True, stdout=subprocess.DEVNULL)
props = [json.loads(l) for l in open('/verif/properties.jsonl')]
ptext = "\n".join("%s — %s: %s" % (p['id'], p['title'], p['statement']) for p in props)
print(f"""You are doing a differential review of the open-source project trailofbits/circomspect (a Rust static analyzer for Circom circuits). Two git worktrees are prepared: /var/tmp/seeds/df_base (the tree as it was before a long series of repair commits) and /var/tmp/seeds/df_head (the current tree; `git log --format='%h %s'` there lists about 70 commits whose message starts with `fix:`). Work ONLY inside these two directories (scratch files under /var/tmp/seeds/df_head/_diff_out/). Do not read, list or modify /repo or /verif. The sandbox is offline: build each with `cargo build --offline -p circomspect` (binary: <worktree>/target/debug/circomspect). Do NOT change the sources.

The tool is expected to satisfy these semantic properties:

{ptext}

Task: find REGRESSIONS — inputs on which the current tree behaves worse than the base with respect to the properties above: a correct finding of the base that is lost, a new false finding, a wrong location, a new panic/hang, a silent failure, non-determinism. Method: write a corpus of at least 40 REALISTIC Circom 2 circuits of the kind found in circomlib and in real projects (bit decomposition and recomposition, comparators built from Num2Bits and LessThan, IsZero/IsEqual, multiplexers, Poseidon/MiMC-like round loops with component arrays, Merkle proof checkers, range checks, signed arithmetic helpers, functions computing constants, templates with parameters deciding branches, tuples and anonymous components, includes and libraries, several files) — valid programs a developer would really write, plus some with typical developer mistakes (`<--` without constraint, unused signals, shadowing, non-strict Num2Bits(254), BN254-specific templates under another curve, division by a signal). Run both binaries on each (all three curves where relevant, `--level info`, also `--sarif-file`) and diff the findings (id, message, location). Judge EVERY difference: is the new behaviour the right one according to the properties and to what Circom means, or is it a regression? Use the commit messages in df_head to understand intended changes; do not accept a commit message as proof that a change is right.

Rules: only report regressions you have reproduced and can explain from the code of the responsible commit (use `git log -S`/`git bisect`-style reasoning, building intermediate commits in additional worktrees under _diff_out/ if needed, removing them afterwards); minimise each input. List also the classes of differences you judged to be improvements (one line each with a count), and any difference you could not decide.

Deliver in /var/tmp/seeds/df_head/_diff_out/: the corpus (corpus/), one directory per regression (f1, f2, ...) with the minimal input, a `run.sh` (takes the current-tree root as $1, exits 0 iff the behaviour is CORRECT) and `finding.json` {{"commit": "...", "property": "...", "summary": "...", "observed_base": "...", "observed_head": "...", "expected": "...", "why_regression": "..."}}, and `differences.md` with the full classification. When finished remove the `target` directories of any extra worktrees you created. Reply with a short summary.""")
