#!/usr/bin/env python3
"""Prompt for an independent bug hunt on the unchanged tree: the sub-agent gets the text of one property and its own scratch
worktree (nothing from /verif) and looks for inputs on which the pinned tool violates the property.
  audit_prompt.py C07 > /var/tmp/seeds/a_C07.txt   (creates the worktree /var/tmp/seeds/au_C07)"""
import json, sys, subprocess, os
pid = sys.argv[1]
round2 = len(sys.argv) > 2 and sys.argv[2] == 'round2'
p = [json.loads(l) for l in open('/verif/properties.jsonl') if json.loads(l)['id'] == pid][0]
d = '/var/tmp/seeds/au_%s' % pid
if not os.path.exists(d):
    subprocess.run(['git', '-C', '/repo', 'worktree', 'add', '--detach', d, 'HEAD'], check=True, stdout=subprocess.DEVNULL)
print(f"""You are auditing the open-source project trailofbits/circomspect (a Rust static analyzer for Circom circuits). Your scratch copy is the git worktree at {d} (HEAD = the pinned tree). Work ONLY inside {d}. Do not read, list or modify /repo or /verif (you need nothing from there). The sandbox is offline: build with `cargo build --offline -p circomspect` (binary: {d}/target/debug/circomspect); `cargo test --workspace --no-fail-fast --offline` runs the existing suite. Do NOT change the sources (you may add scratch test programs under {d}/_audit_out/).

Task: find GENUINE violations of the following semantic property in the tool AS IT IS (no code changes): concrete inputs (.circom files, command lines, file layouts) on which the unchanged tool's observable behaviour (CLI output, exit status, SARIF, or library API results) contradicts the property. Read the anchored code carefully, think about unusual but VALID Circom programs and unusual-but-legal usage (edge cases of the language: templates with parameters deciding branches, signals assigned in branches, arrays, components and their inputs/outputs, nested loops, shadowing, functions, ternaries, anonymous components, tuples, includes), form hypotheses about where the implementation's reasoning is weaker than the property demands, and test each hypothesis by running the real binary.

PROPERTY {p['id']} — {p['title']}
{p['statement']}
(Quantifies over: {p['quantifier']['text']}. Code anchors: {', '.join(p['anchors']['files'])}.)

Rules:
 - Only report a violation you have reproduced with the real binary (or a small Rust program against the library) and that you can explain from the code. State clearly why the observed behaviour contradicts the property and why the input is a legitimate one for the property (e.g. valid Circom, or at least something the tool accepts and analyses).
 - Distinguish clearly between (a) genuine violations, (b) imprecision that is NOT a violation (the tool says less than it could), and (c) behaviour on inputs outside the property's scope. Only (a) counts; list (b)/(c) briefly if you think they are borderline.
 - Try at least 8 different hypotheses covering different mechanisms; report also the hypotheses that did not lead to a violation (one line each), so that the coverage of the audit is visible.
 - Minimise each failing input.

Deliver in {d}/_audit_out/: one directory per finding (f1, f2, ...) containing the minimal input file(s), a `run.sh` (takes the repository root as $1, builds with --offline if needed, exits 0 iff the property HOLDS on the input — so it exits non-zero on the pinned tree for a genuine finding), and `finding.json`: {{"property": "{pid}", "summary": "...", "input": "...", "observed": "...", "expected": "...", "why_genuine": "...", "code_location": "file:line and the reasoning flaw"}}. Also write {d}/_audit_out/hypotheses.md listing every hypothesis tried and its outcome. When finished remove {d}/target if it is larger than 3 GB. Reply with a short summary of the findings (or say that none was found) and the list of hypotheses tried.""")
if round2:
    print("""
SECOND ROUND. Earlier audits of this tool already led to repairs: `git log --grep '^fix:' --format='%h %s'` in your worktree lists them (read the commit messages and diffs of those that touch the code this property is anchored in). Do NOT re-report a defect that one of these commits repaired. Look for DIFFERENT mechanisms: language features and usage the earlier fixes did not touch, the interplay of the repairs with the rest of the code, and regressions the repairs themselves may have introduced (a regression is a genuine violation). Spend your effort where the implementation's reasoning is subtle, and prefer fewer, well-understood findings over many shallow ones.""")
