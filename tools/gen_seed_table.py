#!/usr/bin/env python3
"""Regenerates the table of seeded changes in DESIGN.md (between the markers) from seeded/*/*/{meta,result}.json."""
import glob
import json
import os
import re

V = os.path.dirname(os.path.dirname(os.path.abspath(__file__)))
rows = []
for d in sorted(glob.glob(os.path.join(V, "seeded", "*", "*"))):
    mp, rp = os.path.join(d, "meta.json"), os.path.join(d, "result.json")
    if not os.path.exists(mp):
        continue
    m = json.load(open(mp))
    pid, name = d.split(os.sep)[-2:]
    summary = re.sub(r"\s+", " ", m.get("summary", "")).replace("|", "\\|")
    if len(summary) > 230:
        summary = summary[:227] + "..."
    needs = re.sub(r"\s+", " ", m.get("needs", "")).replace("|", "\\|")
    if len(needs) > 160:
        needs = needs[:157] + "..."
    if os.path.exists(rp):
        r = json.load(open(rp))
        parts = []
        for c, res in r["results"].items():
            if c.endswith("_after_strengthening"):
                parts.append("**%s after strengthening: caught**" % c.split("_")[0])
                continue
            sig = ""
            if res.get("signatures"):
                sig = " (" + res["signatures"][0][:40].replace("|", "/") + ")"
            parts.append("%s: %s%s" % (c, "caught" if res["exit"] not in (0, "timeout") else ("TIMEOUT" if res["exit"] == "timeout" else "quiet"), sig))
        verdict = "; ".join(parts)
    else:
        verdict = m.get("ran", "")[:160]
    rows.append("| %s/%s | %s | %s | %s |" % (pid, name, summary, needs or "—", verdict))
table = "| change | what it does | what it needs to manifest | checks run against it |\n|---|---|---|---|\n" + "\n".join(rows)
p = os.path.join(V, "DESIGN.md")
s = open(p).read()
a, b = "<!-- seeded-table-begin -->", "<!-- seeded-table-end -->"
if a in s:
    s = s[:s.index(a) + len(a)] + "\n" + table + "\n" + s[s.index(b):]
    open(p, "w").write(s)
else:
    print(table)
