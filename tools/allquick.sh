#!/bin/bash
cd /verif
for i in $(seq -w 1 20); do python3 run_check.py C$i --tier quick 2>&1 | grep -E "VIOLATION|KNOWN-FINDING|quick:" ; done
