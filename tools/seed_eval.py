#!/usr/bin/env python3
"""Self-test of the machinery with a seeded change: copies <src dir> (patch.diff, demonstration, meta.json)
to seeded/<id>/<name>/, applies the patch to /repo, runs the quick check(s), restores /repo and the
evidence files, and records which checks reported a violation in seeded/<id>/<name>/result.json.

  seed_eval.py C05 /tmp/seed_C05/_seed_out/m1 [--checks C05,C04] [--name m1]"""
import json
import os
import shutil
import subprocess
import sys

V = os.path.dirname(os.path.dirname(os.path.abspath(__file__)))


def sh(cmd, **kw):
    return subprocess.run(cmd, stdout=subprocess.PIPE, stderr=subprocess.STDOUT, text=True, **kw)


def main():
    import signal
    signal.signal(signal.SIGTERM, lambda *a: sys.exit(3))   # so that `finally` restores /repo
    pid, src = sys.argv[1], sys.argv[2].rstrip("/")
    checks = [pid]
    name = os.path.basename(src)
    for i, a in enumerate(sys.argv):
        if a == "--checks":
            checks = sys.argv[i + 1].split(",")
        if a == "--name":
            name = sys.argv[i + 1]
    dst = os.path.join(V, "seeded", pid, name)
    if os.path.abspath(src) != os.path.abspath(dst):
        if os.path.exists(dst):
            shutil.rmtree(dst)
        shutil.copytree(src, dst)
    patch = os.path.join(dst, "patch.diff")
    st = sh(["git", "-C", "/repo", "status", "--porcelain"]).stdout.strip()
    if st:
        print("refusing: /repo is not clean:\n" + st)
        return 2
    r = sh(["git", "-C", "/repo", "apply", patch])
    if r.returncode != 0:
        print("patch does not apply:", r.stdout)
        return 2
    saved = {}
    for c in checks:
        p = os.path.join(V, "evidence", c + ".json")
        if os.path.exists(p):
            saved[p] = open(p).read()
    results = {}
    try:
        for c in checks:
            try:
                out = sh([sys.executable, os.path.join(V, "run_check.py"), c], cwd=V, timeout=3000)
            except subprocess.TimeoutExpired:
                results[c] = {"exit": "timeout", "violations": 0, "signatures": [], "last_line": "check did not finish within 3000 s"}
                print(c, "TIMEOUT")
                continue
            lines = out.stdout.strip().split("\n")
            viol = [l for l in lines if l.startswith("VIOLATION")]
            sigs = []
            for l in viol[:6]:
                rp = l.split("replay=")[1].split()[0]
                try:
                    sigs.append(json.load(open(rp))["signature"][:120] + (" [no-failing-input-found]" if l.endswith("no-failing-input-found") else ""))
                except Exception:
                    pass
            results[c] = {"exit": out.returncode, "violations": len(viol), "signatures": sigs, "last_line": lines[-1] if lines else ""}
            print(c, "exit", out.returncode, "violations", len(viol), sigs[:3])
    finally:
        sh(["git", "-C", "/repo", "checkout", "--", "."])
        sh(["git", "-C", V, "checkout", "--", "lean/Circomspect/Gen"])   # tables regenerated from the mutated code
        for p, t in saved.items():
            open(p, "w").write(t)
        shutil.rmtree(os.path.join(V, "replays"), ignore_errors=True)
    caught = [c for c, r in results.items() if r["exit"] not in (0, "timeout")]
    json.dump({"property": pid, "mutation": name, "checks_run": checks, "caught_by": caught, "results": results},
              open(os.path.join(dst, "result.json"), "w"), indent=1)
    print("CAUGHT by", caught if caught else "NOTHING")
    return 0


if __name__ == "__main__":
    sys.exit(main())
