#!/usr/bin/env python3
"""Prints the 'as built' tables of DESIGN.md section 9 from the repository state: theorems per
property (names from lean/Circomspect/Props), fix commits of /repo, known findings."""
import json
import os
import re
import subprocess

V = os.path.dirname(os.path.dirname(os.path.abspath(__file__)))
man = json.load(open(os.path.join(V, "MANIFEST.json")))
kf = json.load(open(os.path.join(V, "known_findings.json")))
kf = kf["findings"] if isinstance(kf, dict) else kf
print("### 9.1 Theorems per property (names as in `lean/Circomspect/Props/Cxx.lean`; all `#print axioms` ⊆ {propext, Classical.choice, Quot.sound})\n")
print("| id | level | theorems |")
print("|----|-------|----------|")
for i in range(1, 21):
    pid = "C%02d" % i
    f = os.path.join(V, "lean", "Circomspect", "Props", pid + ".lean")
    names = re.findall(r"^theorem\s+(\w+)", open(f).read(), re.M) if os.path.exists(f) else []
    print("| %s | proof | %s |" % (pid, ", ".join("`%s`" % n for n in names)))
print("\n### 9.2 Defects found and their disposition\n")
print("| property | status | commit | what failed |")
print("|----------|--------|--------|-------------|")
for f in kf:
    d = f["description"]
    d = re.sub(r"^fixed: property=\w+ \w+ ", "", d)
    print("| %s | %s | %s | %s |" % (f["property"], f["status"], f.get("commit", "—"), d.replace("|", "\\|")[:400]))
