#!/bin/bash
cd /verif
for i in $(seq -w 1 20); do python3 run_check.py C$i --tier thorough 2>&1 | grep -E "VIOLATION|thorough:" | cut -c1-220 ; done
