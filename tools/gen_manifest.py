#!/usr/bin/env python3
"""Writes MANIFEST.json from the table below (kept in one place so it is always valid)."""
import json, os
V = os.path.dirname(os.path.dirname(os.path.abspath(__file__)))
CLAIMS = {}
def claim(pid, category, text, note, technique, design_ref):
    CLAIMS[pid] = dict(category=category, text=text, note=note, technique=technique, design_ref=design_ref)

claim("C16", "proof",
      "Lean 4 theorems (Props/C16.lean) prove, for every modulus p > 2 and all natural operands, that the model of "
      "modular_arithmetic.rs returns exactly the value Circom's documented semantics defines for all 23 operators, errors on "
      "division/remainder by zero and over-large shifts, never panics, never recurses without bound and never builds 2^k for "
      "k >= bits(p). The model is tied to the Rust code on every run by an exhaustive differential run over small prime fields "
      "plus boundary/random operands for the three primes read from the code.",
      "Lean kernel + standard axioms; the model of num-bigint-dig primitives (%, /, to_radix_le, modpow, mod_inverse) is trusted "
      "and exercised only by the correspondence run; correspondence is exhaustive for small fields, sampled for the 254/255/64-bit primes.",
      "Lean 4 proof (model = spec for all operands) + model/implementation correspondence", "5 (C16)")

claim("C05", "proof",
      "Lean 4 theorems (Props/C05.lean) prove for every character sequence that the model of parser_logic::preprocess equals a "
      "reference lexer written from the property text, that block comments end at the first following '*/' and line comments at the "
      "next newline whatever they contain, that an unclosed block comment is an error at its opener, and that the blanked text "
      "contains no comments (idempotence). Tie: the real stripper (verif hook) vs model and reference on all strings up to length 6/8 "
      "over a 7-letter alphabet plus random fragments; findings of generated programs compared plain / with comments of 16 shapes "
      "spliced between tokens / with those comments blanked.",
      "Lean kernel + standard axioms; correspondence exhaustive for short strings, sampled beyond; LALRPOP lexer downstream is exercised only.",
      "Lean 4 proof (stripper refines reference lexer) + exhaustive short-string correspondence", "5 (C05)")
claim("C04", "proof",
      "Lean 4 theorems (Props/C04.lean) prove for all inputs that the stripped text is byte-aligned with the source (same length, "
      "every character copied or replaced by as many blanks as it has bytes, prefix offsets equal), so positions computed by the "
      "parser on the stripped text are valid byte positions and character boundaries of the original file; and that desugaring only copies "
      "locations (C04_desugar_locations: every source range on a node of a desugared template is the range of a node of the template as written, "
      "for all templates and template tables — 1 000 lines of structural induction over the desugaring model of C18, which is compared with the real "
      "desugarer node by node, locations included), so findings about synthesised statements sit at constructs of the source. The remaining clauses "
      "(labels of later stages are in range, on boundaries and cover the construct named in the message) are checked by a label audit "
      "of every report on generated multi-byte/CRLF/commented files, and the line:column printed by the real binary and every SARIF region "
      "(primary and related locations) are compared with positions recomputed from the original bytes: that part is exploration, stated "
      "as partial in the evidence. The label audit also requires that an end-of-file error is labelled at the end of the file and that a LessThan finding is labelled at the LessThan input (fixes 96668b8, 2e3b320, found by an audit).",
      "Lean kernel + standard axioms for the stripper and the desugaring part; LALRPOP @L/@R, the metadata flow of IR lifting and codespan rendering are exercised, not proved.",
      "Lean 4 proof (offset preservation; desugaring copies locations) + label audit on the real pipeline", "5 (C04)")

claim("C11", "proof",
      "The two BN254-specific template tables, the documented table, the three prime literals, the accepted curve names and the defaults "
      "are re-extracted from /repo's source on every run into Gen/Tables.lean; Lean then proves (Props/C11.lean), for every template name "
      "and curve, flagged = documented (with Circomlib's spelling), never under BN254; primes equal the independently stated constants with "
      "bit sizes 254/255/64; for all n the Num2Bits/Bits2Num guard is 'constant and < 254'; for all k and each curve the LessThan range "
      "check holds iff 2^k - 1 <= p/2; a spelling is accepted iff its ASCII upper-casing is one of the three names. The hand-modelled "
      "guards are tied to the real passes on every (curve, name) incl. near-misses, all sizes 0..300 and non-constant sizes, and ~300 "
      "spellings incl. non-ASCII look-alikes (in-process and through clap). Round 3: a range-check component instantiated in two ways must not count as a range check unless every instantiation qualifies (fix b3b1ebe); eight shapes in which the input does not feed the qualifying Num2Bits it seems to (an element of a component array addressed by the loop variable after the loop, another template on one branch, both inputs given as one array; fix ee9259e), and the pass itself is modelled (Model/LessThanPass.lean: C11_lessthan_reported, C11_lessthan_component, C11_lessthan_examined, C11_lessthan_candidates; all instantiations of a component are kept since fix 8d32e7f; the model's reports = the real pass's on 54 CFGs per run); the instantiation of the main component is analysed since fix 1121aa8: 120 main components x 3 curves through the real binary against the table, the threshold and Curve.instReports (C11_every_instantiation).",
      "Lean kernel + standard axioms; the regex translator and the harness are trusted; clap is exercised only.",
      "Lean 4 proof over tables regenerated from source + complete finite correspondence of the guards", "5 (C11)")

claim("C03", "proof",
      "Lean 4 theorems (Props/C03.lean) about the model of AnalysisRunner, the writers' filters, CachedStdoutWriter, SarifWriter and "
      "main's exit logic, for every project, every duplicate-free analysis order (hash order) and every option set: offered reports = "
      "parser reports followed per definition by its CFG-generation and pass reports, each exactly once and independent of who looked "
      "the definition up first; displayed = offered filtered by (level >= --level, id not allowed, not located solely in an included "
      "file); exit 0 iff nothing displayed; summary count = number displayed; SARIF = displayed. Tie: the real runner in-process "
      "(conservation measured directly against per-definition isolated runs; model batches = real batches) and the real binary over "
      "the option lattice (exit, summary, printed diagnostics, SARIF incl. line/column recomputed from the original bytes). Reports about the version pragma of an only-included file are expected to be hidden (they are located in that file since fix 9e258e5); SARIF URIs are decoded and compared with the paths that were read, for file names with quotes, spaces, '#' and '%' (fix 31f6e86).",
      "Lean kernel + standard axioms; the model abstracts CFG generation and the passes as arbitrary functions (that is the quantifier); "
      "codespan rendering and serde-sarif are exercised, not modelled; correspondence is sampled over generated projects.",
      "Lean 4 proof (state-machine invariant + refinement to a flatMap spec) + differential runs over the option lattice", "5 (C03/C02/C17)")
claim("C02", "proof",
      "Lean 4 theorems (Props/C02.lean) on the same report-flow model: a definition whose CFG generation fails, or an error report from "
      "the parser, yields a displayed error-level report and exit status 1 in every analysis order (given --level <= error and the id not "
      "allowed); exit 0 with nothing allowed implies every definition lifted and had its batch handed to the writer. The hypotheses (each "
      "failure door hands over a visible error report) are checked on the real pipeline. Tie: failure injection of every class (missing / "
      "undecodable / dangling / extension-less file, bad pragma, lexical and syntactic error at token positions, unterminated comment, "
      "truncation, parameter collision, tuple/anonymous-component misuse, read-before-assignment, several mains) into clean generated "
      "projects, observed on the real binary at default level and --level error. Further classes since round 3: existing files named without the extension .circom (fix 4631743), library templates misused by a named file, function/template name clashes.",
      "Lean kernel + standard axioms; parser-level failure classes are covered by the injection runs, not by a model of the LALRPOP parser.",
      "Lean 4 proof on the report-flow model + failure injection on the real binary", "5 (C03/C02/C17)")
claim("C17", "proof",
      "Lean 4 theorems (Props/C17.lean): for any two duplicate-free analysis orders that are permutations of each other the displayed "
      "findings are permutations of each other (same multiset), exit status and summary agree, and the batch of a definition is a function "
      "of that definition alone (so adding/removing/reordering other definitions cannot change it). This proves the 'all hash-map iteration "
      "orders' quantifier for the runner; hash order inside passes/SSA/TemplateLibrary is only sampled (partial): every project is run in "
      "many separate processes (fresh hasher state), with definitions permuted, input files in both orders and unrelated definitions added. Round 3: hand-written projects of several files are run in both argument orders with the file of every label compared (fix c7e33f0: the files are read in the order of their paths; an unreadable included file is reported at every include statement); a project with templates the desugaring rejects next to templates that use them; the SSA conversion is proved independent of hash order (C17_ssa_hash_order, C17_ssa_phi_order).",
      "Lean kernel + standard axioms; per-definition determinism of lifting, SSA and the passes is exercised by repeated runs, not proved.",
      "Lean 4 proof (permutation invariance of the runner) + repeated/permuted process runs", "5 (C17)")

claim("C15", "proof",
      "Lean 4 theorems (Props/C15.lean), for every rooted digraph of any size: the fixpoint loop of compute_dominators terminates within "
      "n*n+1 passes and its result is exactly the path-based dominator relation; the immediate dominator computed from it is the unique "
      "closest strict dominator (entry: none), for every iteration order of the candidate hash set, and neither assert! can fire; children "
      "invert it; the frontier walk computes exactly {i | k dominates a predecessor of i and does not strictly dominate i}. Proof ingredients: "
      "soundness/pre-fixpoint invariants of the chaotic iteration, a decreasing measure, sub-path/splice lemmas, antisymmetry and the chain "
      "property of dominators. Tie: the public generic DominatorTree::new on all rooted digraphs up to 4 (quick) / 5 (thorough) nodes plus "
      "random graphs with irreducible loops, against the path definitions evaluated independently and against the Lean model.",
      "Lean kernel + standard axioms (Classical.choice via by_contra in the chain lemma); std HashSet is modelled as a characteristic function; "
      "correspondence exhaustive for small graphs, sampled beyond.",
      "Lean 4 proof (algorithm = path definitions for all rooted digraphs) + exhaustive small-graph correspondence", "5 (C15)")

claim("C12", "proof",
      "Lean 4 theorems (Props/C12.lean), by mutual structural induction over every statement tree, about the model of visit_statement / "
      "complete_basic_block: the lifted CFG has an entry block without predecessors, mirrored and in-range successor/predecessor sets, a "
      "smaller-indexed predecessor for every other block, hence every block is reachable, 'i dominates j' implies i <= j, and the graph is "
      "Rooted so that all of C15 applies to it (the DominatorTree asserts cannot fire); a branch is only ever the last statement of its "
      "block (C12_branch_last), its targets are existing blocks among the successors and no block has more than two successors, one without a "
      "branch (C12_branch_targets, C12_successors: every block is in one of five classes), and the recorded depth of a block is the source loop "
      "nesting depth of every statement in it (C12_loop_depth). Every clause of C12 is thus a theorem about the lifting model; the executable "
      "predicate CfgSpec.wfProblems (all clauses, dominance from the verified C15 computation) is evaluated on every real CFG before "
      "and after SSA. Tie: the model run on the real AST reproduces the real CFG block for block on hand-written nesting patterns and "
      "generated definitions.",
      "Lean kernel + standard axioms; statements are abstracted to skeletons (non-control statements are opaque); the parser's expansion of "
      "for-loops/compound assignments and try_lift of expressions are outside the model; correspondence is sampled.",
      "Lean 4 proof (invariant by mutual induction) + model/CFG equality + executable well-formedness predicate per instance", "5 (C12)")

claim("C13", "proof",
      "Lean 4 theorem (Props/C13.lean, mutual structural induction over every statement tree): statement conservation in program order "
      "— the statements of the lifted blocks concatenated in index order are exactly the source statements in pre-order, one branch "
      "statement per if/while; nothing lost, duplicated or reordered. Trace inclusion (C13_trace_inclusion, Lemmas/TracePaths.lean, mutual "
      "induction over every statement tree with an inner induction on the loop fuel): for every program, every set of return locations and "
      "every sequence of branch/loop decisions, the statements the source executes up to its first return are a prefix of the graph walk under "
      "the same decisions (C13_trace: with the concrete budget of the executable walk, which is shown to suffice); the proof shows that paths are stable under all later construction steps "
      "and that pending exits reach the block they get connected to. Tie to the code: both "
      "executable semantics (source execution ending at the first return; graph walk taking the recorded false target or the other successor) "
      "are evaluated on every real AST/CFG pair (pre-SSA and SSA) under all 2^k decision sequences, the model CFG is compared with the real one "
      "(C12), and the parser's for/compound-assignment expansions are compared with hand expansions.",
      "Lean kernel + standard axioms; the theorem is about the model of lifting (tied by CFG equality in C12); statements are "
      "identified by source range, kind and declared/assigned name.",
      "Lean 4 proof (conservation in order; trace inclusion for all programs and decision sequences) + exhaustive bounded trace comparison on real CFGs", "5 (C13)")

claim("C10", "proof",
      "Lean 4 theorems (Props/C10.lean) for every well-nested event sequence (any nesting of blocks, any redeclaration pattern, any "
      "parameter list): the model of ensure_unique_variables (declaration / scoped-version / global-version environments) produces exactly "
      "the output of lexical resolution with consistent naming — each use gets the suffix of the innermost preceding declaration, parameters "
      "outermost, and a shadowing report is produced for exactly the declarations that redeclare a visible name with the shadowed "
      "declaration attached (refinement proved through the invariant 'scoped versions = the versioned entries of the declaration stack'); "
      "suffixes are injective on declarations of a name; the SSA version key (after the fix) is injective on (name, suffix), with the old "
      "key's collision kept as a counterexample theorem. Tie: every variable occurrence of generated definitions with heavy shadowing and "
      "x / x_0 look-alikes: real (name, suffix) in the pre-SSA CFG vs the Lean model on the real AST (L2) and vs lexical resolution "
      "(same key iff same declaration, L1); CS0001/CS0002 of the real pipeline incl. primary/secondary locations. A further stage checks that the findings of a definition do not depend on whether two declarations in non-overlapping scopes share a spelling (defect e04130d found by an audit).",
      "Lean kernel + standard axioms; the flattening of the AST into the event sequence (traversal order of unique_vars.rs) lives in the "
      "driver and is validated only by the correspondence; correspondence is sampled.",
      "Lean 4 proof (refinement of the renamer to lexical resolution) + per-occurrence correspondence", "5 (C10)")

claim("C14", "proof",
      "Lean 4 theorems (Props/C14.lean). (1) A verified certificate checker: if the local check of an SSA CFG passes (edge conditions against a "
      "per-block entry map, reads evaluated in the running map, phis as a prefix), then for EVERY path from the entry, of any length, every read "
      "of every non-phi statement names the version most recently assigned on that path (an element-wise update of a declared but unassigned "
      "array reads the version defined by its declaration), and every version reaching a join on some path is an argument of the phi. (2) The "
      "construction, declaratively (Model/SsaBuild.lean: the work list of insert_phi_statements, and the renaming with the version map at the entry "
      "of a block being the map at the end of its immediate dominator, numbering as a parameter) passes that check for every rooted CFG and every "
      "numbering (C14_construction; the join condition without phi by the dominance-frontier argument over C15). (3) The construction as the code "
      "runs it (Model/SsaWalk.lean: pre-order walk over the dominator tree with children in index order, global version counters, scoped map handed "
      "down, phi arguments pushed at the end of each block) refines (2) with the numbering its own counters produce, up to the order of phi "
      "arguments (SsaWalk.run_build), so its output meets the certificate conditions and has the path property for every rooted CFG with consistent "
      "edge lists (C14_walk, C14_walk_paths); every versioned local has at most one defining statement and no statement redefines version 0 of a "
      "parameter (C14_walk_unique_defs: the counters never hand out a (variable, version) twice, with no assumption; every site is numbered once "
      "because the walk is over a tree); the recursion never exceeds n+1 levels and the phi work list ends within n + 2n|V| iterations. Tie to the "
      "code: the walk model run on the real CFG before SSA conversion must produce the real SSA dump, version numbers included (phi statements and "
      "arguments as sets), or fail exactly when the real conversion fails; the declarative model fed with the real numbers must rebuild the dump "
      "too; every real SSA dump goes through the verified checker plus the static clauses (unique definitions, phis at block heads, "
      "signals/components unversioned and locals versioned, every version declared, non-phi statements equal to the pre-SSA ones); the hypotheses "
      "of the theorems (rooted graph, idom with smaller index, consistent edge lists, distinct parameters) are evaluated on every real CFG.",
      "Lean kernel + standard axioms; abstraction of the dumps into (target, reads, element-wise update) per statement is driver code; the stack of "
      "scopes of the environment is modelled by handing the map down to the children; correspondence is sampled.",
      "Lean 4 proof (checker soundness for all paths; the operational walk refines the declarative construction, which passes the checker for every CFG; unique definitions) + exact reproduction of real SSA dumps by the walk model", "5 (C14)")

claim("C07", "proof",
      "The graphs of the real Degree and DegreeRange functions (20 infix, 3 prefix operators on all operand degrees and all well-formed ranges, "
      "inf, the is_* predicates) are regenerated by executing the code on every run (Gen/ImplTables.lean). Lean proves over them (Props/C07.lean, "
      "decide +kernel over the whole finite domain — complete, not sampled): the hand model used by the propagation model equals the code; "
      "the code's degree equals the degree of Circom's expression algebra for every operator and operand degrees (so ~x and !x of a "
      "non-constant x are non-quadratic); the tables are monotone, hence range lifting is sound: true degrees below the operand upper ends give "
      "an algebra degree below the result's upper end; joins keep upper bounds. Expression level (C07_expr_sound, mutual induction over all "
      "expression forms): for every expression, abstract environment and degree assignment it bounds, every range propagate_degrees writes "
      "on any node bounds that node's degree in the algebra (operators, constant-condition switches, constant calls, inline arrays, array "
      "accesses/updates with constant, non-constant or unknown indices incl. the first-assignment rule, phi). Path level (C07_path_sound, "
      "C07_assignment_rhs; Lemmas/PathDegrees.lean): for every SSA CFG meeting the decidable hypothesis WfD, every budget of passes and every degree "
      "state any execution can reach (signals/components degree 1, parameters constants, any substitution to a local executed in any order any number "
      "of times), every range on every node of the CFG returned by the loop bounds the node's degree; the proof carries the block-order invariant the "
      "first-assignment rule relies on. WfD is evaluated on every real dump by the proved-sound Boolean wfDB. Tie to the code: (L2) node-by-node "
      "equality of real degree annotations with the Lean propagation model and (L1) an independent least-fixpoint analysis of the algebra over the "
      "same SSA CFG (every claim must be >= the fixpoint; CS0013 never more often than right-hand sides the fixpoint accepts), and (L1b) the "
      "claim read as a statement about polynomials, tested directly: with every signal and port a free indeterminate and the parameters fixed, "
      "the (d+1)-th finite difference of a node claimed to have degree <= d vanishes along random lines. The theorems speak about one execution "
      "at a time (a phi has the degree of one argument); the reading across executions failed in the code for values that depend on a signal "
      "through control flow (F-C07-control-dependence, found by an audit sub-agent, detected by L1b, repaired in e6fbe4d: a phi expression has a "
      "degree only when the if statements between the immediate dominator of its block and the block have constant conditions; mirrored in the model: "
      "Block.conds, C07_conditional_join, C07_join_flag, C07_control_dependence_repaired). The algebra is the "
      "compiler's table (quadratic +/- quadratic = non-quadratic; defect F-C07-sum-of-products repaired in cf338f0).",
      "Lean kernel + standard axioms; the harness that executes the real functions; the algebra-to-MvPolynomial link is not formalised "
      "(the finite-difference oracle stands in for it as a search tool).",
      "Lean 4 proof over tables regenerated from the running code (operator, expression and path level) + annotation correspondence + fixpoint and finite-difference oracles", "5 (C07)")

claim("C06", "proof",
      "Lean 4 theorems (Props/C06.lean, corollaries of C16): for every prime p > 2 and all operands the operator transfer of value "
      "propagation yields exactly the field element / truth value Circom defines (arithmetic, bitwise, comparisons on signed "
      "representatives, boolean connectives, negation, 256-bit complement), yields a value for the partial operators (/, \\, %, <<, >>) only "
      "where the specification defines one and then that value, and never claims anything from an unknown operand. Expression and statement "
      "level: for every expression, abstract environment and concrete environment agreeing with it, every claim propagate_values writes on "
      "any node is the value that node has (C06_expr_sound, mutual induction over all expression forms incl. the short-circuit flags), "
      "propagation changes annotations only, and a substitution keeps the environment in agreement incl. add_variable's non-constant rule "
      "(C06_stmt_sound). Path level (C06_path_sound, C06_branch_condition; Lemmas/PathValues.lean): for every SSA CFG in which no two claim-carrying "
      "substitutions assign the same variable (SingleDef, decidable, evaluated on every real dump: unique definitions for versioned locals; for signals "
      "and components it holds by construction since the pre-pass marks every unversioned variable assigned by two statements as not constant, "
      "C06_unversioned_marked — the model of the repair of the defect found in round 3), every prime, every budget of passes and every state any execution can "
      "reach (any order and number of executions of the substitutions, a phi taking any one of its arguments, calls/arrays evaluating to anything, "
      "unassigned variables holding anything), every claim on every node of the CFG returned by the loop is right; the semantic assumption on phi "
      "(PhiComplete) is part of the step relation. Tie to the code per run: (L2) node-by-node equality of the real value annotations with the Lean "
      "operational propagation model for each of the three primes and (L1) a reference interpreter executing both the SSA CFG and the CFG before SSA "
      "conversion under the same random valuations (every value an annotated node takes must be the claimed constant; invalid executions — division by "
      "zero, failed assert, signal assigned twice — carry no obligation). F-C06-phi was repaired (2fdaae7): a recurrence is a violation.",
      "Lean kernel + standard axioms; the interpreter is a Python search oracle; literals >= p are outside the property's range and skipped.",
      "Lean 4 proof (operator transfer = field semantics; expression, statement and path-level soundness) + annotation correspondence + reference-interpreter oracle", "5 (C06)")
claim("C20", "proof",
      "Lean 4 theorems (Props/C20.lean) on the operational propagation model, whose pass budget is the point at which the time box fires: the "
      "loops are total for every budget, the zero budget leaves the CFG un-annotated, and once a pass changes nothing every larger budget "
      "(in particular the untimed run) returns exactly the same annotated blocks, so the early-stop states are the prefixes of one "
      "deterministic sequence; and every prefix state satisfies C06 and C07: C20_value_prefix_sound / C20_degree_prefix_sound state the path-level "
      "soundness theorems for every budget k (the invariant is kept by every single statement visit). Tie to the code per run with the verif "
      "pass-budget hook: for every definition and every budget k up to the fixpoint, values and degrees independently, real annotations after k "
      "passes = model (L2); each prefix state passes the C06 interpreter oracle and the C07 least-fixpoint oracle (the sweep continues over all budgets "
      "after a correspondence break, to find the concrete false claim), and claims are monotone in k on a fixed statement order (L1).",
      "Lean kernel + standard axioms; the wall-clock trigger is replaced by a deterministic pass budget (hook); the model is tied to the code by "
      "correspondence (sampled).",
      "Lean 4 proof (prefix structure of the loops; path-level soundness for every budget) + prefix-by-prefix correspondence under a pass-budget hook + oracles", "5 (C20)")

claim("C08", "proof",
      "Lean 4 theorems (Props/C08.lean) on the model of find_signal_assignments over abstracted statement lists: exactly one report per "
      "`<--` statement, anchored at it and in statement order (bijection), of exactly one of the two kinds decided by the degree fact; the "
      "secondary locations of a `signal assignment` report are exactly the constraints that mention the assigned signal: read it, or assign it with `<==`, with an access that may denote the same signal (mayAlias: equal ports, indices identified unless known to differ, array vs element; reflexive, symmetric, prefix-closed; every constraint with an equal access is listed; fix 8573db1/a911234 — before it accesses had to be equal); "
      "nothing for functions/custom templates; nothing anchored at any other statement. The model is tied to the code per run: every real "
      "CFG is abstracted from the harness dump and model reports = real CS0005/CS0013 reports (L2); independently an oracle counts `<--` "
      "tokens/statements in the generated source (incl. tuple elements, anonymous-component inputs, loops, branches) and demands one report "
      "per occurrence with the expected secondaries (L1, may-alias on the source text; shapes: `<--`/`<==` to one signal or port on two branches, a whole array assigned at once, elements assigned in one loop and constrained in another).",
      "Lean kernel + standard axioms; the abstraction CFG -> statement list (harness dump + checks/c08.py) and lifting/desugaring are "
      "covered by correspondence, not proved; the nodup hypothesis of the bijection theorem is evaluated on every CFG.",
      "Lean 4 proof (bijection / kinds / secondaries on the pass model) + per-CFG correspondence + source-level counting oracle", "5 (C08)")

claim("C19", "proof",
      "Lean 4 theorems (Props/C19.lean) on the model of FileStack + the parse_files loop over an abstract file system in which a file is its "
      "canonical path: for every include graph, named-file list and library list, n+1 iterations empty the stack and more iterations change "
      "nothing (termination incl. cycles and self-includes); no file is handed to the parser twice (for every number of iterations); the files "
      "read are exactly those reachable through resolvable includes; resolution = relative to the including file, else first matching library "
      "in command-line order; the error list = the unresolved includes of the files read, each with its file and position; a file is a user "
      "input iff its canonical path was named, and every named file is read. Tie per run: generated directory trees (6 directories, file and "
      "directory symlinks, 8 spellings, cycles, unparsable/unreadable files, directory and single-file libraries) are abstracted by an "
      "independent resolver; order of reads, user flags and ordered located errors of the real parse_files = model (L2); reachability oracle, "
      "no duplicate, error located exactly at the include statement, only named files' definitions analysed and displayed, binary exit 0/1 (L1). After the round-3 repairs (345938e, fbd2e79, 6f927a8): every written path is looked up in the -L directories, a library file is matched by the name it was given, an unreadable included file is reported at the include statement, and named directories with symbolic links back into the tree are read once (a stage through the real binary under a time limit); the resolution oracle states the property literally instead of copying the code's exception for dotted paths. Each file is read once also at the level of system calls: the open/openat calls of the real binary under strace on five include layouts (fix 0fa1b2d).",
      "Lean kernel + standard axioms; the OS (canonicalize, is_dir, read_to_string) is abstracted into the tables computed by "
      "checks/c19.py with Python's realpath/isfile; directory inputs (read_dir order) are not generated.",
      "Lean 4 proof (invariant + termination measure for the include work list) + correspondence on materialised trees + reachability oracle", "5 (C19)")

claim("C18", "proof",
      "Lean 4 theorems (Props/C18.lean) on the model of syntax_sugar_remover.rs + the ContainsExpression trait, for every AST / template "
      "table / loop context: the traversal behind all position checks is complete; a template that survives remove_syntactic_sugar contains "
      "no tuple, no anonymous component and no multi-substitution anywhere (proved through every statement kind and expression position — "
      "the proof attempt is what located the unchecked assert / log-expression / left-hand-index / function-assignment positions, now fixed); "
      "a function is kept iff it is free of them; a tuple assignment = the element-wise assignments of the flattened sides in order skipping "
      "`_`; an anonymous component = declaration + initialisation + one input assignment per input in declaration order (positional, or by "
      "name with the written operator) and its value = its outputs in declaration order. Tie per run: for generated definitions with sugar "
      "in 28 positions x 5 sugar kinds, valid forms (nesting, named inputs in any order, loops, branches, parallel) and arity/name errors, "
      "model(pre-desugar AST) = real post-desugar AST node for node incl. ranges, or model error = real report (message, range) (L2); no "
      "sugar node survives in any definition, dropped definitions carry a located error, no panic in the whole pipeline, findings of a "
      "sugared template = findings of its hand-written expansion (L1).",
      "Lean kernel + standard axioms; the grammar (which builds the AST) and IR lifting are outside the model and covered by correspondence "
      "and the no-panic oracle; PARTIAL: the equality of findings with the hand-written expansion is decided per generated pair, not proved; "
      "the finding about the generated loop counter (extra CS0004/CS0008) is repaired (fe62dce: the passes skip the counters the desugarer invents).",
      "Lean 4 proof (completeness of both removal passes, tuple semantics, component expansion shape) + node-for-node correspondence + expansion oracle", "5 (C18)")

claim("C09", "proof",
      "Lean 4 theorems (Props/C09.lean) on Model/Taint.lean = the analysis (taint/constraint steps, closure loop, sink set, classification of "
      "side_effect_analysis.rs over the facts of the SSA CFG) + a machine whose events are the property's effects. For EVERY program (any CFG, "
      "loops included), every step count, every claimed variable x, every oracle supplying a fresh replacement value at each execution of an "
      "assignment to x, and initial environments that differ only inside x's influence (covers claimed parameters): the event traces (values "
      "written to input/output signals, constraints mentioning them, assert/return values, dimensions, branch decisions) of the original and "
      "the perturbed run are equal (lock-step simulation); multi_step_taint = reachability; the sink set covers every observed read; a claimed "
      "variable reaches no sink; `unread` means no statement reads it. Tie per run: facts, taint map, constraint map and CS0006/7/8 claims "
      "of the real passes = model on the same CFG, facts well formed (L2); read/written sets of every statement = an independent derivation "
      "from the IR tree, and every real claim is perturbed in a reference interpreter under random valuations (L1). The machine counts a constraint as an effect when one of its variables is in a set `mention` (any variables that an input/output signal flows into: those whose symbolic value mentions such a signal); with the sink rule before fix 3d6521e the cover lemma is false for a constraint on a single name (defect found by an audit). The oracle tracks the signals a local's symbolic value is built from. The closures the real passes return are compared with reachability in the real single-step maps.",
      "Lean kernel + standard axioms; the semantic functions of the machine's instructions depend only on the declared reads — that the real "
      "read/written sets are complete is checked per statement (L1), not proved; the closure loops are the work lists of repair 7abcad3, proved to stop within "
      "(edges + start entries + 1) iterations and to return what the loop before the repair returned; the regions of conditions are recomputed by "
      "Model/CfgReach.lean from the edges of the CFG and compared with the real ones (CFGs of <= 24 blocks), soundness does not depend on them; function calls / component outputs are not executed by the oracle.",
      "Lean 4 proof (lock-step non-interference for all programs and replacements; closure = reachability; sink coverage) + correspondence + perturbation oracle", "5 (C09)")

claim("C01", "proof",
      "PARTIAL by nature (stated in DESIGN.md): totality of the real process cannot be a theorem about a model alone. Lean 4 theorems "
      "(Props/C01.lean, plus the cited theorems of C10/C15/C16/C18/C19) discharge the panic sites of the modelled code: the three "
      "`unreachable!()`s of the desugarer and the two `panic!`s of IR lifting are unreachable, the dominator-tree asserts and the duplicate-"
      "declaration assert cannot fire, the fixpoint loops that are modelled terminate. Tie 1 (translator-like): tools/panic_scan.py extracts "
      "every unwrap/expect/panic!/unreachable!/assert*!/todo!/unimplemented! of the non-test code (129 sites) on every run and compares the "
      "set with ledger/panic_sites.json, where each site is proved (theorem must exist) / guarded / invariant / environment / dead-api (re-"
      "checked: not called from another file) / test-only; a new, moved or reworded site is an undischarged obligation. Tie 2 (outcome search): "
      "the whole pipeline in-process and the real binary on special inputs (odd literals, pragmas, strings, arities, main forms), 14 nesting "
      "shapes up to depth 100, generated projects with token- and byte-level mutations, token soup, random and non-UTF-8 bytes, 3 curves x 3 "
      "levels: only a normal return / exit 0 or 1 with the summary line within the time limit is accepted; crashes are grouped by site and "
      "shrunk. The outcome search runs the code under an 8 GB address-space limit and includes nested-index shapes (fix 661c0c6: exponential growth of cached variable uses). Tie 3 (proportion): ten wide shapes (hundreds of consecutive ifs / "
      "loops / chained signals, thousands of terms), each alone through the real binary under 40 s and 3 GB (fixes a7712ea, 7abcad3, f14e374).",
      "Lean kernel + standard axioms for the cited theorems; sites with disposition guarded/invariant/environment rest on the stated reason "
      "and on the outcome search, not on a proof; implicit panics (indexing, arithmetic overflow in debug builds, allocation failure, stack "
      "depth beyond the 1 GB thread, superlinear time on nesting deeper than 100) are only searched for.",
      "Lean 4 proofs for modelled panic sites + regenerated panic-site ledger + outcome search (in-process and real binary)", "5 (C01)")

ALL = ["C%02d" % i for i in range(1, 21)]
def main():
    checks = []
    for pid in ALL:
        if pid not in CLAIMS: continue
        c = CLAIMS[pid]
        checks.append({
            "property_id": pid,
            "quick_cmd": "python3 run_check.py %s --tier quick" % pid,
            "thorough_cmd": "python3 run_check.py %s --tier thorough" % pid,
            "evidence_file": "/verif/evidence/%s.json" % pid,
            "replay_cmd_template": "python3 run_check.py %s --replay {path}" % pid,
            "engine": "lean4-proof+correspondence",
            "level_claimed": {"category": c["category"], "text": c["text"], "design_ref": "DESIGN.md section " + c["design_ref"]},
            "level_note": c["note"],
            "technique": c["technique"],
        })
    na = [{"property_id": p, "reason": "not claimed yet: model, theorems and correspondence for this property are still being built (see DESIGN.md section 7 for the order)"}
          for p in ALL if p not in CLAIMS]
    hooks = json.load(open(os.path.join(V, "tools", "hooks.json")))
    m = {
        "version": 1,
        "setup_cmd": "python3 setup.py",
        "hooks": hooks,
        "engines": [{"name": "lean4-proof+correspondence", "path": "/verif/lean, /verif/harness, /verif/run_check.py",
                     "serves_properties": sorted(CLAIMS), "kind_free_text":
                     "Lean 4 theorems about hand-written/regenerated models; Rust harness drives the real crates; Python diffs model vs implementation and evaluates the spec oracle"}],
        "checks": checks,
        "notes": "All checks rebuild the harness and the CLI from /repo's working tree. Known findings: /verif/known_findings.json.",
        "not_applicable": na,
    }
    json.dump(m, open(os.path.join(V, "MANIFEST.json"), "w"), indent=1)
    print("MANIFEST.json written:", len(checks), "checks")
main()
