#!/usr/bin/env python3
"""Extracts every explicit panic site (unwrap / expect / panic! / unreachable! / assert*! / todo! /
unimplemented!) of the non-test code of /repo's crates, keyed by file, enclosing function, normalised
source text and occurrence number, and compares the set with ledger/panic_sites.json.

  panic_scan.py --list     print the sites
  panic_scan.py --check    JSON summary; exit 1 if a site has no disposition in the ledger (new code,
                           changed text, moved into another function) or a `dead-api` site became reachable

Implicit panics (slice indexing, integer overflow in debug builds, allocation failure, stack
overflow) are not visible to a textual scan; they are only covered by the outcome search of
checks/c01.py."""
import json
import os
import re
import sys

REPO = os.environ.get("VERIF_REPO", "/repo")
VERIF = os.path.dirname(os.path.dirname(os.path.abspath(__file__)))
CRATES = ["cli", "parser", "program_structure", "program_analysis", "circom_algebra"]
PAT = re.compile(r"\.unwrap\(\)|\.expect\(|\bpanic!\s*\(|\bunreachable!\s*\(|\bassert!\s*\(|\bassert_eq!\s*\(|\bassert_ne!\s*\(|"
                 r"\bdebug_assert(?:_eq|_ne)?!\s*\(|\btodo!\s*\(|\bunimplemented!\s*\(|\.unwrap_unchecked\(")


def strip_comments(line):
    # good enough for this code base: no `//` inside string literals on lines with panic sites except URLs in comments
    out, in_str, i = [], False, 0
    while i < len(line):
        c = line[i]
        if c == '"' and (i == 0 or line[i - 1] != "\\"):
            in_str = not in_str
        if not in_str and line.startswith("//", i):
            break
        out.append(c)
        i += 1
    return "".join(out)


def scan():
    sites = []
    for crate in CRATES:
        root = os.path.join(REPO, crate, "src")
        for d, _, files in sorted(os.walk(root)):
            for f in sorted(files):
                if not (f.endswith(".rs") or f.endswith(".lalrpop")):
                    continue
                path = os.path.join(d, f)
                rel = os.path.relpath(path, REPO)
                lines = open(path, encoding="utf-8", errors="replace").read().split("\n")
                # test modules are at the end of the files: stop at `#[cfg(test)]` followed by `mod`
                end = len(lines)
                for i, l in enumerate(lines):
                    if l.strip() == "#[cfg(test)]" and i + 1 < len(lines) and re.match(r"\s*(pub\s+)?mod\s+\w+", lines[i + 1]):
                        end = i
                        break
                fn = "<top>"
                counts = {}
                in_block_comment = False
                for i in range(end):
                    raw = lines[i]
                    if in_block_comment:
                        if "*/" in raw:
                            in_block_comment = False
                        continue
                    if raw.strip().startswith("/*") and "*/" not in raw:
                        in_block_comment = True
                        continue
                    l = strip_comments(raw)
                    m = re.search(r"\bfn\s+(\w+)", l)
                    if m:
                        fn = m.group(1)
                    if f.endswith(".lalrpop"):
                        m2 = re.match(r"\s*(?:pub\s+)?(\w+)\s*(?:<[^>]*>)?\s*:\s*[^=]*=\s*\{?\s*$", l)
                        if m2:
                            fn = "rule " + m2.group(1)
                    for m in PAT.finditer(l):
                        text = re.sub(r"\s+", " ", l.strip())
                        key0 = "%s::%s::%s" % (rel, fn, text)
                        counts[key0] = counts.get(key0, 0) + 1
                        sites.append({"key": "%s#%d" % (key0, counts[key0]), "file": rel, "fn": fn, "line": i + 1, "text": text, "what": m.group(0)})
    return sites


def fn_referenced(fn, own_file):
    """is the function called (`.name(` / `::name(`) from non-test code of another file?"""
    pat = re.compile(r"(?:\.|::)%s\s*(?:::<[^>]*>)?\(" % re.escape(fn))
    for crate in CRATES:
        for d, _, files in os.walk(os.path.join(REPO, crate, "src")):
            for f in files:
                if not (f.endswith(".rs") or f.endswith(".lalrpop")):
                    continue
                path = os.path.join(d, f)
                if os.path.relpath(path, REPO) == own_file:
                    continue
                text = open(path, encoding="utf-8", errors="replace").read()
                cut = text.find("#[cfg(test)]\nmod ")
                if cut >= 0:
                    text = text[:cut]
                for line in text.split("\n"):
                    if pat.search(strip_comments(line)):
                        return True
    return False


_THEOREMS = None


def theorems():
    global _THEOREMS
    if _THEOREMS is None:
        _THEOREMS = set()
        d = os.path.join(VERIF, "lean", "Circomspect", "Props")
        for f in os.listdir(d):
            if f.endswith(".lean"):
                _THEOREMS |= set(re.findall(r"^theorem\s+(\w+)", open(os.path.join(d, f)).read(), re.M))
    return _THEOREMS


def main():
    sites = scan()
    if "--list" in sys.argv:
        for s in sites:
            print("%s:%d [%s] %s" % (s["file"], s["line"], s["fn"], s["text"]))
        print(len(sites), "sites")
        return 0
    ledger_path = os.path.join(VERIF, "ledger", "panic_sites.json")
    ledger = json.load(open(ledger_path)) if os.path.exists(ledger_path) else {"sites": {}}
    known = ledger["sites"]
    problems = []
    by = {}
    for s in sites:
        e = known.get(s["key"])
        if e is None:
            problems.append("no disposition for panic site %s:%d [%s] %s" % (s["file"], s["line"], s["fn"], s["text"][:120]))
            continue
        by[e["disposition"]] = by.get(e["disposition"], 0) + 1
        if e["disposition"] == "proved":
            for t in re.findall(r"theorem:(\w+)", e.get("reason", "")):
                if t not in theorems():
                    problems.append("the theorem %s that discharges %s [%s] does not exist in lean/Circomspect/Props" % (t, s["file"], s["fn"]))
        if e["disposition"] == "dead-api" and fn_referenced(s["fn"], s["file"]):
            problems.append("`dead-api` site is now referenced: %s [%s] %s" % (s["file"], s["fn"], s["text"][:100]))
    stale = [k for k in known if k not in {s["key"] for s in sites}]
    print(json.dumps({"sites": len(sites), "by_disposition": by, "stale_ledger_entries": len(stale), "problems": problems}))
    return 1 if problems else 0


if __name__ == "__main__":
    sys.exit(main())
