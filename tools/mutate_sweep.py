#!/usr/bin/env python3
"""Mechanical mutation sweep, complementary to the seeded changes written by sub-agents: small syntactic changes to the files a property
is anchored in, kept only if the tree still builds and the existing test suite passes, then run against the quick checks of the
properties anchored in that file.  Works on a scratch copy so that /repo and /verif stay usable:

  tools/mutate_sweep.py setup                      creates /var/tmp/mut/{repo (git worktree of /repo HEAD), verif (copy of /verif)}
  tools/mutate_sweep.py run N [seed] [file-filter] N mutants, results appended to /var/tmp/mut/results.jsonl
  tools/mutate_sweep.py report                     summary + the survivors (for triage: equivalent / outside the properties / a weak check)
  tools/mutate_sweep.py teardown                   removes the scratch copy (git worktree remove)
"""
import json
import os
import random
import re
import shutil
import subprocess
import sys
import time

ROOT = "/var/tmp/mut"
MREPO = ROOT + "/repo"
MVERIF = ROOT + "/verif"
RESULTS = ROOT + "/results.jsonl"
TARGET = ROOT + "/target"

OPS = [
    (r" <= ", " < "), (r" >= ", " > "), (r" < ", " <= "), (r" > ", " >= "),      # with blanks: comparison operators, not generics
    (r"==", "!="), (r"!=", "=="), (r"&&", "||"), (r"\|\|", "&&"),
    (r"\btrue\b", "false"), (r"\bfalse\b", "true"),
    (r"\+ 1\b", "+ 0"), (r"- 1\b", "- 0"), (r"\b0\b", "1"), (r"\b1\b", "2"),
    (r"\.is_some\(\)", ".is_none()"), (r"\.is_none\(\)", ".is_some()"), (r"\.is_empty\(\)", ".len() > 0"),
    (r"\.any\(", ".all("), (r"\.all\(", ".any("),
    (r"\.min\(", ".max("), (r"\.max\(", ".min("),
    (r"(?<!let )(?<!\| )\bSome\(([a-z_]+)\)(?! =>)(?! \|)", "None"), (r"(?<![A-Za-z0-9_])!\s*(?=[a-z_(])", ""),
    (r"\.rev\(\)", ""), (r"\.skip\(1\)", ""), (r"\bbreak;", "continue;"), (r"\bcontinue;", "break;"),
]


def sh(cmd, cwd=None, timeout=1800, env=None):
    e = dict(os.environ)
    e["CARGO_NET_OFFLINE"] = "true"
    e["CARGO_TARGET_DIR"] = TARGET
    if env:
        e.update(env)
    for k in [k for k, v in e.items() if v == ""]:
        del e[k]
    # own process group, killed as a whole on timeout: a mutant may make a test binary (a grandchild) loop forever
    import signal
    p = subprocess.Popen(cmd, cwd=cwd, env=e, stdout=subprocess.PIPE, stderr=subprocess.STDOUT, text=True, errors="replace", start_new_session=True)
    try:
        out, _ = p.communicate(timeout=timeout)
        return p.returncode, out
    except subprocess.TimeoutExpired:
        try:
            os.killpg(p.pid, signal.SIGKILL)
        except ProcessLookupError:
            pass
        p.communicate()
        return 124, "timeout"


def anchors():
    m = {}
    for l in open("/verif/properties.jsonl"):
        p = json.loads(l)
        for f in p["anchors"]["files"]:
            m.setdefault(f, []).append(p["id"])
    return m


def setup():
    os.makedirs(ROOT, exist_ok=True)
    if not os.path.exists(MREPO):
        subprocess.run(["git", "-C", "/repo", "worktree", "add", "--detach", MREPO, "HEAD"], check=True, stdout=subprocess.DEVNULL)
    else:
        subprocess.run(["git", "-C", MREPO, "checkout", "-q", "--", "."], check=True)
        head = subprocess.run(["git", "-C", "/repo", "rev-parse", "HEAD"], stdout=subprocess.PIPE, text=True).stdout.strip()
        subprocess.run(["git", "-C", MREPO, "checkout", "-q", "--detach", head], check=True)
    if os.path.exists(MVERIF):
        shutil.rmtree(MVERIF)
    subprocess.run(["rsync", "-a", "--exclude", ".git", "--exclude", "harness/target/cli", "--exclude", "replays", "--exclude", "audits", "--exclude", "seeded",
                    "/verif/", MVERIF + "/"], check=True)
    ct = open(MVERIF + "/harness/Cargo.toml").read().replace('path = "/repo/', 'path = "%s/' % MREPO)
    open(MVERIF + "/harness/Cargo.toml", "w").write(ct)
    print("building the baseline (tests, harness) ...")
    rc, out = sh(["cargo", "test", "--workspace", "--no-fail-fast", "--offline"], cwd=MREPO)
    print("tests:", rc)
    env = {"VERIF_REPO": MREPO}
    rc, out = sh(["python3", "-c", "import vlib; vlib.build_harness(); vlib.build_cli(); print('ok')"], cwd=MVERIF, env=dict(env, CARGO_TARGET_DIR=""))
    print(out[-300:])


def candidates(path):
    """(line number, op index, match start) of the non-test code of the file"""
    out = []
    lines = open(path, errors="replace").read().split("\n")
    for i, line in enumerate(lines):
        if re.match(r"\s*(#\[cfg\(test\)\]|mod tests\b)", line):
            break
        s = line.strip()
        if not s or s.startswith("//") or s.startswith("#[") or s.startswith("use ") or "trace!(" in s or "debug!(" in s or s.startswith("///"):
            continue
        code = line.split("//")[0]
        for k, (pat, _) in enumerate(OPS):
            for m in re.finditer(pat, code):
                # not inside a string literal (rough: even number of quotes before the match)
                if code[:m.start()].count('"') % 2 == 0:
                    out.append((i, k, m.start()))
    return out, lines


def run(n, seed, flt):
    rng = random.Random(seed)
    anc = anchors()
    files = sorted(f for f in anc if f.endswith(".rs") and (flt is None or flt in f) and os.path.exists(os.path.join(MREPO, f)))
    pool = []
    for f in files:
        cs, _ = candidates(os.path.join(MREPO, f))
        pool += [(f, c) for c in cs]
    rng.shuffle(pool)
    done = set()
    if os.path.exists(RESULTS):
        for l in open(RESULTS):
            r = json.loads(l)
            done.add((r["file"], r["line"], r["op"], r["col"]))
    count = 0
    env = {"VERIF_REPO": MREPO, "CARGO_TARGET_DIR": ""}
    for f, (i, k, col) in pool:
        if count >= n:
            break
        if (f, i, k, col) in done:
            continue
        path = os.path.join(MREPO, f)
        _, lines = candidates(path)
        pat, rep = OPS[k]
        line = lines[i]
        m = re.compile(pat).match(line, col) or re.compile(pat).search(line, col)
        if not m or m.start() != col:
            continue
        new = line[:m.start()] + m.expand(rep) + line[m.end():]
        if new == line:
            continue
        rec = {"file": f, "line": i, "op": k, "col": col, "before": line.strip(), "after": new.strip(), "props": anc[f], "t": time.strftime("%H:%M:%S")}
        lines2 = list(lines)
        lines2[i] = new
        open(path, "w").write("\n".join(lines2))
        try:
            rc, out = sh(["cargo", "build", "--offline", "-p", "circomspect"], cwd=MREPO)
            if rc != 0:
                rec["outcome"] = "does-not-build"
            else:
                rc, out = sh(["cargo", "test", "--workspace", "--no-fail-fast", "--offline"], cwd=MREPO, timeout=600)
                if rc != 0:
                    rec["outcome"] = "killed-by-tests"
                else:
                    count += 1
                    caught, runs = [], {}
                    for pid in anc[f]:
                        rc, out = sh(["python3", "run_check.py", pid, "--tier", "quick"], cwd=MVERIF, env=env, timeout=700)
                        nv = len(re.findall(r"^VIOLATION", out, re.M))
                        runs[pid] = {"rc": rc, "violations": nv, "concrete": len(re.findall(r"^VIOLATION (?!.*no-failing-input-found)", out, re.M)), "tail": out[-160:]}
                        if rc != 0:
                            caught.append(pid)
                    rec["outcome"] = "caught" if caught else "survived"
                    rec["caught_by"] = caught
                    rec["runs"] = runs
        finally:
            subprocess.run(["git", "-C", MREPO, "checkout", "-q", "--", "."], check=True)
        with open(RESULTS, "a") as fo:
            fo.write(json.dumps(rec) + "\n")
        print(rec["outcome"], f, i + 1, rec["before"][:60], "=>", rec["after"][:60], flush=True)


def report():
    rs = [json.loads(l) for l in open(RESULTS)]
    import collections
    c = collections.Counter(r["outcome"] for r in rs)
    print(dict(c))
    for r in rs:
        if r["outcome"] == "survived":
            print("%s:%d  [%s]\n   - %s\n   + %s" % (r["file"], r["line"] + 1, ",".join(r["props"]), r["before"], r["after"]))


if __name__ == "__main__":
    cmd = sys.argv[1]
    if cmd == "setup":
        setup()
    elif cmd == "run":
        run(int(sys.argv[2]), int(sys.argv[3]) if len(sys.argv) > 3 else 1, sys.argv[4] if len(sys.argv) > 4 else None)
    elif cmd == "report":
        report()
    elif cmd == "teardown":
        subprocess.run(["git", "-C", "/repo", "worktree", "remove", "--force", MREPO])
        shutil.rmtree(ROOT, ignore_errors=True)
