"""C11 — curve table and thresholds. The tables, primes and names are regenerated from the
source on every run (tools/extract_tables.py -> Gen/Tables.lean) and the theorems of
Props/C11.lean are re-checked against them (complete: the table *is* the quantifier). The
hand-modelled guards are tied to the real passes on every (curve, name) pair incl. near-miss
names, all sizes 0..300 and non-constant sizes, and the curve-name parser on all case spellings
and non-ASCII look-alikes (in-process and through the real binary's clap parser)."""
import json
import os
import subprocess
import sys
import vlib
sys.path.insert(0, os.path.join(vlib.VERIF, "tools"))
import extract_tables
from checks import runnerlib

CURVES = ["BN254", "BLS12_381", "GOLDILOCKS"]


def spec_tables(d):
    """the documented table, with Circomlib's spelling (independent of the code's arrays)"""
    fix = {"Bits2Point_strict": "Bits2Point_Strict", "Point2Bits_strict": "Point2Bits_Strict"}
    gold = {fix.get(n, n) for n, g, b in d["doc"] if g}
    bls = {fix.get(n, n) for n, g, b in d["doc"] if b}
    return {"BN254": set(), "BLS12_381": bls, "GOLDILOCKS": gold}


def near_misses(names, rng):
    out = set()
    for n in names:
        out.add(n.lower()); out.add(n.upper()); out.add(n + "2"); out.add(n[:-1]); out.add("_" + n)
        out.add(n.swapcase())
        if "_" in n:
            out.add(n.replace("_strict", "_Strict").replace("_Strict", "_strict") if "trict" in n else n.replace("_", ""))
        i = rng.below(len(n))
        out.add(n[:i] + n[i + 1:])
    out |= {"Num2Bits", "Bits2Num", "LessThan", "IsZero", "Poseidon2", "Sign_", "MiMC", "SMTHash", "T"}
    return sorted(x for x in out - set(names) if x and (x[0].isalpha() or x[0] == "_") and x.replace("_", "a").isalnum())


def lessthan_abstract(ssa):
    """the statements of a real SSA CFG as Model/LessThanPass.lean sees them, and the value id at each source range"""
    import hashlib

    def erase(v):
        if isinstance(v, list):
            if v and v[0] == "m":
                return "m"
            return [erase(x) for x in v]
        return v

    def h(x):
        return "v" + hashlib.sha1(json.dumps(erase(x)).encode()).hexdigest()[:10]

    def key(var, access):
        accs = []
        for a in access:
            if a[0] == "cmp":
                accs.append("P" + a[1])
            else:
                v = a[1][1][3] if isinstance(a[1], list) and len(a[1]) > 1 and isinstance(a[1][1], list) and a[1][1][:1] == ["m"] else "-"
                accs.append("I" + ("-" if v == "-" else "%s%s" % (v[0], v[1])))
        ident = "k" + hashlib.sha1(json.dumps([var[1], var[2], erase(access)]).encode()).hexdigest()[:10]
        return "%s~%s.%s~%s" % (ident, var[1], var[2], ";".join(accs) or "-")
    params = [list(p) for p in ssa[3]]

    def fixed(e):
        """the expression reads no local variable other than a parameter of the template as passed (its entry version)"""
        if isinstance(e, list):
            if e and e[0] in ("var", "acc", "upd") and isinstance(e[1], list) and e[1][:1] == ["m"] and e[1][5] != "-" and e[1][5][0] == "local" \
                    and list(e[2]) not in params:
                return False
            return all(fixed(x) for x in e)
        return True

    def val(e):
        return "%s/%d" % (h(e), 1 if fixed(e) else 0)
    toks, at = [], {}
    # the dominators of every block (`Cfg::get_dominators`): a range check of an expression that reads a local counts in a dominating block
    for b, d in zip(ssa[5], ssa[6]):
        toks.append("D:%d:%s" % (int(b[1]), ",".join(str(int(x)) for x in d[1]) or "-"))
    for b in ssa[5]:
        blk = int(b[1])
        for st in b[5]:
            body = st[1]
            if body[0] != "sub":
                toks.append("O")
                continue
            m, var, op, rhe = body[1], body[2], body[3], body[4]
            if op == "var":
                if m[5] != "-" and m[5][0] in ("local", "signal"):
                    toks.append("O")
                    continue
                access = []
                if rhe[0] == "upd":
                    access, rhe = rhe[3], rhe[4]
                if rhe[0] != "call":
                    toks.append("O")
                    continue
                name, args = rhe[2], rhe[3]
                if name == "LessThan" and len(args) == 1:
                    inst = "L"
                elif name == "Num2Bits" and len(args) == 1:
                    v = args[0][1][3]
                    inst = "N.%s.%s" % (v[1] if v != "-" and v[0] == "f" else "-", h(args[0]))
                else:
                    inst = "U"
                toks.append("I:%s:%s" % (key(var, access), inst))
            elif op == "csig" and rhe[0] == "upd" and rhe[3]:
                access, value = rhe[3], rhe[4]
                last = access[-1]
                if last[0] == "cmp":
                    kacc, port, indexed = access[:-1], last[1], 0
                elif len(access) >= 2 and access[-2][0] == "cmp":
                    kacc, port, indexed = access[:-2], access[-2][1], 1
                else:
                    toks.append("O")
                    continue
                elems = "-"
                at[(int(value[1][1]), int(value[1][2]))] = h(value)
                if value[0] == "arr":
                    elems = ",".join(val(e) for e in value[2]) or "-"
                    for e in value[2]:
                        at[(int(e[1][1]), int(e[1][2]))] = h(e)
                toks.append("P:%s:%s:%d:%s:%s:%d" % (key(var, kacc), port, indexed, val(value), elems, blk))
            else:
                toks.append("O")
    return toks, at


def run(ctx):
    vlib.build_harness()
    try:
        d, changed = extract_tables.regenerate()
    except Exception as e:
        # the translator no longer understands the source (the code was restructured): the theorems cannot be re-checked against
        # the code, so the property is no longer shown to hold; the documented table alone still gives an oracle for the
        # instantiation findings, which is used to search for a concrete failing input
        found = 0
        try:
            import re
            doc = open(os.path.join(vlib.REPO, "doc/analysis_passes.md")).read()
            sec = doc[doc.index("### BN254 specific circuit"):]
            sec = sec[: sec.index("\n### ", 5)]
            rows = []
            for line in sec.split("\n"):
                m = re.match(r"\|\s*`([^`]+)`\s*\|\s*(x?)\s*\|\s*(x?)\s*\|", line)
                if m:
                    rows.append((m.group(1), m.group(2) == "x", m.group(3) == "x"))
            spec = spec_tables({"doc": rows})
            names = sorted(spec["GOLDILOCKS"] | spec["BLS12_381"])
            reqs, meta = [], []
            for c in CURVES:
                for n in names:
                    reqs.append(json.dumps({"src": "template T() { component c = %s(); }" % n, "curve": c}))
                    meta.append((c, n))
            for (c, n), i, rq in zip(meta, vlib.run_harness("defpasses", reqs), reqs):
                ir = json.loads(i) if i.startswith("{") else {"error": i}
                flagged = sum(1 for r in ir.get("reports", []) if r["id"] == "CS0016")
                want = 1 if n in spec[c] else 0
                if "error" in ir or flagged != want:
                    found += 1
                    ctx.violation("c11-table %s %s" % (c, n), {"stage": "L1 documented table (search after the translator broke)", "input": rq, "curve": c, "template": n,
                                                               "implementation_flags": flagged, "documented": want, "error": ir.get("error"),
                                                               "broken": "translator tools/extract_tables.py: %s" % e})
        except Exception as e2:
            ctx.say("search after translator failure did not run: %s" % e2)
        if not found:
            ctx.violation("translator", {"broken": "translator tools/extract_tables.py no longer understands the source: %s" % e}, no_input=True)
        ctx.coverage["evaluations"] = 1
        return
    ctx.coverage["tables_regenerated_from_source"] = True
    ok, failing = vlib.theorem_gate(ctx, ["C11"])
    spec = spec_tables(d)
    allnames = sorted(set(d["goldilocks"]) | set(d["bls12_381"]) | {n for n, _, _ in d["doc"]} | spec["GOLDILOCKS"])
    names = allnames + near_misses(allnames, ctx.rng)
    l1 = l2 = 0
    evals = 0
    samples = []
    # ---- (curve, name) pairs -------------------------------------------------------------
    reqs, meta = [], []
    for c in CURVES:
        for n in names:
            reqs.append(json.dumps({"src": "template T() { component c = %s(); }" % n, "curve": c}))
            meta.append((c, n))
    impl = vlib.run_harness("defpasses", reqs)
    model = vlib.run_model(["c11 flag %s %s" % (c, n) for c, n in meta])
    for (c, n), i, m in zip(meta, impl, model):
        evals += 1
        ir = json.loads(i) if i.startswith("{") else {"error": i}
        flagged = sum(1 for r in ir.get("reports", []) if r["id"] == "CS0016")
        want = 1 if n in spec[c] else 0
        if "error" in ir or flagged != want:
            l1 += 1
            ctx.violation("c11-table %s %s" % (c, n), {"stage": "L1 documented table", "input": reqs[evals - 1], "curve": c, "template": n,
                                                       "implementation_flags": flagged, "documented": want, "error": ir.get("error"), "broken": None})
        elif (flagged == 1) != (m == "true"):
            l2 += 1
            ctx.violation("c11-table-correspondence", {"stage": "L2", "curve": c, "template": n, "implementation": flagged, "model": m,
                                                       "broken": "correspondence Curve.flagged <-> find_bn254_specific_circuits"}, no_input=True)
    samples.append({"pair": list(meta[3]), "impl_reply": impl[3][:200], "model": model[3]})
    # ---- Num2Bits / Bits2Num sizes -------------------------------------------------------
    reqs, meta = [], []
    for c in CURVES:
        for t in ("Num2Bits", "Bits2Num"):
            for n in list(range(0, 301)) + ["n", "n+1", "in"]:
                src = "template T(n) { signal input in; component c = %s(%s); }" % (t, n)
                reqs.append(json.dumps({"src": src, "curve": c}))
                meta.append((c, t, n))
    impl = vlib.run_harness("defpasses", reqs)
    model = vlib.run_model(["c11 n2b %s %s" % (c, n if isinstance(n, int) else "-") for c, t, n in meta])
    for (c, t, n), i, m, rq in zip(meta, impl, model, reqs):
        evals += 1
        ir = json.loads(i) if i.startswith("{") else {"error": i}
        flagged = sum(1 for r in ir.get("reports", []) if r["id"] == "CS0010")
        want = 1 if (c == "BN254" and not (isinstance(n, int) and n < 254)) else 0
        if "error" in ir or flagged != want:
            l1 += 1
            ctx.violation("c11-num2bits %s %s(%s)" % (c, t, n), {"stage": "L1 threshold 254", "input": rq, "implementation_flags": flagged,
                                                                "specified": want, "error": ir.get("error"), "broken": None})
        elif (flagged == 1) != (m == "true"):
            l2 += 1
            ctx.violation("c11-num2bits-correspondence", {"stage": "L2", "case": [c, t, n], "implementation": flagged, "model": m,
                                                          "broken": "correspondence Curve.nonstrictFlagged <-> find_nonstrict_binary_conversion"}, no_input=True)
    samples.append({"case": list(meta[253]), "impl_reply": impl[253][:200], "model": model[253]})
    # ---- a call of a *function* whose name is in the table is not an instantiation (mechanical mutant: the early exit for locals and signals) ----
    reqs, meta = [], []
    for c in CURVES:
        for n in ("Sign", "Poseidon", "Num2Bits_strict", "AliasCheck"):
            for form in ("template T() { signal input a; var v = %s(a); signal output o; o <-- v; }", "function f(a) { var v = %s(a); return v; }",
                         "template T() { signal input a; signal output o; o <-- %s(a); }"):
                reqs.append(json.dumps({"src": form % n, "curve": c}))
                meta.append((c, n))
    for (c, n), i, rq in zip(meta, vlib.run_harness("defpasses", reqs), reqs):
        evals += 1
        ir = json.loads(i) if i.startswith("{") else {"error": i}
        flagged = sum(1 for r in ir.get("reports", []) if r["id"] in ("CS0016", "CS0010"))
        if "error" in ir or flagged:
            l1 += 1
            ctx.violation("c11-function-call-flagged %s %s" % (c, n), {"stage": "L1 only instantiations are flagged", "input": rq, "implementation_flags": flagged,
                                                                       "error": ir.get("error"), "broken": None})
    # ---- LessThan range check ------------------------------------------------------------
    primes = {"BN254": d["primes"]["Bn254"], "BLS12_381": d["primes"]["Bls12_381"], "GOLDILOCKS": d["primes"]["Goldilocks"]}
    reqs, meta = [], []
    for c in CURVES:
        for k in list(range(0, 301)) + ["n"]:
            src = ("template T(n) { signal input a; signal input b; signal output o; component lt = LessThan(8); "
                   "component n0 = Num2Bits(%s); component n1 = Num2Bits(%s); n0.in <== a; n1.in <== b; "
                   "lt.in[0] <== a; lt.in[1] <== b; o <== lt.out; }" % (k, k))
            reqs.append(json.dumps({"src": src, "curve": c}))
            meta.append((c, k))
    impl = vlib.run_harness("defpasses", reqs)
    model = vlib.run_model(["c11 lt %s %s" % (c, k if isinstance(k, int) else "1000000") for c, k in meta])
    for (c, k), i, m, rq in zip(meta, impl, model, reqs):
        evals += 1
        ir = json.loads(i) if i.startswith("{") else {"error": i}
        flagged = sum(1 for r in ir.get("reports", []) if r["id"] == "CS0014")
        checked = isinstance(k, int) and (2 ** k - 1 <= primes[c] // 2)
        want = 0 if checked else 2
        if "error" in ir or flagged != want:
            l1 += 1
            ctx.violation("c11-lessthan %s k=%s" % (c, k), {"stage": "L1 2^k-1 <= p/2", "input": rq, "implementation_flags": flagged,
                                                           "specified": want, "error": ir.get("error"), "broken": None})
        elif isinstance(k, int) and (flagged == 0) != (m == "true"):
            l2 += 1
            ctx.violation("c11-lessthan-correspondence", {"stage": "L2", "case": [c, k], "implementation": flagged, "model": m,
                                                          "broken": "correspondence Curve.rangeChecked <-> find_unconstrained_less_than"}, no_input=True)
    # ---- a range-check component that is instantiated in two ways (audit C11 f1): the input counts as range-checked only if every
    #      instantiation that may reach it qualifies
    reqs, meta = [], []
    for c in CURVES:
        small = 8
        big = {"BN254": 254, "BLS12_381": 255, "GOLDILOCKS": 64}[c]
        for (k1, k2) in ((small, big), (big, small), (small, small), (big, big), (small, small + 1)):
            for shape in ("branches", "sequence"):
                inst = ("if (n == 1) { rc = Num2Bits(%s); } else { rc = Num2Bits(%s); }" % (k1, k2) if shape == "branches"
                        else "rc = Num2Bits(%s); rc = Num2Bits(%s);" % (k1, k2))
                src = ("template T(n) { signal input a; signal input b; signal output o; component lt = LessThan(8); component rc; component rb = Num2Bits(%d); %s "
                       "rc.in <== a; rb.in <== b; lt.in[0] <== a; lt.in[1] <== b; o <== lt.out; }" % (small, inst))
                reqs.append(json.dumps({"src": src, "curve": c, "dump": True}))
                meta.append((c, k1, k2, shape))
    twice = []      # (curve, name, reply, source) for the L2 comparison with the pass model below
    for (c, k1, k2, shape), i, rq in zip(meta, vlib.run_harness("defpasses", reqs), reqs):
        evals += 1
        ir = json.loads(i) if i.startswith("{") else {"error": i}
        twice.append((c, "twice-%s-%s-%s" % (shape, k1, k2), ir, json.loads(rq)["src"]))
        flagged = sum(1 for r in ir.get("reports", []) if r["id"] == "CS0014")
        ok_all = all(2 ** k - 1 <= primes[c] // 2 for k in (k1, k2))
        # "counts as range-checked only if": when some instantiation does not qualify the input must be flagged; when all qualify the tool
        # may still decline to track a component that is instantiated in different ways (imprecision, allowed)
        want = 1 if not ok_all else flagged
        if "error" in ir or flagged != want or flagged > 1:
            l1 += 1
            ctx.violation("c11-lessthan-instantiated-twice %s" % c, {"stage": "L1 every instantiation of the range check must qualify", "input": rq, "sizes": [k1, k2],
                                                                     "implementation_flags": flagged, "specified": want, "error": ir.get("error"), "broken": None})
    # ---- shapes of the second audit: a range-check component that is something else on another branch (f3), the inputs of LessThan given as
    #      one array (f4), an element of a component array addressed by the loop variable after the loop (f2)
    reqs, meta = [], []
    for c in CURVES:
        small = 8
        big = {"BN254": 254, "BLS12_381": 255, "GOLDILOCKS": 64}[c]
        head = "template T(n) { signal input a; signal input b; signal input x[2]; signal output o; component lt = LessThan(8); "
        shapes = [
            ("other-template-then", head + "component rc; component rb = Num2Bits(%d); if (n == 1) { rc = Num2Bits_strict(); } else { rc = Num2Bits(%d); } "
             "rc.in <== a; rb.in <== b; lt.in[0] <== a; lt.in[1] <== b; o <== lt.out; }" % (small, small), 1, 1),
            ("other-template-else", head + "component rc; component rb = Num2Bits(%d); if (n == 1) { rc = Num2Bits(%d); } else { rc = Other(%d); } "
             "rc.in <== a; rb.in <== b; lt.in[0] <== a; lt.in[1] <== b; o <== lt.out; }" % (small, small, small), 1, 1),
            ("array-input-unchecked", head + "lt.in <== [a, b]; o <== lt.out; }", 2, 2),
            ("array-input-one-checked", head + "component rb = Num2Bits(%d); rb.in <== b; lt.in <== [a, b]; o <== lt.out; }" % small, 1, 1),
            ("array-input-checked", head + "component ra = Num2Bits(%d); component rb = Num2Bits(%d); ra.in <== a; rb.in <== b; lt.in <== [a, b]; o <== lt.out; }" % (small, small), 0, 0),
            ("array-input-big", head + "component ra = Num2Bits(%d); component rb = Num2Bits(%d); ra.in <== a; rb.in <== b; lt.in <== [a, b]; o <== lt.out; }" % (big, small), 1, 1),
            # nb[0], nb[1] are small range checks, nb[2] is too wide; after the loop `i` is 2
            ("loop-index-after-loop", head + "component nb[3]; component rb = Num2Bits(%d); var i = 0; while (i < 2) { nb[i] = Num2Bits(%d); nb[i].in <== x[i]; i++; } "
             "nb[2] = Num2Bits(%d); nb[i].in <== a; rb.in <== b; lt.in[0] <== a; lt.in[1] <== b; o <== lt.out; }" % (small, small, big), 1, 1),
            # the value side of the same confusion (second review): `x[i]` after the loop is another element than `x[i]` in its body …
            ("value-index-after-loop", head + "component nb[2]; component rb = Num2Bits(%d); var i = 0; while (i < 2) { nb[i] = Num2Bits(%d); nb[i].in <== x[i]; i++; } "
             "rb.in <== b; lt.in[0] <== x[i]; lt.in[1] <== b; o <== lt.out; }" % (small, small), 1, 1),
            # … while a range check and a comparison of `x[i]` in one iteration are about the same element
            ("value-index-same-iteration", head + "component nb[2]; component lc[2]; var i = 0; while (i < 2) { nb[i] = Num2Bits(%d); nb[i].in <== x[i]; lc[i] = LessThan(8); "
             "lc[i].in[0] <== x[i]; lc[i].in[1] <== x[i]; i++; } o <== lc[0].out; }" % small, 0, 0),
            # both inputs given as a signal array (review of ee9259e: only an inline array was examined) — at least one warning
            ("array-input-variable", head + "lt.in <== x; o <== lt.out; }", 1, 2),
            # a component that is LessThan on one branch and another template on the other: its inputs are inputs of LessThan on some path
            # (review of ee9259e: the merge to `unknown` lost the two warnings)
            ("lessthan-or-other", head + "component c; if (n == 1) { c = LessThan(8); } else { c = Other(8); } c.in[0] <== a; c.in[1] <== b; o <== c.out; }", 2, 2),
            # the value that is range checked is another expression than the input of LessThan (mechanical mutant: equality of infix
            # expressions by operator only)
            ("distinct-expressions", head + "component ra = Num2Bits(%d); component rb = Num2Bits(%d); ra.in <== a; rb.in <== b + 1; lt.in[0] <== a; lt.in[1] <== b + 2; o <== lt.out; }" % (small, small), 1, 1),
            ("distinct-literals", head + "component ra = Num2Bits(%d); component rb = Num2Bits(%d); ra.in <== a; rb.in <== b * 3; lt.in[0] <== a; lt.in[1] <== b * 5; o <== lt.out; }" % (small, small), 1, 1),
            ("equal-expressions", head + "component ra = Num2Bits(%d); component rb = Num2Bits(%d); ra.in <== a; rb.in <== b + 1; lt.in[0] <== a; lt.in[1] <== b + 1; o <== lt.out; }" % (small, small), 0, 0),
            # a range check that is `Num2Bits(8)` on one branch and `Num2Bits(n)` with a size that is not known on the other (both orders, and as two
            # elements of a component array selected by a parameter): the size may be anything, so the input is not known to be checked
            # (seeded change C11/m6: sizes were identified "unless both are known and different")
            ("size-known-or-unknown", head + "component rc; component rb = Num2Bits(%d); if (n == 1) { rc = Num2Bits(%d); } else { rc = Num2Bits(n); } rc.in <== a; rb.in <== b; "
             "lt.in[0] <== a; lt.in[1] <== b; o <== lt.out; }" % (small, small), 1, 1),
            ("size-unknown-or-known", head + "component rc; component rb = Num2Bits(%d); if (n == 1) { rc = Num2Bits(n); } else { rc = Num2Bits(%d); } rc.in <== a; rb.in <== b; "
             "lt.in[0] <== a; lt.in[1] <== b; o <== lt.out; }" % (small, small), 1, 1),
            ("size-known-or-unknown-array", head + "component rc[2]; component rb = Num2Bits(%d); rc[0] = Num2Bits(%d); rc[1] = Num2Bits(n); rc[n].in <== a; rc[1 - n].in <== a + 1; rb.in <== b; "
             "lt.in[0] <== a; lt.in[1] <== b; o <== lt.out; }" % (small, small), 1, 1),
            # a local that is assigned once, range checked in the entry block and compared in a loop; an element checked at the top of a loop
            # body and compared inside a conditional statement of the same iteration: the check is in a dominating block (differential review
            # f3: the same-block rule of 2b59069 reported both; 0 since 3ad27f4, 1 and 2 before)
            ("local-checked-in-dominating-block", head + "var total = a + b; component rc = Num2Bits(%d); component rb = Num2Bits(%d); rc.in <== total; rb.in <== b; component lc[2]; "
             "for (var i = 0; i < 2; i++) { lc[i] = LessThan(8); lc[i].in[0] <== total; lc[i].in[1] <== b; } o <== lc[0].out; }" % (small, small), 0, 1),
            ("element-checked-earlier-in-iteration", head + "component nb[2]; component lc[2]; for (var i = 0; i < 2; i++) { nb[i] = Num2Bits(%d); nb[i].in <== x[i]; if (i > 0) { lc[i] = LessThan(8); "
             "lc[i].in[0] <== x[i]; lc[i].in[1] <== x[i]; } } o <== a; }" % small, 0, 1),
            # the check is on one branch only, the comparison after the join: not dominated
            ("local-checked-on-one-branch", head + "var total = a + b; component rc = Num2Bits(%d); component rb = Num2Bits(%d); rb.in <== b; if (n == 1) { rc.in <== total; } "
             "lt.in[0] <== total; lt.in[1] <== b; o <== lt.out; }" % (small, small), 1, 1),
            # an input that reads only a parameter of the template has one value: a range check in another block may count (0), or not (1:
            # the rule of 2b59069 before its refinement — sound, a false warning on a common shape; review 'latest2' f3)
            ("parameter-index-other-block", head + "component ra = Num2Bits(%d); component rb = Num2Bits(%d); ra.in <== x[n]; rb.in <== b; var s = 1; if (n > 2) { s = 2; } "
             "lt.in[0] <== x[n]; lt.in[1] <== b; o <== lt.out * s; }" % (small, small), 0, 1),
            # ... but not once the parameter has been assigned: `x[n]` is then another element
            ("parameter-assigned-after-check", head + "component ra = Num2Bits(%d); component rb = Num2Bits(%d); ra.in <== x[n]; rb.in <== b; if (n < 1) { n = n + 1; } else { n = n + 1; } "
             "lt.in[0] <== x[n]; lt.in[1] <== b; o <== lt.out; }" % (small, small), 1, 1),
            ("parameter-assigned-in-loop", head + "component nb[2]; component rb = Num2Bits(%d); var i = 0; while (i < 2) { nb[i] = Num2Bits(%d); nb[i].in <== x[n]; n = n + 1; i++; } "
             "rb.in <== b; lt.in[0] <== x[n]; lt.in[1] <== b; o <== lt.out; }" % (small, small), 1, 1),
            # all elements alike: tracking a component array is allowed (0), declining to is as well (1)
            ("loop-index-uniform", head + "component nb[3]; component rb = Num2Bits(%d); var i = 0; while (i < 2) { nb[i] = Num2Bits(%d); nb[i].in <== x[i]; i++; } "
             "nb[2] = Num2Bits(%d); nb[i].in <== a; rb.in <== b; lt.in[0] <== a; lt.in[1] <== b; o <== lt.out; }" % (small, small, small), 0, 1),
        ]
        for nm, src, lo, hi in shapes:
            reqs.append(json.dumps({"src": src, "curve": c}))
            meta.append((c, nm, lo, hi))
    reqs = [json.dumps(dict(json.loads(r), dump=True)) for r in reqs]
    tag = {"BN254": "Bn254", "BLS12_381": "Bls12_381", "GOLDILOCKS": "Goldilocks"}
    shape_replies = vlib.run_harness("defpasses", reqs)
    mlines, mmeta = [], []
    for (c, nm, lo, hi), i, rq in zip(meta, shape_replies, reqs):
        evals += 1
        ir = json.loads(i) if i.startswith("{") else {"error": i}
        flagged = sum(1 for r in ir.get("reports", []) if r["id"] == "CS0014")
        if "error" in ir or not (lo <= flagged <= hi):
            l1 += 1
            ctx.violation("c11-lessthan-shape %s %s" % (nm, c), {"stage": "L1 an input counts as range-checked only if the Num2Bits it really feeds qualifies", "input": rq[:1500],
                                                                 "implementation_flags": flagged, "specified": [lo, hi], "error": ir.get("error"), "broken": None})
        elif "ssa" in ir:
            # L2: the pass model (Model/LessThanPass.lean) on the statements of the real CFG reports the same values
            toks, at = lessthan_abstract(ir["ssa"])
            real = sorted({at.get((r["primary"][0]["start"], r["primary"][0]["end"]), "?") for r in ir["reports"] if r["id"] == "CS0014" and r["primary"]})
            mlines.append("lessthan %s %s" % (tag[c], " ".join(toks)))
            mmeta.append((c, nm, real, json.loads(rq)["src"]))
    for c, nm, ir, src in twice:
        if "ssa" in ir:
            toks, at = lessthan_abstract(ir["ssa"])
            real = sorted({at.get((r["primary"][0]["start"], r["primary"][0]["end"]), "?") for r in ir["reports"] if r["id"] == "CS0014" and r["primary"]})
            mlines.append("lessthan %s %s" % (tag[c], " ".join(toks)))
            mmeta.append((c, nm, real, src))
    for (c, nm, real, src), ml in zip(mmeta, vlib.run_model(mlines) if mlines else []):
        evals += 1
        got = sorted(x for x in ml.strip().split(",") if x and x != "-")
        if got != real:
            l2 += 1
            ctx.violation("c11-lessthan-pass-correspondence %s" % nm, {"stage": "L2", "curve": c, "source": src, "model_reports": got, "implementation_reports": real,
                                                                       "broken": "correspondence LessThanPass.reported <-> find_unconstrained_less_than"}, no_input=True)
    # ---- curve names -----------------------------------------------------------------------
    canon = {"BN254": "BN254", "BLS12_381": "BLS12_381", "GOLDILOCKS": "Goldilocks"}
    spell = set()
    rng = ctx.rng
    for nm in canon:
        spell |= {nm, nm.lower(), nm.title(), nm.swapcase(), nm + " ", " " + nm, nm[:-1], nm + "x", nm.replace("_", "-"), nm.replace("_", "")}
        for _ in range(60):
            spell.add("".join(ch.lower() if rng.chance(1, 2) else ch.upper() for ch in nm))
        look = {"i": "ıİíìïÎ", "s": "ſŚšѕ", "k": "Kкκ", "l": "ŀḷļ", "o": "оοöõ", "b": "Ьƅḃ", "n": "ñńп", "g": "ģğ", "d": "ďđ", "c": "сçć"}
        low = nm.lower()
        for idx, ch in enumerate(low):
            for alt in look.get(ch, ""):
                spell.add(low[:idx] + alt + low[idx + 1:])
                spell.add((low[:idx] + alt + low[idx + 1:]).upper())
    spell |= {"", "bn", "bn-254", "bls", "BLS12-381", "goldilock", "ßn254", "ＢＮ２５４"}
    spell = sorted(spell)
    hexs = [s.encode("utf-8").hex() or "-" for s in spell]
    impl = vlib.run_harness("curve", hexs)
    model = vlib.run_model(["c11 curve " + h for h in hexs])
    for s, i, m in zip(spell, impl, model):
        evals += 1
        up = "".join(ch.upper() if "a" <= ch <= "z" else ch for ch in s)
        want = "ok " + canon[up] if up in canon else "err"
        if i != want:
            l1 += 1
            ctx.violation("c11-curve-name %r" % s, {"stage": "L1 case-insensitive ASCII names only", "spelling": s,
                                                    "input": "curve " + (s.encode("utf-8").hex() or "-"), "implementation": i, "specified": want, "broken": None})
        elif i != m:
            l2 += 1
            ctx.violation("c11-curve-correspondence", {"stage": "L2", "spelling": s, "implementation": i, "model": m,
                                                       "broken": "correspondence Curve.parseCurve <-> Curve::from_str"}, no_input=True)
    # through the real binary (clap): exit status 2 = rejected by the option parser
    cli = vlib.build_cli()
    # ---- the instantiation in `component main = T(...)` (audit C11 f2): it is an instantiation like any other; through the real
    # binary, since the entry point is called from cli/src/main.rs. The templates of the file instantiate nothing, so every CS0016 /
    # CS0010 comes from the main component: flagged exactly as the table and the threshold say.
    with vlib.Workdir("c11m") as wdm:
        body = {"Num2Bits": "(n) { signal input in; signal output out[n]; for (var i = 0; i < n; i++) { out[i] <-- (in >> i) & 1; out[i] * (out[i] - 1) === 0; } }",
                "Bits2Num": "(n) { signal input in[n]; signal output out; var s = 0; for (var i = 0; i < n; i++) { s += in[i] * 2 ** i; } out <== s; }"}
        mains = []
        for t in ["Sign", "Poseidon", "BabyPbk", "Num2Bits_strict", "Signs", "sign", "MiMC", "T"]:
            for args in ["()", "(2)"]:
                mains.append((t, args))
        for t in ["Num2Bits", "Bits2Num"]:
            for args in ["(0)", "(1)", "(253)", "(254)", "(255)", "(300)", "(2 * 126 + 1)", "(2 * 127)", "(253 + 0 * f(1))", "(f(1))", "(1, 2)", "()"]:
                mains.append((t, args))
        jobs = []
        for c in ["BN254", "BLS12_381", "GOLDILOCKS"]:
            for t, args in mains:
                # every third file allows custom templates (seeded change C11/m5: the flag of the file was taken for the kind of the main component)
                pragma = "pragma circom 2.0.0;\npragma custom_templates;\n" if len(jobs) % 3 == 1 else "pragma circom 2.0.0;\n"
                text = pragma + "function f(x) { return x + 1; }\ntemplate %s%s\n" % (t, body.get(t, "() { signal input a; signal output b; b <== a; }" if args == "()" else "(n) { signal input a; signal output b; b <== a + n; }"))
                # every fifth file includes a file that defines a template twice: the files cannot be assembled into a program, that error is
                # located in a file that is not named (not displayed), and the main component is analysed all the same (review 'latest3' f1)
                if len(jobs) % 5 == 2:
                    wdm.write("dup_lib.circom", b"pragma circom 2.0.0;\ntemplate DupL() { signal input a; signal output b; b <== a; }\ntemplate DupL() { signal input a; signal output b; b <== a; }\n")
                    text = text.replace("function f(x)", "include \"dup_lib.circom\";\nfunction f(x)", 1)
                p = wdm.write("main_%s_%d.circom" % (c, len(jobs)), (text + "component main = %s%s;\n" % (t, args)).encode())
                want = set()
                if c != "BN254" and t in spec[c]:
                    want.add("CS0016")
                if c == "BN254" and t in body and args not in ("(1, 2)", "()"):
                    small = {"(0)": 0, "(1)": 1, "(253)": 253, "(254)": 254, "(255)": 255, "(300)": 300, "(2 * 126 + 1)": 253, "(2 * 127)": 254}.get(args)
                    if small is None or small >= 254:
                        want.add("CS0010")
                jobs.append((c, t, args, p, want))
        def run_main(j):
            c, t, args, p, want = j
            return runnerlib.run_cli(cli, {"inputs": [p], "libs": [], "curve": c})
        # L2: the model of the two passes on one instantiation (`Curve.instReports`, the function `C11_every_instantiation` is about)
        val = {"(0)": ["0"], "(1)": ["1"], "(253)": ["253"], "(254)": ["254"], "(255)": ["255"], "(300)": ["300"], "(2 * 126 + 1)": ["253"], "(2 * 127)": ["254"],
               "(253 + 0 * f(1))": ["-"], "(f(1))": ["-"], "(1, 2)": ["1", "2"], "()": [], "(2)": ["2"]}
        mreps = vlib.run_model(["c11 inst %s %s %s" % (c, t, " ".join(val[args])) for c, t, args, p, want in jobs])
        for (c, t, args, p, want), r, mr in zip(jobs, runnerlib.pmap(run_main, jobs), mreps):
            evals += 1
            mgot = set(x for x in mr.strip().split(",") if x and x != "-")
            if mgot != want:
                l2 += 1
                ctx.violation("c11-main-component-model %s%s %s" % (t, args, c), {"stage": "L2 Curve.instReports vs the specification", "curve": c, "main": "component main = %s%s;" % (t, args),
                                                                                   "model": sorted(mgot), "specified": sorted(want), "broken": "correspondence Curve.instReports <-> the two instantiation passes"}, no_input=True)
            got = {rid for d in r["diags"] for rid, msg in (("CS0016", "relies on BN254 specific parameters"), ("CS0010", "may lead to aliasing issues")) if msg in d[2]}
            if r["rc"] not in (0, 1) or got != want:
                l1 += 1
                ctx.violation("c11-main-component %s%s %s" % (t, args, c), {"stage": "L1 the main component is an instantiation", "curve": c, "template": t, "main": "component main = %s%s;" % (t, args),
                                                                             "argv": r["argv"], "exit": r["rc"], "reported": sorted(got), "specified": sorted(want), "input": open(p).read(), "broken": None})
    cli_cases = ["bn254", "Bls12_381", "goldilocks", "goldılocks", "GOLDILOCKſ", "bn255", "BLS12-381"]
    with vlib.Workdir("c11") as wd:
        f = wd.write("a.circom", "pragma circom 2.0.0;\ntemplate T() { signal input a; signal output b; b <== a; }\ncomponent main = T();\n")
        for s in cli_cases:
            evals += 1
            p = subprocess.run([cli, "--curve", s, f], stdout=subprocess.PIPE, stderr=subprocess.PIPE, text=True)
            up = "".join(ch.upper() if "a" <= ch <= "z" else ch for ch in s)
            accepted = p.returncode != 2
            if accepted != (up in canon):
                l1 += 1
                ctx.violation("c11-cli-curve %r" % s, {"stage": "L1 clap", "argv": ["circomspect", "--curve", s, "a.circom"], "exit": p.returncode,
                                                       "stderr": p.stderr[-300:], "specified_accept": up in canon, "broken": None})
    if not ok:
        # a regenerated theorem failed: the failing row is the replay if the documented table and the code disagree
        diff = []
        code = {"GOLDILOCKS": set(d["goldilocks"]), "BLS12_381": set(d["bls12_381"])}
        for c in code:
            for n in sorted(code[c] ^ spec[c]):
                diff.append((c, n, n in code[c], n in spec[c]))
        if diff or l1:
            for c, n, incode, indoc in diff[:5]:
                ctx.violation("c11-table-row %s %s" % (c, n), {"stage": "theorem C11_table fails on the regenerated tables", "curve": c, "template": n,
                                                              "in_code_table": incode, "in_documented_table": indoc, "broken": "theorem C11_table",
                                                              "input": json.dumps({"src": "template T() { component c = %s(); }" % n, "curve": c})})
        else:
            ctx.violation("theorem " + ";".join(failing)[:200], {"broken": "theorem", "failing": failing}, no_input=True)
    cov = ctx.coverage
    cov["evaluations"] = evals
    cov["distinct_nontrivial"] = evals
    cov["exhaustive"] = True
    cov["rule"] = ("complete in both tiers: %d template names (tables + documented + near-miss) x 3 curves; Num2Bits/Bits2Num sizes 0..300 and 3 "
                   "non-constant sizes x 3 curves; LessThan with Num2Bits(k), k in 0..300 and non-constant, x 3 curves; %d curve-name spellings "
                   "in-process and %d through the real binary; each case distinct by construction" % (len(names), len(spell), len(cli_cases)))
    cov["l1_spec_failures"] = l1
    cov["l2_model_divergences"] = l2
    cov["samples"] = samples + [{"spelling": spell[5], "impl": impl[5], "model": model[5]}]
    ctx.assumptions += ["the translator tools/extract_tables.py (regex-based) is trusted to copy the literals faithfully; the passes are also run for real on every row",
                        "clap's option parsing is exercised, not modelled"]


def replay(ctx, path):
    r = json.load(open(path))
    vlib.build_harness()
    if "input" in r and r["input"].startswith("{"):
        print(vlib.run_harness("defpasses", [r["input"]])[0][:2000])
    else:
        print(json.dumps(r, indent=1)[:2000])
    ctx.coverage["evaluations"] = 1
