"""C03 — report conservation and output contract. Theorems: Props/C03.lean (conservation, lookup
independence, filter, exit, summary, SARIF — for all projects, orders and option sets).
Tie: (L1) on generated multi-definition projects the reports offered by the real runner equal,
as a multiset, the parser's reports plus each definition's isolated CFG-generation and pass
reports; (L2) the Lean model, fed the isolated observations and the observed analysis order,
reproduces the real batches exactly; (L1) the real binary's exit status, summary line, printed
diagnostics and SARIF file agree with the filter clause over the option lattice."""
import collections
import json
import os
import vlib
from checks import runnerlib as rl


def lattice(ctx, ids):
    """(level, allow, sarif, verbose) combinations: all levels x allow subsets (all subsets when
    few ids, else empty/singletons/full/random) x sarif x verbose"""
    ids = sorted(ids)
    subsets = [()]
    if len(ids) <= 3:
        for m in range(1, 1 << len(ids)):
            subsets.append(tuple(i for k, i in enumerate(ids) if m >> k & 1))
    else:
        subsets += [(i,) for i in ids] + [tuple(ids)]
        for _ in range(3):
            subsets.append(tuple(i for i in ids if ctx.rng.chance(1, 2)))
    subsets = sorted(set(subsets))
    if ctx.tier == "quick" and len(subsets) > 6:
        subsets = [subsets[0], subsets[-1]] + [ctx.rng.choice(subsets) for _ in range(4)]
    combos = []
    for level in ("info", "warning", "error"):
        for allow in subsets:
            for sarif in (False, True):
                for verbose in (False, True):
                    if ctx.tier == "quick" and sarif != verbose and ctx.rng.chance(1, 2):
                        continue
                    combos.append((level, allow, sarif, verbose))
    return combos


def expected_sarif(r, sources):
    locs = []
    for l in r["primary"]:
        src = sources.get(l["file"])
        if src is None:
            return None
        sl, sc = rl.line_col(src, l["start"])
        el, ec = rl.line_col(src, l["end"])
        locs.append((os.path.basename(l["file"]), sl, sc, el, ec))
    return (r["id"], rl.SARIF_LEVEL[r["level"]], r["message"], tuple(sorted(locs)))


def run(ctx):
    vlib.build_harness()
    cli = vlib.build_cli()
    ok, failing = vlib.theorem_gate(ctx, ["C03"])
    nproj = 25 if ctx.tier == "quick" else 200
    cov = ctx.coverage
    stats = collections.Counter()
    samples = []
    with vlib.Workdir("c03") as wd:
        projs, reqs = [], []
        for k in range(nproj):
            p = rl.make_project(ctx.rng, k)
            projs.append(p)
            reqs.append(rl.materialize(wd, "p%d" % k, p))
        areqs = [{"inputs": r["inputs"], "libs": r["libs"], "curve": r["curve"]} for r in reqs]
        real = vlib.analyze(areqs)
        iso_raw = vlib.run_harness_robust("isolate", [json.dumps(a) for a in areqs])
        cli_jobs = []
        for k, (p, req, rep, ir) in enumerate(zip(projs, reqs, real, iso_raw)):
            if "crash" in rep or not ir.startswith("{"):
                stats["crashed (left to C01)"] += 1
                continue
            iso = json.loads(ir)
            parse, batches = rl.real_batches(rep)
            batches, main_real = rl.split_main(batches)      # the batch of the main component (since 1121aa8), None if there is none
            offered = parse + [r for _, _, rs in batches for r in rs] + (main_real or [])
            stats["main component batches"] += 1 if main_real is not None else 0
            stats["main component reports"] += len(main_real or [])
            stats["projects"] += 1
            stats["definitions"] += len(batches)
            stats["offered reports"] += len(offered)
            stats["gen-stage reports"] += sum(len(d["gen"]) for d in iso["defs"])
            stats["lift failures"] += sum(1 for d in iso["defs"] if not d["ok"])
            stats["lookups"] += sum(len(d["lookups"]) for d in iso["defs"])
            # ---- L1 conservation ----------------------------------------------------------------
            want = collections.Counter(rl.rkey(r) for r in iso["parse"])
            for d in iso["defs"]:
                want.update(rl.rkey(r) for r in d["gen"])
                if d["ok"]:
                    want.update(rl.rkey(r) for r in d["passes"])
            want.update(rl.rkey(r) for r in (iso.get("main") or []))
            got = collections.Counter(rl.rkey(r) for r in offered)
            analysed = sorted(n for _, n, _ in batches)
            # independent of the parser's bookkeeping: every template / function textually defined in a file named on the command
            # line is analysed (when the project parsed without an error)
            import re as _re
            textual = sorted(n for rel in p["inputs"] for n in _re.findall(r"^(?:/\*[^\n]*?\*/ )?(?:template|function) (\w+)", p["files"][rel] if isinstance(p["files"][rel], str) else "", flags=_re.M))
            if not any(r["level"] == "error" for r in parse) and sorted(set(textual)) != sorted(set(analysed)):
                ctx.violation("user-input-definitions", {"stage": "L1 every definition of a user-specified file is analysed", "files": p["files"], "inputs": p["inputs"],
                                                         "defined_in_named_files": textual, "analysed": analysed, "broken": None})
                continue
            if got != want or analysed != sorted(d["name"] for d in iso["defs"]) or (main_real is None) != (iso.get("main") is None):
                missing = [r for r in iso["parse"] + [x for d in iso["defs"] for x in d["gen"] + d["passes"]] + (iso.get("main") or []) if got[rl.rkey(r)] < want[rl.rkey(r)]]
                ctx.violation("conservation", {"stage": "L1 conservation (offered = parse + per-definition reports, each once)",
                                               "files": p["files"], "inputs": p["inputs"],
                                               "lost_or_duplicated": [(r["id"], r["message"]) for r in missing][:10],
                                               "offered": sorted(got.elements())[:50], "expected": sorted(want.elements())[:50],
                                               "analysed": analysed, "definitions": sorted(d["name"] for d in iso["defs"]), "broken": None})
                continue
            # ---- L2 model -----------------------------------------------------------------------
            order = [n for _, n, _ in batches]
            m = rl.parse_model(vlib.run_model([rl.model_line(iso, order, 0, [])])[0])
            real_b = [[rl.rtok(r).split("/") for r in parse]] + [[rl.rtok(r).split("/") for r in rs] for _, _, rs in batches]
            if main_real is not None:
                real_b.append([rl.rtok(r).split("/") for r in main_real])
            real_b = [["%s/%s/%s" % (t[0], t[1], t[4]) for t in b] for b in real_b]
            # the order of reports inside one batch depends on hash-map iteration inside the passes and is
            # not specified: batches are compared as multisets
            if [sorted(b) for b in m["batches"]] != [sorted(b) for b in real_b]:
                ctx.violation("runner-correspondence", {"stage": "L2 model batches vs real batches", "files": p["files"], "order": order,
                                                        "model": m["batches"], "implementation": real_b,
                                                        "broken": "correspondence Runner.batches <-> AnalysisRunner::analyze_*"}, no_input=True)
            # ---- CLI lattice ----------------------------------------------------------------------
            ids = {r["id"] for r in offered}
            sources = {os.path.join(req["base"], rel): (t if isinstance(t, bytes) else t.encode("utf-8")) for rel, t in p["files"].items()}
            for (level, allow, sarif, verbose) in lattice(ctx, ids):
                cli_jobs.append((k, p, req, offered, sources, level, allow, sarif, verbose))
            if len(samples) < 2:
                samples.append({"main.circom": p["files"]["main.circom"][:500], "order": order,
                                "offered": [(r["id"], r["level"]) for r in offered][:12]})

        cli_jobs = [j + (n,) for n, j in enumerate(cli_jobs)]   # unique SARIF file per run (runs are concurrent)

        def job(j):
            k, p, req, offered, sources, level, allow, sarif, verbose, jobno = j
            sf = os.path.join(req["base"], "out_%d.sarif" % jobno) if sarif else None
            res = rl.run_cli(cli, req, level=level, allow=allow, sarif=sf, verbose=verbose)
            sarif_doc = None
            if sf and os.path.exists(sf):
                try:
                    sarif_doc = json.load(open(sf))
                except Exception as e:
                    sarif_doc = {"unreadable": str(e)}
            return res, sarif_doc

        results = rl.pmap(job, cli_jobs)
        for j, (res, sarif_doc) in zip(cli_jobs, results):
            k, p, req, offered, sources, level, allow, sarif, verbose, jobno = j
            stats["cli runs"] += 1
            exp = [r for r in offered if rl.spec_keep(r, rl.LEVELS[level], allow, req["inputs"])]
            word = {"info": "note", "warning": "warning", "error": "error"}
            exp_diag = collections.Counter((word[r["level"]], r["id"] if verbose else None, r["message"]) for r in exp)
            got_diag = collections.Counter(res["diags"])
            n = len(exp)
            exp_summary = "No issues found." if n == 0 else ("1 issue found." if n == 1 else "%d issues found." % n)
            problems = []
            if res["rc"] != (0 if n == 0 else 1):
                problems.append("exit status %s, expected %d" % (res["rc"], 0 if n == 0 else 1))
            if res["summary"] != exp_summary:
                problems.append("summary %r, expected %r" % (res["summary"], exp_summary))
            if got_diag != exp_diag:
                problems.append("displayed diagnostics differ: extra %s missing %s" % (list((got_diag - exp_diag).items())[:4], list((exp_diag - got_diag).items())[:4]))
            if sarif:
                exp_s = collections.Counter(expected_sarif(r, sources) for r in exp)
                if sarif_doc is None or "runs" not in (sarif_doc or {}):
                    problems.append("no readable SARIF file written")
                else:
                    got_s = collections.Counter()
                    for run_ in sarif_doc["runs"]:
                        for r_ in run_.get("results", []):
                            locs = []
                            for l in r_.get("locations", []):
                                pl = l["physicalLocation"]
                                rg = pl["region"]
                                # the URI must decode (percent-encoding) to the path of the file that was read
                                import urllib.parse
                                locs.append((os.path.basename(urllib.parse.unquote(pl["artifactLocation"]["uri"])), rg["startLine"], rg["startColumn"], rg["endLine"], rg["endColumn"]))
                            got_s[(r_.get("ruleId"), r_.get("level"), r_["message"]["text"], tuple(sorted(locs)))] += 1
                    if got_s != exp_s:
                        problems.append("SARIF results differ from displayed findings: extra %s missing %s" % (list((got_s - exp_s).items())[:3], list((exp_s - got_s).items())[:3]))
            if problems:
                ctx.violation("output-contract %s" % problems[0][:40],
                              {"stage": "L1 exit/summary/displayed/SARIF vs filter clause", "files": p["files"], "argv": res["argv"],
                               "problems": problems, "stdout_tail": res["stdout"][-1500:], "broken": None})
    if not ok:
        ctx.violation("theorem " + ";".join(failing)[:200], {"broken": "theorem", "failing": failing}, no_input=True)
    cov["evaluations"] = stats["projects"] + stats["cli runs"]
    cov["distinct_nontrivial"] = stats["projects"] + stats["cli runs"]
    cov["rule"] = ("generated projects (1-3 templates, 1-2 functions, optional included-only file and second input file, shadowing "
                   "declarations for CFG-stage reports, templates instantiating earlier templates for cross-definition lookups); each "
                   "project observed in-process (offered reports, per-definition isolation) and through the real binary over "
                   "levels x allow-subsets x sarif x verbose; a case = one project observation or one CLI run")
    cov["distribution"] = dict(stats)
    cov["samples"] = samples or [{"note": "no project survived"}]
    ctx.assumptions += ["codespan's rendering is parsed back from stdout (header lines and 'circomspect:' summary)",
                        "SARIF regions are compared with line/column recomputed from the original bytes (columns in characters)"]


def replay(ctx, path):
    r = json.load(open(path))
    print(json.dumps({k: r[k] for k in r if k not in ("files",)}, indent=1)[:3000])
    ctx.coverage["evaluations"] = 1
