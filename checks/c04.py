"""C04 — displayed locations are valid and point at the construct. Theorems: Props/C04.lean
(the stripper preserves byte offsets and character boundaries, for all inputs). Tie: (i) the
real stripper's output is checked byte-for-byte against the alignment predicate, (ii) label
audit of every report of every stage on generated files with multi-byte text, comments of every
shape before constructs and CRLF line ends."""
import collections
import json
import os
import re
import vlib
from checks import runnerlib as rl
import gen
from checks import c05

# report ids whose primary label must cover source text mentioning the identifier quoted in the label
IDENT_IN_LABEL = {"CS0001", "CS0005", "CS0006", "CS0007", "CS0008", "CS0013"}


def is_boundary(b, i):
    return i == len(b) or (0 <= i < len(b) and (b[i] & 0xC0) != 0x80)


def audit_label(l, files_read, sources):
    """returns None or a string describing what is wrong with the label"""
    name = l["file"]
    if name not in sources:
        return "label names a file that was not read: %s" % name
    b = sources[name]
    s, e = l["start"], l["end"]
    if not (s <= e):
        return "start > end (%d > %d)" % (s, e)
    if e > len(b):
        return "range %d..%d outside the file (%d bytes)" % (s, e, len(b))
    if not is_boundary(b, s) or not is_boundary(b, e):
        return "range %d..%d not on character boundaries" % (s, e)
    return None


def run(ctx):
    vlib.build_harness()
    ok, failing = vlib.theorem_gate(ctx, ["C04"])
    # (i) stripper alignment on the C05 inputs
    texts, n_exh = c05.stripper_inputs(ctx)
    reqs = [c05.hexs(t) for t in texts]
    impl = vlib.run_harness("strip", reqs)
    bad_align = 0
    for t, r, i in zip(texts, reqs, impl):
        src = t.encode("utf-8")
        if i.startswith("ok "):
            out = bytes.fromhex(i[3:]) if i[3:] != "-" else b""
            good = len(out) == len(src) and all(o == s or o == 0x20 for o, s in zip(out, src))
            if good:
                # every maximal run of non-blank output bytes starts/ends on a boundary of the source
                for m in re.finditer(rb"[^ \n\r\t]+", out):
                    if out[m.start():m.end()] != src[m.start():m.end()]:
                        continue
                    if not is_boundary(src, m.start()) or not is_boundary(src, m.end()):
                        good = False
            if not good:
                bad_align += 1
                ctx.violation("strip-offsets", {"stage": "L1 alignment", "input_text": t, "input": "strip " + r,
                                                "implementation": i, "broken": None})
        elif i.startswith("err "):
            parts = i.split()
            off = int(parts[1])
            if len(parts) != 2 or off > len(src) or not is_boundary(src, off) or src[off:off + 2] != b"/*":
                bad_align += 1
                ctx.violation("strip-error-location", {"stage": "L1 unclosed-comment label", "input_text": t,
                                                       "input": "strip " + r, "implementation": i, "broken": None})
        else:
            bad_align += 1
            ctx.violation("strip-crash", {"input_text": t, "input": "strip " + r, "implementation": i})
    # (ii) label audit through the real pipeline
    nprog = 60 if ctx.tier == "quick" else 600
    n_labels = 0
    n_reports = 0
    bad_labels = 0
    by_id = {}
    samples = []
    with vlib.Workdir("c04") as wd:
        reqs2, metas = [], []
        for k in range(nprog):
            rng = ctx.rng
            toks, defs, stats = gen.project(rng, n_templates=2, n_functions=1, shadow=(k % 3 == 0))
            mode = k % 4
            text = gen.render(toks, rng, gen.COMMENT_SHAPES if mode != 0 else None)
            if mode == 2:
                text = text.replace("\n", "\r\n")
            if mode == 3:
                text = "// ééé 𝔸𝔹 ü\n" + text + "\n/* trailing é */\n"
            if k % 10 == 7:
                text = text + "\ntemplate Broken( { é\n"           # parse error after multi-byte text
            if k % 10 == 8:
                text = text + "\n/* é unterminated"
            def before_main(t, extra):
                i = t.rfind("component main")
                return t + extra if i < 0 else t[:i] + extra + t[i:]
            if k % 10 == 6:
                i = text.rfind("component main")
                text = (text if i < 0 else text[:i]) + "\n/* é */ template Open%d() {\n  signal input in_%d" % (k, k)     # the file ends inside a definition
            if k % 10 == 4:
                # a version the tool does not support, behind a header comment: the error is about the pragma statement (audit C04 round 2 f3)
                text = "/* licence é\n * header\n */\n// 𝔸\n" + re.sub(r"pragma\s+circom\s+2\.0\.0\s*;", "pragma circom /* v */ 3.%d.0 ;" % (k % 7), text, count=1)
            if k % 10 == 5:
                # comparator inputs that also feed a range check: the finding is about the LessThan input, not about the Num2Bits one
                text = before_main(text, "\ntemplate LessThan(n) { signal input in[2]; signal output out; out <== in[0] - in[1] + n; }\n"
                               "template Num2Bits(n) { signal input in; signal output out[n]; for (var i = 0; i < n; i++) { out[i] <== in; } }\n"
                               "template Cmp%d(n) { signal input a; signal input b; signal output ok;\n  component nb = Num2Bits(n);\n  nb.in <== a;\n"
                               "  component lt = LessThan(n);\n  lt.in[0] <== a;\n  lt.in[1] <== b;\n  ok <== lt.out;\n}\n" % k)
            p = wd.write("p%d/main.circom" % k, text.encode("utf-8"))
            reqs2.append({"inputs": [p], "libs": [], "curve": "BN254"})
            metas.append((p, text))
        replies = vlib.analyze(reqs2)
        for (p, text), rep in zip(metas, replies):
            if "crash" in rep:
                continue  # crashes are C01's business
            sources = {p: text.encode("utf-8")}
            for r in vlib.reports_of(rep):
                n_reports += 1
                by_id[r["id"]] = by_id.get(r["id"], 0) + 1
                for l in r["primary"] + r["secondary"]:
                    n_labels += 1
                    why = audit_label(l, None, sources)
                    if why is None and r["id"] in IDENT_IN_LABEL and l in r["primary"]:
                        under = sources[p][l["start"]:l["end"]].decode("utf-8", "replace")
                        under = c05.blank_comments(under) or under
                        for ident in re.findall(r"`([A-Za-z_$][A-Za-z_$0-9]*)`", r["message"] or ""):
                            if not re.search(r"(?<![A-Za-z_$0-9])%s(?![A-Za-z_$0-9])" % re.escape(ident), under):
                                why = "text under the primary label (%r) does not mention `%s` named in the message" % (under[:80], ident)
                    if why is None and l in r["primary"]:
                        m_at = re.search(r"EOF found at (\d+)", r["message"] or "")
                        if m_at and not (l["start"] == l["end"] == int(m_at.group(1))):
                            why = "the message speaks about the end of the file (offset %s) but the label is %d..%d" % (m_at.group(1), l["start"], l["end"])
                        if "end of file" in (r["message"] or "").lower() and not m_at and l["end"] < len(sources[p].rstrip()):
                            why = "the message speaks about the end of the file but the label %d..%d is not there (%d bytes)" % (l["start"], l["end"], len(sources[p]))
                        if "which is not supported by Circomspect" in (r["message"] or ""):
                            under = sources[p][l["start"]:l["end"]].decode("utf-8", "replace")
                            if not re.fullmatch(r"pragma\s+circom\b.*;", c05.blank_comments(under) or under, re.S):
                                why = "the message is about the version pragma but the text under the primary label is %r" % under[:60]
                        if (r["message"] or "").startswith("Inputs to `LessThan`"):
                            # the statement under the label assigns an input of a LessThan component
                            line_start = sources[p].rfind(b"\n", 0, l["start"]) + 1
                            line_end = sources[p].find(b"\n", l["end"])
                            line = sources[p][line_start:line_end if line_end >= 0 else None].decode("utf-8", "replace")
                            if not re.search(r"\blt\b", line):
                                why = "the finding is about an input of `LessThan` but the primary label is on %r" % line.strip()[:80]
                    if why:
                        bad_labels += 1
                        ctx.violation("bad-label %s" % r["id"],
                                      {"stage": "L1 label audit", "file_text": text, "report": r, "label": l, "why": why, "broken": None})
                    elif len(samples) < 4 and l in r["primary"]:
                        samples.append({"id": r["id"], "label": l["label"], "range": [l["start"], l["end"]],
                                        "text_under_label": sources[p][l["start"]:l["end"]].decode("utf-8", "replace")[:100]})
        # (ii-b) labels of reports that span two files named on the command line (seeded C04 m6: the label of the first definition carried
        # the offsets of one file and the id of the other): a name defined in both files, the files given in both orders; the label of
        # the first definition lies behind `template <name>(` / `function <name>(` in the file it names, the other one on a definition
        # of that name
        dup_projects = []
        for k in range(6 if ctx.tier == "quick" else 40):
            nm = "Dup%d" % k
            fa = "pragma circom 2.0.0;\n" + ("// é header\n" if k % 2 else "") + "template %s(n) { signal input in; signal output out; out <== in * n; }\n" % nm
            fb = ("pragma circom 2.0.0;\n// a second file which defines the same name, longer than the first one, with a comment in front: ü ü ü ü ü ü ü ü ü ü\n"
                  "function sq%d(x) { return x * x; }\n" % k) + \
                 ("function %s(width, depth) { return width + depth; }\n" % nm if k % 3 == 0 else
                  "template %s(width, depth) { signal input in; signal output out; out <== in * sq%d(width + depth); }\n" % (nm, k))
            pa = wd.write("dup%d/a.circom" % k, fa.encode("utf-8"))
            pb = wd.write("dup%d/b.circom" % k, fb.encode("utf-8"))
            for order in ([pa, pb], [pb, pa]):
                dup_projects.append((nm, {pa: fa.encode("utf-8"), pb: fb.encode("utf-8")}, {"inputs": order, "libs": [], "curve": "BN254"}))
        for (nm, sources, req), rep in zip(dup_projects, vlib.analyze([d[2] for d in dup_projects])):
            if "crash" in rep:
                continue
            dups = [r for r in vlib.reports_of(rep) if (r["message"] or "").startswith("Duplicated function or template")]
            if not dups:
                bad_labels += 1
                ctx.violation("bad-label duplicate-missing", {"stage": "L1 label audit, two named files", "files": {k: v.decode() for k, v in sources.items()}, "inputs": req["inputs"],
                                                              "why": "no report about the duplicated name", "broken": None})
            for r in dups:
                n_reports += 1
                for l in r["primary"] + r["secondary"]:
                    n_labels += 1
                    why = audit_label(l, None, sources)
                    if why is None:
                        b = sources[l["file"]]
                        before = b[:l["start"]].decode("utf-8", "replace")
                        under = b[l["start"]:l["end"]].decode("utf-8", "replace")
                        if "first definition" in l["label"]:
                            if not re.search(r"(?:template|function)\s+%s\s*\($" % nm, before):
                                why = "the label speaks about the parameters of the first definition of `%s` but stands behind %r in %s" % (nm, before[-30:], os.path.basename(l["file"]))
                        elif not re.match(r"(?:template|function)\s+%s\b" % nm, under):
                            why = "the label speaks about the name `%s` but covers %r" % (nm, under[:40])
                    if why:
                        bad_labels += 1
                        ctx.violation("bad-label duplicate", {"stage": "L1 label audit, two named files", "files": {k: v.decode() for k, v in sources.items()}, "inputs": req["inputs"],
                                                              "report": r, "label": l, "why": why, "broken": None})
        # (iii) what the user sees: line:column printed by the real binary and the SARIF regions, against positions
        # recomputed from the original bytes of the labels collected in-process
        cli = vlib.build_cli()
        nbin = 25 if ctx.tier == "quick" else 250
        extra = [
            "pragma circom 2.0.0;\n/* é */ template T() {\n  signal input a;\n  signal input b;\n  signal output c;\n  c <--\n     a / b;\n  if (1 ==\n      1) {\n    log(a);\n  }\n}\n",
            "pragma circom 2.0.0;\r\ntemplate T(n,\r\n   m) {\r\n  signal input a;\r\n  signal output c;\r\n  var x =\r\n    n +\r\n    1;\r\n  c <-- a *\r\n a;\r\n}\r\n",
        ]
        jobs = []
        for k, t in enumerate(extra):
            q = wd.write("x%d/main.circom" % k, t.encode("utf-8"))
            jobs.append((q, t, vlib.analyze([{"inputs": [q], "libs": [], "curve": "BN254"}])[0]))
        for (p, text), rep in list(zip(metas, replies))[:nbin]:
            jobs.append((p, text, rep))
        n_bin = 0
        n_regions = 0

        def runbin(job):
            p, text, rep = job
            sar = p + ".sarif"
            return rl.run_cli(cli, {"inputs": [p], "libs": [], "curve": "BN254"}, level="info", sarif=sar, timeout=60), sar
        for (p, text, rep), (o, sar) in zip(jobs, rl.pmap(runbin, jobs)):
            if "crash" in rep or o["rc"] not in (0, 1):
                continue
            n_bin += 1
            src = text.encode("utf-8")
            want_pos = collections.Counter()
            want_regions = collections.Counter()
            for r in vlib.reports_of(rep):
                if r["primary"]:
                    l = r["primary"][0]
                    want_pos[rl.line_col(src, l["start"])] += 1
                for l in r["primary"] + r["secondary"]:
                    want_regions[(r["id"],) + rl.line_col(src, l["start"]) + rl.line_col(src, l["end"])] += 1
            got_pos = collections.Counter((int(a), int(b)) for _, a, b in o["positions"])
            got_regions = collections.Counter()
            try:
                sj = json.load(open(sar))
                for res in sj["runs"][0]["results"]:
                    for loc in res.get("locations", []) + res.get("relatedLocations", []):
                        rg = loc["physicalLocation"]["region"]
                        got_regions[(res["ruleId"], rg["startLine"], rg["startColumn"], rg["endLine"], rg["endColumn"])] += 1
            except Exception as e:
                got_regions = None if want_regions else collections.Counter()
            n_regions += sum(want_regions.values())
            if got_pos != want_pos:
                bad_labels += 1
                ctx.violation("displayed-position", {"stage": "L1 line:column printed by the binary vs positions recomputed from the original bytes", "file_text": text,
                                                     "only_printed": sorted((got_pos - want_pos).elements())[:5], "only_expected": sorted((want_pos - got_pos).elements())[:5], "broken": None})
            elif got_regions != want_regions:
                bad_labels += 1
                ctx.violation("sarif-region", {"stage": "L1 SARIF regions vs positions recomputed from the original bytes", "file_text": text,
                                               "only_sarif": sorted((got_regions - want_regions).elements())[:5] if got_regions is not None else "no readable SARIF file",
                                               "only_expected": sorted((want_regions - (got_regions or collections.Counter())).elements())[:5], "broken": None})
        cov_bin = (n_bin, n_regions)
    if not ok:
        ctx.violation("theorem " + ";".join(failing)[:200], {"broken": "theorem", "failing": failing}, no_input=True)
    cov = ctx.coverage
    cov["binary_runs_with_sarif"], cov["sarif_regions_compared"] = cov_bin
    cov["evaluations"] = len(texts) + nprog
    cov["distinct_nontrivial"] = len(set(texts)) + n_labels
    cov["rule"] = ("stripper: the C05 input set (all short strings + random fragments) checked against the byte-alignment predicate; "
                   "pipeline: %d generated projects (plain / comments of every shape spliced in / CRLF / multi-byte header and trailer, "
                   "some ending in a parse error or an unterminated comment after multi-byte text); every label of every report audited "
                   "(file read, start<=end<=len, UTF-8 boundaries, quoted identifier present under the primary label)" % nprog)
    cov["labels_audited"] = n_labels
    cov["reports_seen"] = n_reports
    cov["report_ids_seen"] = by_id
    cov["bad_labels"] = bad_labels
    cov["bad_alignment"] = bad_align
    cov["samples"] = samples or [{"text": texts[100]}]
    ctx.assumptions += ["LALRPOP's @L/@R positions and codespan's line/column rendering are exercised, not modelled",
                        "'points at the construct it talks about' is checked through the quoted-identifier rule for ids %s only" % sorted(IDENT_IN_LABEL)]


def replay(ctx, path):
    r = json.load(open(path))
    print(json.dumps(r, indent=1)[:3000])
    ctx.coverage["evaluations"] = 1
