"""C10 — lexical scoping and shadowing. Theorems: Props/C10.lean (the renamer refines lexical
resolution on every event sequence; renaming is injective on declarations; shadow reports =
specified set; SSA key injective). Tie: for generated definitions with heavy redeclaration
patterns (nested/sibling scopes, `x` next to `x_0`, parameters redeclared as locals, uses before
and after inner declarations) the (name, suffix) of every variable occurrence in the real
pre-SSA CFG is compared (L2) with the Lean model of unique_vars.rs run on the real AST and (L1)
against lexical resolution: same key <=> same declaration; the CS0001/CS0002 reports of the real
pipeline are compared with the specified shadowing set."""
import collections
import json
import re
import vlib
import gen
from checks import liftlib

HAND = [
    "function f(x) { var y = 1; if (x < y) { var x = 3; y = x; } return x + y; }",
    "function g(m) { var n = 1; if (m < n) { var x = 1; n = x; } else { var x = 2; n = x; } return n; }",
    "function f(c) { var x = 1; var x_0 = 5; if (c) { var x = 2; return x_0 + x; } return x; }",
    "function f(c) { var x = 1; { y = x; var x = 2; z = x; } return x; }",
    "function f(c) { var x = 1; { var x = 2; { var x = 3; c = x; } c = x; } return x; }",
    "function f(c) { { var x = 1; c = x; } { var x = 2; c = x; } var x = 3; return x; }",
    "function f(c) { var c = 2; return c; }",
    "function f(c) { for (var i = 0; i < 2; i++) { var i = 5; c += i; } for (var i = 0; i < 3; i++) { c += i; } return c; }",
    "function f(c) { var a[2]; a[0] = 1; { var a[3]; a[c] = 2; c = a[0]; } return a[0]; }",
    "function f(c) { var x = x + 1; return x; }",
    "function f(c) { var x = 1; if (c) { var x = x + 1; c = x; } return x; }",
    "template T(n) { signal input x; signal output y; var n = 3; component c = U(n); { var c = 1; y <== x * c; } }",
    "function f(x_0, x) { var x_1 = 1; { var x = 2; var x_0 = 3; x_1 = x + x_0; } return x_1 + x + x_0; }",
]


def occurrences(cfg):
    """(start-end, name) -> set of suffixes, from the real pre-SSA CFG dump"""
    occ = collections.defaultdict(set)

    def walk(e):
        if not isinstance(e, list) or not e:
            return
        tag = e[0]
        if tag in ("var",):
            m, v = e[1], e[2]
            occ[("%s-%s" % (m[1], m[2]), v[1])].add(v[2])
        elif tag in ("acc", "upd"):
            m, v = e[1], e[2]
            occ[("%s-%s" % (m[1], m[2]), v[1])].add(v[2])
        for x in e[1:]:
            walk(x)

    for b in cfg[5]:
        for st in b[5]:
            body = st[1]
            m = body[1]
            loc = "%s-%s" % (m[1], m[2])
            if body[0] == "decl":
                for v in body[2]:
                    occ[(loc, v[1])].add(v[2])
            if body[0] == "sub":
                occ[(loc, body[2][1])].add(body[2][2])
            walk(body)
    return occ


def run(ctx):
    vlib.build_harness()
    ok, failing = vlib.theorem_gate(ctx, ["C10"])
    n = 300 if ctx.tier == "quick" else 4000
    srcs = list(HAND)
    stats = collections.Counter()
    for k in range(n):
        g = gen.Gen(ctx.rng, shadow=True, max_depth=3, max_stmts=7)
        if k % 2 == 0:
            toks, _ = g.function("f%d" % k)
        else:
            toks, _, _, _ = g.template("T%d" % k)
        srcs.append(gen.render(toks))
        for kk, v in g.stats.items():
            if kk in ("shadowing-decl", "suffix-lookalike"):
                stats[kk] += v
    obs = liftlib.observe(srcs)
    reqs, meta = [], []
    for src, o in zip(srcs, obs):
        if "ast" not in o or "crash" in o:
            continue
        reqs.append("uniq " + vlib.sexp(o["ast"]))
        meta.append((src, o))
    out = vlib.run_model(reqs)
    l1 = l2 = 0
    samples = []
    ssa_jobs = []
    for (src, o), line in zip(meta, out):
        parts = line.split(" # ")
        if len(parts) != 4:
            ctx.violation("model-output", {"source": src, "model": line[:300], "broken": "driver"}, no_input=True)
            continue
        occs = [t.split(":") for t in parts[0].split()] if parts[0].strip() else []
        shadow_model = sorted(parts[1].split())
        shadow_spec = sorted(parts[2].split())
        collision = parts[3].strip() == "true"
        stats["definitions"] += 1
        stats["occurrences"] += len(occs)
        stats["shadowing declarations (spec)"] += len(shadow_spec)
        # ---- parameter collision --------------------------------------------------------------
        real_collision = "cfg" not in o and "declared multiple times" in json.dumps(o.get("reports", [])) or \
            ("cfg_error" in o and "Multiple parameters" in o["cfg_error"])
        if collision != bool(real_collision):
            l1 += 1
            ctx.violation("parameter-collision", {"stage": "L1 repeated parameter names are reported", "source": src, "specified": collision,
                                                  "implementation": o.get("cfg_error"), "broken": None})
            continue
        if "cfg" not in o:
            stats["not lifted"] += 1
            continue
        real = occurrences(o["cfg"])
        # ---- L1: same key <=> same declaration (on the REAL keys) ------------------------------
        key_of_decl, decl_of_key = {}, {}
        bad = None
        for loc, name, suffix, decl in occs:
            rs = real.get((loc, name))
            if rs is None:
                continue   # occurrence not materialised in the CFG (e.g. anonymous-component names)
            if decl == "-":
                continue   # undeclared name: lexical resolution says nothing
            for rsuf in rs:
                key = (name, rsuf)
                if key_of_decl.setdefault(decl, key) != key:
                    bad = "two occurrences of declaration %s are renamed differently: %s vs %s" % (decl, key_of_decl[decl], key)
                if decl_of_key.setdefault(key, decl) != decl:
                    bad = "occurrences of different declarations (%s, %s) share the name %s" % (decl_of_key[key], decl, key)
        if bad:
            l1 += 1
            ctx.violation("resolution " + bad[:50], {"stage": "L1 renaming respects lexical resolution", "source": src, "problem": bad, "broken": None})
            continue
        # ---- L1: shadow reports -----------------------------------------------------------------
        real_shadow = []
        for r in o.get("reports", []):
            if r["id"] == "CS0001":
                # labels carry no file (single definition): take ranges from the report dump
                real_shadow.append(r)
        # `lift` reports have no file ids, so labels are empty; fall back to counting
        if len(real_shadow) != len(shadow_spec):
            l1 += 1
            ctx.violation("shadow-reports", {"stage": "L1 one shadowing warning per redeclaration of a visible name", "source": src,
                                             "specified": shadow_spec, "implementation_count": len(real_shadow), "broken": None})
            continue
        # ---- L2: model keys = real keys ----------------------------------------------------------
        div = None
        for loc, name, suffix, decl in occs:
            rs = real.get((loc, name))
            if rs is not None and rs != {suffix} and not (len(rs) > 1 and suffix in rs):
                div = (loc, name, suffix, sorted(rs))
        if div or shadow_model != shadow_spec:
            l2 += 1
            ctx.violation("uniquevars-correspondence", {"stage": "L2", "source": src, "divergence": div, "shadow_model": shadow_model,
                                                        "shadow_spec": shadow_spec,
                                                        "broken": "correspondence UniqueVars.rename <-> ensure_unique_variables"}, no_input=True)
        elif len(samples) < 3 and shadow_spec:
            samples.append({"source": src[:300], "occurrences": parts[0][:300], "shadowing": shadow_spec})
        if "ssa" in o:
            ssa_jobs.append((src, o["ssa"]))
    # resolution survives SSA: every versioned read has a definition of the same (name, suffix, version) on every path (the
    # Lean-verified certificate checker of C14 on this property's shadowing / look-alike programs)
    res = vlib.run_model(["ssacheck " + vlib.sexp(x[1]) for x in ssa_jobs])
    for (src, _), r in zip(ssa_jobs, res):
        stats["SSA forms checked"] += 1
        if not r.startswith("ok"):
            l1 += 1
            ctx.violation("resolution-ssa " + r[:60], {"stage": "L1 every read refers to a definition of the same (name, suffix, version)", "source": src,
                                                      "checker": r[:300], "broken": None})
    # CS0001 locations through the full pipeline (file ids present): primary = shadowing declaration, secondary = shadowed one
    with vlib.Workdir("c10") as wd:
        reqs2, metas = [], []
        # the hand-written patterns, three declarations of one name of which the second is in a block that has been left when the third
        # one is reached (seeded change C10/m6: the third was reported as shadowing the second), and the generated definitions that shadow
        sib = ["function f(n) { var t = 100; var r = 0; if (n > 1) { var t = 200; r += t; } if (n > 2) { var t = 300; r += t; } return r + t; }",
               "template T(n) { signal input a; signal output b; var t = 1; for (var i = 0; i < n; i++) { var t = 2; } { var t = 3; { var t = 4; } } { var t = 5; } b <== a * t; }"]
        gen_shadow = [src for (src, o), line in zip(meta, out) if src not in HAND and len(line.split(" # ")) == 4 and len(line.split(" # ")[2].split()) >= 2]
        for i, src in enumerate(HAND[:9] + sib + gen_shadow[:(60 if ctx.tier == "quick" else 600)]):
            p = wd.write("h%d.circom" % i, "pragma circom 2.0.0;\n" + src + "\n")
            reqs2.append({"inputs": [p], "libs": [], "curve": "BN254"})
            metas.append(src)
        for src, rep in zip(metas, vlib.analyze(reqs2)):
            off = len("pragma circom 2.0.0;\n")
            got = sorted("%d-%d>%s" % (r["primary"][0]["start"] - off, r["primary"][0]["end"] - off,
                                       ("p" if False else "") + "%d-%d" % (r["secondary"][0]["start"] - off, r["secondary"][0]["end"] - off))
                         for r in vlib.reports_of(rep) if r["id"] == "CS0001" and r["primary"] and r["secondary"])
            o = liftlib.observe([src])[0]
            want = sorted(x.replace(">p", ">") for x in vlib.run_model(["uniq " + vlib.sexp(o["ast"])])[0].split(" # ")[2].split())
            stats["pipeline shadow reports"] += len(got)
            if got != want:
                l1 += 1
                ctx.violation("shadow-report-locations", {"stage": "L1 CS0001 primary/secondary locations", "source": src, "implementation": got,
                                                          "specified": want, "broken": None})
        # shadowing warnings of a template must be displayed whichever way its CFG first came to be built: directly, or on demand
        # because another template that instantiates it was analysed first (hash order: the run is repeated)
        cands = []
        for (src, o), line in zip(meta, out):
            parts = line.split(" # ")
            m = re.match(r"template (T\d+) \(([^)]*)\)", src)
            if m and len(parts) == 4 and parts[2].split() and "cfg" in o and parts[3].strip() != "true":
                nparams = len([x for x in m.group(2).split(",") if x.strip()])
                cands.append((src, m.group(1), nparams, len(parts[2].split())))
        projects = []
        for j, (src, name, nparams, nshadow) in enumerate(cands[:(5 if ctx.tier == "quick" else 30)]):
            args = ", ".join(str(i + 1) for i in range(nparams))
            outer = "template Outer%d() { signal input x; signal output y; component c = %s(%s); y <== x; }\n" % (j, name, args)
            projects.append(("chain", "pragma circom 2.0.0;\n" + src + "\n" + outer, nshadow))
            projects.append(("chain-outer-first", "pragma circom 2.0.0;\n" + outer + src + "\n", nshadow))
        projects.append(("mutual", "pragma circom 2.0.0;\n"
                         "template A(n) { signal input x; signal output y; var t = n; if (n) { var t = 2; y <== x * t; } else { y <== x; } component b = B(n); }\n"
                         "template B(n) { signal input x; signal output y; var u = n; { var u = 3; y <== x * u; } component a = A(n); }\n", 2))
        # a user identifier spelled like a name the desugaring invents (`<Template>_<line>_<offset>`; the file must not be reformatted,
        # the offset is part of the name): declared once, so no shadowing (F-C10-generated-names, repaired by add4a3b: the generated names are no identifiers)
        projects.append(("generated-name", "pragma circom 2.1.0;\n\ntemplate Sq() {\n    signal input in;\n    signal output out;\n    out <== in * in;\n}\n\n"
                         "template T(n) {\n    signal input a;\n    signal output b;\n    b <== Sq()(a);\n    if (n > 0) {\n        var Sq_12_173 = n;\n"
                         "        log(Sq_12_173);\n    }\n}\ncomponent main = T(1);\n", 0))
        # ... declared in an inner block in front of the call, and read afterwards: the statements desugaring generates bound to the
        # user's variable, whose value was then claimed never to be read (review 'latest2' f1)
        projects.append(("generated-name-inner", "pragma circom 2.1.0;\ntemplate Two() {\n    signal input a;\n    signal input b;\n    signal output p;\n    p <== a * b;\n}\n"
                         "template T(n) {\n    signal input x;\n    signal output y;\n    signal output z;\n    if (n > 0) {\n        var Two_14_255 = 7;\n"
                         "        y <== Two()(a <== x, b <== x);\n        z <== x * Two_14_255;\n    }\n}\n", 0))
        # a template whose name is the prefix of the generated loop counters (review 'latest3' f3: between add4a3b and f5059a1 its anonymous
        # component was named `anon_var@..` and skipped by the passes that skip those counters — the note about `in * 3` was lost)
        projects.append(("generated-name-template", "pragma circom 2.1.0;\ntemplate anon_var() { signal input a; signal output b; b <== a; }\n"
                         "template T() {\n    signal input in;\n    signal output out;\n    out <== anon_var()(in * 3);\n}\n", 0))
        # the same programs with the variable spelled differently (same length): the findings must be the same
        controls = {"generated-name": ("Sq_12_173", "Sx_12_173"), "generated-name-inner": ("Two_14_255", "Twx_14_255"), "generated-name-template": ("anon_var", "anon_war")}
        for kind, text, nshadow in list(projects):
            if kind in controls:
                projects.append((kind + "-control", text.replace(*controls[kind]), nshadow))
        reqs3, metas3 = [], []
        for j, (kind, text, nshadow) in enumerate(projects):
            p = wd.write("proj%d.circom" % j, text)
            for rep_i in range(4):
                reqs3.append({"inputs": [p], "libs": [], "curve": "BN254"})
                metas3.append((kind, text, nshadow))
        all3 = {}
        for (kind, text, nshadow), rep in zip(metas3, vlib.analyze(reqs3)):
            base_kind = kind[:-len("-control")] if kind.endswith("-control") else kind
            if base_kind in controls and "crash" not in rep:
                a, b = controls[base_kind]
                all3.setdefault(base_kind, {})[kind] = sorted((r["id"], r["message"].replace(a, "NAME").replace(b, "NAME"),
                                                               tuple(sorted((l["start"], l["end"]) for l in r["primary"]))) for r in vlib.reports_of(rep))
            got = len([r for r in vlib.reports_of(rep) if r["id"] == "CS0001"])
            stats["multi-template runs (%s)" % kind] += 1
            if got != nshadow:
                l1 += 1
                ctx.violation("shadow-reports-project %s" % kind, {"stage": "L1 shadowing warnings displayed for every template of a project", "files": {"main.circom": text},
                                                                   "specified_count": nshadow, "displayed_count": got, "broken": None})
        for base_kind, d in sorted(all3.items()):
            stats["generated-name programs compared with their respelling"] += 1
            if d.get(base_kind) != d.get(base_kind + "-control"):
                l1 += 1
                text = [t for k, t, _ in projects if k == base_kind][0]
                ctx.violation("shadow-reports-project %s respelled" % base_kind,
                              {"stage": "L1 the findings do not depend on how a variable that is declared once is spelled", "files": {"main.circom": text},
                               "name": controls[base_kind][0], "respelled": controls[base_kind][1], "findings": d.get(base_kind), "findings_respelled": d.get(base_kind + "-control"), "broken": None})
    # ---- names only matter through scoping: two declarations in scopes that do not overlap may share a spelling or not — every other
    #      finding of the definition (same report, same place) must be the same (audit C10 f1: a pass that remembers reported
    #      variables by their spelling dropped the finding about the second declaration)
    PATTERNS = [
        "template T(n) { signal input in; signal output out; if (n == 1) { var %(A)s = in; } signal %(B)s; %(B)s <-- in; out <== in; }",
        "template T(n) { signal input in; signal output out; { var %(A)s = 1; } { signal %(B)s; %(B)s <-- in * in; } out <== in; }",
        "template T(n) { signal input in; signal output out; for (var i = 0; i < 2; i++) { var %(A)s = i; } signal %(B)s; out <== in; }",
        "template T(n) { signal input in; signal output out; { var %(A)s = in; } { var %(B)s = in + 1; } out <== in; }",
        "template T(n) { signal input in; signal output out; if (n) { var %(A)s = 2; out <== in * %(A)s; } else { signal %(B)s; %(B)s <-- in; out <== in; } }",
        "function f(c) { if (c) { var %(A)s = 1; } else { var %(B)s = 2; } return c; }",
        "function f(c) { { var %(A)s = c; } { var %(B)s = c; c = %(B)s + 1; } return c; }",
        "template T(n) { signal input in; signal output out; { var %(A)s = n; } component %(B)s = U(); %(B)s.a <== in; out <== in; }",
        # two components in sibling scopes, the output of one of them unused (audit C10 round 2 f1: the unused-output pass compared source names)
        "template T(n) { signal input in; signal output out; if (n == 1) { component %(A)s = U(); %(A)s.a <== in; out <== %(A)s.b; } else { component %(B)s = U(); %(B)s.a <== in; out <== in; } }",
        "template T(n) { signal input in; signal output out; { component %(A)s = U(); %(A)s.a <== in; out <== %(A)s.b; } { component %(B)s = U(); %(B)s.a <== in; } }",
        "template T(n) { signal input in; signal output out; for (var i = 0; i < 1; i++) { component %(A)s = U(); %(A)s.a <== in; } component %(B)s = U(); %(B)s.a <== in; out <== %(B)s.b; }",
    ]
    with vlib.Workdir("c10b") as wd2:
        reqs4, metas4 = [], []
        for j, pat in enumerate(PATTERNS):
            # all of one length: positions stay comparable; the last two pairs: names that begin like the counters desugaring invents, which
            # are ordinary names unless they have exactly the generated form (review of fe62dce: the passes skipped every name with that prefix)
            for (a, b) in (("xx", "yy"), ("xx", "xx"), ("yy", "yy"), ("x_", "x_")) + ((("qnon_var_ab", "qnon_var_cd"), ("anon_var_ab", "anon_var_cd"), ("anon_var_1x", "anon_var_2_"),
                                                                                            ("qnon_var_1_2", "qnon_var_3_4"), ("anon_var_1_2", "anon_var_3_4"), ("anon_var_9_9", "anon_var_9_9")) if j < 8 else ()):
                text = "pragma circom 2.0.0;\ntemplate U() { signal input a; signal output b; b <== a; }\n" + pat % {"A": a, "B": b} + "\n"
                p = wd2.write("pat%d_%s_%s.circom" % (j, a, b), text)
                reqs4.append({"inputs": [p], "libs": [], "curve": "BN254"})
                metas4.append((j, a, b, text))
        base = {}
        for (j, a, b, text), rep in zip(metas4, vlib.analyze(reqs4)):
            key = collections.Counter((r["id"], tuple((l["start"], l["end"]) for l in r["primary"])) for r in vlib.reports_of(rep) if r["id"] not in ("CS0001",))
            stats["spelling-independence runs"] += 1
            if (a, b) in (("xx", "yy"), ("qnon_var_ab", "qnon_var_cd"), ("qnon_var_1_2", "qnon_var_3_4")):
                base[j] = (key, text)
            elif key != base[j][0]:
                l1 += 1
                ctx.violation("spelling-dependent-findings", {"stage": "L1 findings with distinct spellings vs the same spelling in non-overlapping scopes",
                                                              "files": {"distinct.circom": base[j][1], "same.circom": text},
                                                              "only_with_distinct_names": [list(k) for k in (base[j][0] - key)][:6],
                                                              "only_with_the_same_name": [list(k) for k in (key - base[j][0])][:6], "broken": None})
    if not ok:
        ctx.violation("theorem " + ";".join(failing)[:200], {"broken": "theorem", "failing": failing}, no_input=True)
    cov = ctx.coverage
    cov["evaluations"] = len(srcs)
    cov["distinct_nontrivial"] = stats["definitions"]
    cov["rule"] = ("hand-written shadowing patterns plus %d generated definitions with redeclaration in nested/sibling scopes and look-alike names "
                   "(`v1` next to `v1_0`); every variable occurrence compared; non-trivial = parses" % n)
    cov["distribution"] = dict(stats)
    cov["l1_failures"] = l1
    cov["l2_divergences"] = l2
    cov["samples"] = samples or [{"note": "no sample with shadowing"}]


def replay(ctx, path):
    r = json.load(open(path))
    print(json.dumps(r, indent=1)[:2500])
    ctx.coverage["evaluations"] = 1
