"""C06 — constant propagation is sound. Theorems: Props/C06.lean (operator transfer = Circom's field
semantics via C16; expression-level soundness of the annotation step). Tie: (L2) the value
annotation of every IR node of real SSA CFGs, for each of the three primes, equals the Lean
propagation model's; (L1) a reference interpreter executes the same SSA CFG under random
parameter/signal valuations: every value an annotated node takes must be the claimed constant;
CS0009 (`constant branch condition`) findings must agree with the observed decisions.
Claims that flow through a phi lacking an argument for an incoming path on which the variable is still
unassigned are tracked separately (hypothesis PhiComplete; repaired in 2fdaae7)."""
import collections
import json
import vlib
from checks import liftlib, proplib, interp

CURVES = {"BN254": None, "BLS12_381": None, "GOLDILOCKS": None}
# every infix operator on operands that are truth values or field elements known at analysis time (a mechanical mutant of the boolean
# connectives on two truth values survived until these were added: the generator rarely makes both sides of `&&` constant)
BOOL_OPERANDS = ["(1 == 1)", "(1 == 2)", "(3 < 2)", "(2 < 3)", "1", "0", "5"]
BOOL_OPS = ["&&", "||", "==", "!=", "<", ">", "<=", ">=", "+", "*", "-", "&", "|", "^"]
BOOL_HAND = ["function f(c) { if (%s %s %s) { return 1; } return 2; }" % (a, op, b) for op in BOOL_OPS for a in BOOL_OPERANDS for b in BOOL_OPERANDS
             if "==" in a or "<" in a or "==" in b or "<" in b] + \
            ["function f(c) { if (!%s) { return 1; } return 2; }" % a for a in BOOL_OPERANDS] + \
            ["function f(c) { var t = %s %s %s; var u = t ? 1 : 2; if (u == 1) { return 1; } return 2; }" % (a, op, b)
             for op in ("&&", "||") for a in BOOL_OPERANDS[:4] for b in BOOL_OPERANDS[:4]]

HAND = BOOL_HAND + [
    # a signal read by an earlier statement of the block that holds its only assignment (seeded C06 m7: the pre-pass kept the block of
    # the assignment but not its position), read later in that block, read in a loop that the assignment follows
    "template T() { signal input in; signal output out; signal flag; var seen = flag; flag <-- 1; if (seen == 1) { out <== in; } else { out <== 2 * in; } }",
    "template T() { signal input in; signal output out; signal flag; flag <-- 1; var seen = flag; if (seen == 1) { out <== in; } else { out <== 2 * in; } }",
    "template T() { signal input in; signal output out; signal flag; var seen = flag + 0; var again = seen; flag <-- 3; if (again == 3) { out <== in; } else { out <== 2 * in; } }",
    "template T(n) { signal input in; signal output out; signal flag; var seen = 0; for (var i = 0; i < 2; i++) { seen = seen + flag; } flag <-- 1; if (seen == 2) { out <== in; } else { out <== 0; } }",
    # a ternary whose condition is a known field element other than 0 and 1 (seeded C06 m8)
    "function f(c) { var flags = 6; var w = (flags & 4) ? 8 : 16; if (w == 16) { return 1; } return 2; }",
    "function f(c) { var w = 5 ? 8 : 16; var v = 0 ? 8 : 16; if (w == v) { return 1; } return 2; }",
    "function f(c) { var x; if (c) { x = 1; } if (x == 1) { return 1; } return 2; }",
    "function f(c) { var x = 0; if (c) { x = 1; } if (x == 1) { return 1; } return 2; }",
    "function f(c) { var x = 3; var y = x * 2 + 1; if (y == 7) { return 1; } return 2; }",
    "function f(c) { var x = 1; while (c < 3) { c++; } if (x == 1) { return c; } return 2; }",
    "function f(c) { var x = 1; while (c < 3) { x = 1; c++; } if (x == 1) { return c; } return 2; }",
    "function f(c) { var x = 1; while (c < 3) { x = x + 1; c++; } if (x == 1) { return c; } return 2; }",
    "function f(c) { var found = 0; for (var i = 0; i < 3; i++) { if (c == i) { found = 1; } } if (found == 0) { return 1; } return 2; }",
    "function f(c) { var t = 0; for (var i = 0; i < 2; i++) { for (var j = 0; j < 2; j++) { t = t + c; } } if (t == 0) { return 1; } return 2; }",
    "function f(c) { var t = 5; var i = 0; while (i < 2) { if (c) { if (i == 1) { t = 6; } } i++; } if (t == 5) { return 1; } return 2; }",
    "function f(c) { var a = 1; var b = 1; while (c < 4) { if (c == 2) { a = b + 1; } else { b = a; } c++; } if (a == 1) { return 1; } return b; }",
    "function f(c) { if ((~0) == 0) { return 1; } return 2; }",
    "function f(c) { if ((1 << 300) == 0) { return 1; } return 2; }",
    "function f(c) { if ((5 % 0) == 0) { return 1; } return 2; }",
    "function f(c) { if ((0 - 1) > 0) { return 1; } return 2; }",
    "function f(c) { if ((1 << 253) < 0) { return 1; } return 2; }",
    "function f(c) { var a = 10944121435919637611123202872628637544274182200208017171849102093287904247809; if (a > 0) { return 1; } return 2; }",
    "function f(c) { var t = c ? 1 : 1; if (t == 1) { return 1; } return 2; }",
    "function f(c) { var t = 1 ? 2 : c; if (t == 2) { return 1; } return 2; }",
    "function f(c) { var x = 5; { var x = 6; if (x == 6) { c = 1; } } if (x == 5) { return c; } return 2; }",
    "template T(n) { signal input in; signal output out; var k = 253; component nb = Num2Bits(k); nb.in <== in; out <== nb.out[0]; }",
    "template T(n) { signal input in; signal output out; var k = 254; component nb = Num2Bits(k + 0); nb.in <== in; out <== nb.out[0]; }",
    "template T(n) { signal input in; signal output out; signal s; s <== 5; if (s == 5) { out <== in; } else { out <== 0; } }",
    # joins of three and more edges with a local still unassigned on one of them, the others carrying equal constants
    "function f(a, b) { var x; if (a) { x = 5; if (b) { x = 2 + 3; } } if (x == 5) { return 1; } return 2; }",
    "function f(a, b) { var x; if (a) { x = 1; } else { if (b) { x = 1; } } if (x == 1) { return 1; } return 2; }",
    "function f(n, c) { var acc; var i = 0; while (i < n) { acc = 7; i += 1; if (c) { acc = 3 + 4; } } if (acc == 7) { return 1; } return 2; }",
    "function f(a, b) { var x; var y = 0; if (a) { x = 4; if (b) { x = 4; if (a == 2) { x = 2 * 2; } } } y = x + 1; if (y == 5) { return 1; } return 2; }",
    "function f(a, b) { var x; for (var i = 0; i < 2; i++) { if (a) { x = 9; } else { if (b) { x = 9; } } } if (x == 9) { return 1; } return 2; }",
    # literals that are not smaller than the prime (the three primes and a 64-bit mask, which exceeds the Goldilocks prime)
    "function f(c) { var s = 21888242871839275222246405745257275088548364400416034343698204186575808495617 ? 1 : 2; if (s == 2) { return 1; } return 2; }",
    "function f(c) { var s = 52435875175126190479447740508185965837690552500527637822603658699938581184513 ? 1 : 2; if (s == 2) { return 1; } return 2; }",
    "function f(c) { if ((0xFFFFFFFFFFFFFFFF >> 32) == 0) { return 1; } return 2; }",
    "function f(c) { var a = 21888242871839275222246405745257275088548364400416034343698204186575808495618; if ((a & 1) == 1) { return 1; } if ((2 ** a) == 2) { return 3; } return 2; }",
    "function f(c) { var a = 18446744069414584321 + 2; if ((18446744069414584323 >> 1) == 1) { return 1; } if (a == 2) { return 3; } return 2; }",
    # a signal whose only assignment is not on every path to the read (audit C06 f1): unassigned, it is 0 in the witness
    "template T() { signal input in; signal output out; signal s; if (in == 0) { s <-- 1; } if (s == 1) { out <-- 2; } else { out <-- 3; } }",
    "template T() { signal input in; signal output out; signal s; var k = 0; if (s == 1) { k = 5; } else { k = 6; } s <== 1; out <-- k; }",
    "template T(n) { signal input in; signal output out; signal s; for (var i = 0; i < n; i++) { if (i == 1) { s <-- 4; } } out <-- (s == 4) ? in : 0; }",
    "template T() { signal input in; signal output out; signal s; s <== 7; if (in == 0) { out <-- s + 1; } else { out <-- (s == 7) ? 1 : 0; } }",
    # a signal assigned by two statements on different paths: constant on one, not on the other
    "template T(n) { signal input in; signal output out; signal s; if (n == 1) { s <== 1; } else { s <== in; } if (s == 1) { out <== in; } else { out <== 0; } }",
    "template T(n) { signal input in; signal output out; signal s; if (n == 1) { s <== in; } else { s <== 1; } if (s == 1) { out <== in; } else { out <== 0; } }",
    "template T(n) { signal input in; signal output out; signal s; if (n == 1) { s <-- 3; } else { if (n == 2) { s <-- in * 2; } else { s <-- 3; } } out <== (s == 3) ? in : 0; }",
    "template T(n) { signal input in; signal output out; signal s; if (n == 1) { s <== 2; } else { s <== 2; } if (s == 2) { out <== in; } else { out <== 0; } }",
    "template T(n) { signal input in; signal output out; signal s; if (n == 1) { s <== 2; if (s == 2) { out <== in; } else { out <== 1; } } else { s <== in; out <== 0; } }",
    "template T(n) { signal input in; signal output out; signal s; var k = 0; if (n == 1) { s <== 4; k = s + 1; } else { s <== in; k = s + 1; } if (k == 5) { out <== in; } else { out <== 0; } }",
]


def phi_taint(ssa, incomplete):
    """variables (name, suffix, version) whose value depends on an incomplete phi"""
    tainted = set()
    for t in incomplete:
        name, ver = t.rsplit("@", 1)
        n, _, sfx = name.partition(".")
        tainted.add((n, sfx or "-", ver))

    def mentions(e):
        if isinstance(e, list):
            if e and e[0] == "v" and len(e) == 4 and (e[1], e[2], e[3]) in tainted:
                return True
            return any(mentions(x) for x in e)
        return False
    changed = True
    while changed:
        changed = False
        for b in ssa[5]:
            for st in b[5]:
                body = st[1]
                if body[0] == "sub":
                    k = (body[2][1], body[2][2], body[2][3])
                    if k not in tainted and mentions(body[4]):
                        tainted.add(k)
                        changed = True
    return tainted, mentions


def claims(ssa):
    """(start, end, tag) -> claimed value, and the node, for every annotated expression node"""
    out = {}

    def walk(e):
        if not isinstance(e, list) or not e:
            return
        if isinstance(e[0], list):
            for x in e:
                walk(x)
            return
        if e[0] in proplib.EXPR_TAGS:
            m = e[1]
            if m[3] != "-":
                out[(m[1], m[2], e[0])] = (m[3], e)
            for x in e[2:]:
                walk(x)
        elif e[0] in ("idx", "exp"):
            walk(e[1])
        elif e[0] in ("m", "v", "cmp", "str"):
            return
        else:
            for x in e[1:]:
                walk(x)
    for b in ssa[5]:
        for st in b[5]:
            walk(st[1])
    return out


def matches(claim, val, p):
    if claim[0] == "b":
        return val == int(claim[1])
    return val == int(claim[1]) % p


def run(ctx):
    vlib.build_harness()
    ok, failing = vlib.theorem_gate(ctx, ["C06"])
    rc, out, err = vlib.sh([vlib.HARNESS_BIN, "primes"])
    primes = {}
    for l in out.split("\n"):
        if l.strip():
            name, p, _ = l.split()
            primes[name.upper()] = int(p)
    n = 150 if ctx.tier == "quick" else 2000
    nval = 6 if ctx.tier == "quick" else 20
    srcs = HAND + [d[0] for d in liftlib.gen_definitions(ctx.rng, n, max_stmts=6)]
    # templates with signal arrays assigned element by element in loops, component ports and tuple forms (the generator of C08): the shapes
    # the statement generator above does not produce
    from checks import c08 as _c08
    srcs += [_c08.gen_template(ctx.rng, k) for k in range(n // 8)]
    stats = collections.Counter()
    l1 = l2 = 0
    samples = []
    for curve, p in primes.items():
        obs = liftlib.observe(srcs, curve=curve)
        import re

        def literals_in_range(src):
            # the property speaks about literals up to the field size: programs with larger literals are skipped for this prime
            for t in re.findall(r"\b0x[0-9a-fA-F]+\b|\b\d+\b", src):
                if (int(t, 16) if t.startswith("0x") else int(t)) >= p:
                    return False
            return True
        # a literal that is not smaller than the prime is read modulo the prime (the compiler reduces literals while lexing; audit C16 f1, f2)
        pairs = [(s, o) for s, o in zip(srcs, obs) if "ssa" in o]
        res = proplib.model_annotations([o["ssa"] for s, o in pairs], [p] * len(pairs))
        pc = vlib.run_model(["phicomplete " + vlib.sexp(o["ssa"]) for s, o in pairs])
        ph = vlib.run_model(["pathhyps " + vlib.sexp(o["ssa"]) for s, o in pairs])
        for (src, o), (fv, fd, anns), phic, hyp in zip(pairs, res, pc, ph):
            stats["SSA CFGs x primes"] += 1
            # hypotheses of the path-level theorem C06_path_sound, evaluated on the real dump
            if hyp.startswith("singledef"):
                stats["CFGs meeting SingleDef (C06_path_sound applies)"] += 1
                if not phic.startswith("incomplete"):
                    stats["CFGs meeting SingleDef and PhiComplete"] += 1
            else:
                versioned = [t for t in hyp.split(" | ")[0].split()[1:] if "." in t]
                stats["CFGs not meeting SingleDef (an unversioned variable both assigned whole and updated element-wise: outside the path theorem)"] += 1
                if versioned:
                    # a versioned (SSA) local with two definitions: clause (a) of C14 is broken
                    ctx.violation("ssa-local-defined-twice", {"stage": "hypothesis SingleDef of C06_path_sound on a real SSA dump",
                                                              "source": src, "curve": curve, "variables": versioned})
            ssa = o["ssa"]
            real = proplib.flatten_cfg(ssa)
            if [a.split("/")[0] for a in real] != [a.split("/")[0] for a in anns]:
                l2 += 1
                diffs = [(i, a, b) for i, (a, b) in enumerate(zip(real, anns)) if a.split("/")[0] != b.split("/")[0]][:5]
                # the correspondence is broken: the interpreter below searches this program for a concrete false claim
                l2_bad = {"stage": "L2 value annotations: real vs Lean model", "source": src, "curve": curve,
                          "first_differences": diffs, "broken": "correspondence Propagate.valLoop <-> Cfg::propagate_values"}
            else:
                l2_bad = None
            cl = claims(ssa)
            stats["value claims"] += len(cl)
            incomplete = phic.split()[1:] if phic.startswith("incomplete") else []
            tainted, mentions = phi_taint(ssa, incomplete) if incomplete else (set(), None)
            if incomplete:
                stats["CFGs with an incomplete phi"] += 1
            for k in range(nval):
                rng = ctx.rng
                cache = {}

                def inputs(key, cache=cache, rng=rng, p=p):
                    if key not in cache:
                        m = rng.below(6)
                        cache[key] = [0, 1, 2, p - 1][m] if m < 4 else rng.bits(p.bit_length()) % p
                    return cache[key]
                it, abort = interp.run(ssa, p, inputs, max_steps=400)
                stats["interpreter runs"] += 1
                stats["aborted runs (div by zero, call, assert, ...)"] += abort is not None
                if abort is not None and abort.startswith("invalid"):
                    # not an execution of the program (Circom itself stops: division by zero, failed assertion,
                    # signal assigned twice / read before assignment): its prefix carries no obligation
                    stats["invalid executions discarded"] += 1
                    continue
                # the same valuation on the CFG *before* SSA conversion (unversioned variables, no phi): an oracle that does
                # not depend on the SSA construction, so a wrong phi placement / stale version shows up as a false claim
                merged = {k: (set(v), "SSA CFG") for k, v in it.node_values.items()}
                if "cfg" in o:
                    it0, abort0 = interp.run(o["cfg"], p, inputs, max_steps=400)
                    stats["pre-SSA interpreter runs"] += 1
                    if not (abort0 is not None and abort0.startswith("invalid")):
                        for k0, v0 in it0.node_values.items():
                            if k0 in merged:
                                merged[k0] = (merged[k0][0] | set(v0), "SSA CFG / pre-SSA CFG")
                            else:
                                merged[k0] = (set(v0), "pre-SSA CFG")
                for key, (vals, origin) in merged.items():
                    if key in cl:
                        claim, node = cl[key]
                        for v in vals:
                            if isinstance(v, tuple):
                                continue
                            stats["claim evaluations compared"] += 1
                            if not matches(claim, v, p):
                                known = bool(incomplete) and (mentions(node) or node[0] == "phi")
                                sig = "false-constant" + (" PhiComplete" if known else "")
                                l1 += 0 if known else 1
                                ctx.violation(sig, {"stage": "L1 reference interpreter (%s)" % origin, "source": src, "curve": curve, "inputs": {str(a): str(b) for a, b in cache.items()},
                                                    "node": [key[0], key[1], key[2]], "claimed": claim, "observed": str(v),
                                                    "hypothesis_PhiComplete": not incomplete, "incomplete_phis": incomplete,
                                                    "broken": l2_bad["broken"] if l2_bad else None})
                                if not known:
                                    l2_bad = None
            if l2_bad:
                ctx.violation("value-correspondence", l2_bad, no_input=True)
            if len(samples) < 2 and cl:
                samples.append({"source": src[:200], "curve": curve, "claims": len(cl)})
    if not ok:
        ctx.violation("theorem " + ";".join(failing)[:200], {"broken": "theorem", "failing": failing}, no_input=True)
    cov = ctx.coverage
    cov["evaluations"] = stats["interpreter runs"]
    cov["distinct_nontrivial"] = stats["SSA CFGs x primes"]
    cov["rule"] = ("%d hand-written cases (partial assignment before a join, loops, shadowing, literals around p/2, undefined arithmetic, ternaries, "
                   "Num2Bits sizes, constant signals) plus %d generated definitions, for each of the three primes; %d random valuations each "
                   "(parameters and input signals from {0,1,2,p-1,random}); non-trivial = converted to SSA" % (len(HAND), n, nval))
    cov["distribution"] = dict(stats)
    cov["l1_failures_not_known"] = l1
    cov["l2_divergences"] = l2
    cov["samples"] = samples or [{"note": "none"}]
    ctx.assumptions += ["the interpreter is a search oracle (Python transcription of Spec/Field.lean), not part of the proof",
                        "an intermediate or output signal that no statement has assigned on the path taken reads as 0 (the witness memory); a signal "
                        "assigned twice on one path ends the run (invalid execution)",
                        "literals >= p are read modulo p by the oracle (outside the property's range); unknown function calls, inline arrays and component "
                        "outputs abort a run"]


def replay(ctx, path):
    r = json.load(open(path))
    print(json.dumps(r, indent=1)[:2500])
    ctx.coverage["evaluations"] = 1
