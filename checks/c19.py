"""C19 — includes: each file once, cycles terminate, only named files reported on.
Theorems: Props/C19.lean on Model/Includes.lean (termination with n+1 iterations and stability,
each canonical file at most once, reads = reachable set, resolution order, errors = unresolved
includes of read files with their positions, user-input classification).
Tie: generated directory trees (several directories, `./`, `../`, absolute and bare spellings, file and
directory symlinks, cycles, self-includes, directory and single-file libraries in any order,
unparsable files, included directories, several named files under several spellings) are
materialised; the real parse_files + runner is run in-process and through the real binary.
 L1 (no model): no file twice in the file library; files read = reachable set of an independent
     resolver; every include error is located at its include statement; only definitions of named
     files are analysed and displayed.
 L2: the order of reads, the user-input flags and the ordered error list equal the Lean model's on
     the abstracted file system."""
import collections
import json
import os
import re
import vlib
from checks import runnerlib as rl

DIRS = ["", "sub", "sub/deep", "lib", "lib/x", "lib2"]


def file_text(i, includes, broken):
    inc = "".join('include "%s";\n' % s for s in includes)
    body = "template T%d() { signal input x; signal output y; var unused%d = %d; y <== x; }\n" % (i, i, i + 1)
    if broken:
        body = "template T%d( { signal }\n" % i
    return "pragma circom 2.0.0;\n" + inc + body


def gen_project(rng, k, big=False):
    nfiles = rng.below(4) + 2 + (rng.below(4) if big else 0)
    places = []
    for i in range(nfiles):
        d = rng.choice(DIRS)
        places.append((d + "/" if d else "") + "f%d.circom" % i)
    links = {}
    for j in range(rng.below(3)):
        d = rng.choice(DIRS[:4])
        tgt = rng.choice(places)
        link = (d + "/" if d else "") + "s%d.circom" % j
        links[link] = os.path.relpath(tgt, d or ".")
    dirlink = None
    if rng.chance(1, 3):
        dirlink = "ln"
        links["ln"] = rng.choice(["sub", "lib", "sub/deep"])
    libs = []
    if rng.chance(2, 3):
        libs.append(rng.choice(["lib", "./lib", "sub/../lib", "@abs:lib"]))
    if rng.chance(1, 3):
        cands = [p for p in places if p.startswith("lib2/")] or places
        libs.append(rng.choice(cands))
    if rng.chance(1, 4):
        libs.append(rng.choice(["sub", "lib/x", "./lib2"]))
    libs = rng.shuffle(libs)
    targets = places + [l for l in links if l.endswith(".circom")]
    incs = {}
    for i, p in enumerate(places):
        lst = []
        for _ in range(rng.below(4) + (1 if rng.chance(1, 2) else 0)):
            r = rng.below(20)
            here = os.path.dirname(p) or "."
            if r == 0:
                lst.append("nope%d.circom" % rng.below(3))
            elif r == 1:
                lst.append(rng.choice(["sub", "../" + (os.path.basename(here) if here != "." else "sub"), "."]))
            elif r == 2:
                lst.append("./" + os.path.basename(rng.choice(targets)))
            else:
                t = rng.choice(targets)
                form = rng.below(8)
                relp = os.path.relpath(t, here)
                if form == 0:
                    s = relp
                elif form == 1:
                    s = relp if relp.startswith(".") else "./" + relp
                elif form == 2:
                    s = os.path.basename(t)
                elif form == 3:
                    s = "@abs:" + t
                elif form == 4:
                    # path relative to a library directory
                    s = t[len("lib/"):] if t.startswith("lib/") else (t[len("sub/"):] if t.startswith("sub/") else os.path.basename(t))
                elif form == 5 and dirlink and t.startswith(links["ln"] + "/"):
                    s = os.path.relpath("ln/" + t[len(links["ln"]) + 1:], here)
                elif form == 6:
                    s = os.path.join(os.path.relpath(".", here), "sub", "..", t)
                else:
                    s = relp
                lst.append(s)
        incs[p] = lst
    broken = {p for p in places if rng.chance(1, 12)}
    binary = {p for p in places if rng.chance(1, 15)}
    ninp = rng.below(3) + 1
    inputs = []
    for _ in range(ninp):
        t = rng.choice(targets)
        form = rng.below(4)
        inputs.append(t if form == 0 else "./" + t if form == 1 else "sub/../" + t if form == 2 else t)
    return {"places": places, "links": links, "libs": libs, "incs": incs, "broken": sorted(broken), "binary": sorted(binary), "inputs": inputs}


HAND = [
    # the design's defect: a library directory spelled non-canonically, two spellings of one file
    {"places": ["main.circom", "lib/l.circom"], "links": {}, "libs": ["./lib"],
     "incs": {"main.circom": ["l.circom", "lib/l.circom", "./lib/../lib/l.circom"], "lib/l.circom": []}, "broken": [], "inputs": ["main.circom"]},
    # a library file that is also a named input must stay a user input
    {"places": ["main.circom", "lib/l.circom"], "links": {}, "libs": ["./lib"],
     "incs": {"main.circom": ["l.circom"], "lib/l.circom": ["../main.circom"]}, "broken": [], "inputs": ["main.circom", "lib/../lib/l.circom"]},
    # self include and a 3-cycle
    {"places": ["a.circom", "sub/b.circom", "sub/deep/c.circom"], "links": {}, "libs": [],
     "incs": {"a.circom": ["a.circom", "sub/b.circom"], "sub/b.circom": ["deep/c.circom", "./b.circom"], "sub/deep/c.circom": ["../../a.circom", "../b.circom"]},
     "broken": [], "inputs": ["a.circom"]},
    # diamond through a symlink, unresolved include, leading-dot include that only a library has
    {"places": ["a.circom", "sub/b.circom", "sub/c.circom", "lib/d.circom"], "links": {"sub/alias.circom": "../lib/d.circom"}, "libs": ["lib", "sub/c.circom"],
     "incs": {"a.circom": ["sub/b.circom", "sub/c.circom", "missing.circom", "./d.circom"], "sub/b.circom": ["alias.circom", "c.circom"], "sub/c.circom": ["d.circom", "c.circom"],
              "lib/d.circom": []}, "broken": [], "inputs": ["a.circom"]},
    # single-file library: matches the bare name only
    {"places": ["a.circom", "lib2/one.circom", "sub/b.circom"], "links": {}, "libs": ["lib2/one.circom"],
     "incs": {"a.circom": ["one.circom", "x/one.circom", "sub/b.circom"], "sub/b.circom": ["one.circom", "./one.circom"], "lib2/one.circom": []}, "broken": [], "inputs": ["a.circom"]},
    # an unparsable file's includes are not followed; a directory include
    {"places": ["a.circom", "b.circom", "c.circom"], "links": {}, "libs": [],
     "incs": {"a.circom": ["b.circom", "sub"], "b.circom": ["c.circom"], "c.circom": []}, "broken": ["b.circom"], "inputs": ["a.circom"], "mkdirs": ["sub"]},
    # an unreadable (non UTF-8) file: one error, located at the include statement; its includes are not followed
    {"places": ["a.circom", "b.circom", "c.circom"], "links": {}, "libs": [], "binary": ["b.circom"],
     "incs": {"a.circom": ["b.circom", "b.circom"], "b.circom": ["c.circom"], "c.circom": []}, "broken": [], "inputs": ["a.circom"]},
    # hidden files and dot-relative paths that only a library directory has; a library file given through a symbolic link
    {"places": ["a.circom", "lib/.hidden.circom", "lib/.priv/h.circom", "lib/common/x.circom", "store/real.circom"], "links": {"mylib.circom": "store/real.circom"},
     "libs": ["lib", "mylib.circom"],
     "incs": {"a.circom": [".hidden.circom", ".priv/h.circom", "./common/x.circom", "mylib.circom", "real.circom"], "lib/.hidden.circom": [], "lib/.priv/h.circom": [],
              "lib/common/x.circom": [], "store/real.circom": []}, "broken": [], "inputs": ["a.circom"]},
    # an unreadable file reached through a file that is itself only included, and an unreadable file that is named
    {"places": ["a.circom", "b.circom", "c.circom", "d.circom"], "links": {}, "libs": [], "binary": ["c.circom", "d.circom"],
     "incs": {"a.circom": ["b.circom"], "b.circom": ["c.circom", "nope.circom"], "c.circom": [], "d.circom": []}, "broken": [], "inputs": ["a.circom", "d.circom"]},
    # the same file named three times
    {"places": ["a.circom", "b.circom"], "links": {"s.circom": "a.circom"}, "libs": [],
     "incs": {"a.circom": ["b.circom"], "b.circom": ["a.circom"]}, "broken": [], "inputs": ["a.circom", "./a.circom", "s.circom", "b.circom"]},
]


def to_files(proj, base):
    def fix(s):
        return os.path.join(base, s[5:]) if s.startswith("@abs:") else s
    files = {}
    for i, p in enumerate(proj["places"]):
        m = re.search(r"(\d+)", os.path.basename(p))
        files[p] = file_text(int(m.group(1)) if m else 100 + i, [fix(s) for s in proj["incs"][p]], p in proj["broken"])
        if p in proj.get("binary", []):
            files[p] = b"pragma circom 2.0.0;\n// \xff\xfe\n" + files[p].encode()
    for l, t in proj["links"].items():
        files["@symlink:" + l] = t
    return files


def abstract(base, proj, texts):
    """independent resolver: canonical ids, include table, libraries"""
    ids, infos = {}, []

    def fid(path):
        c = os.path.realpath(path)
        if c not in ids:
            ids[c] = len(ids)
            infos.append(None)
        return ids[c]
    keys = {}

    def kid(s):
        return keys.setdefault(s, len(keys))
    inc_pos = {}
    work = []
    for p in proj["places"]:
        work.append(os.path.join(base, p))
    for p in work:
        fid(p)
    done = set()
    strings = set()
    # every file's include statements
    per_file = {}
    for p in proj["places"]:
        canon = os.path.realpath(os.path.join(base, p))
        text = texts[p] if isinstance(texts[p], str) else ""
        lst = []
        for m in re.finditer(r'include "([^"]*)";', text):
            lst.append((m.group(1), m.start(), m.end()))
            strings.add(m.group(1))
        per_file[canon] = (p, lst)
    libs = []
    for l in proj["libs"]:
        lp = os.path.join(base, l[5:] if l.startswith("@abs:") else l)
        if os.path.isdir(lp):
            es = []
            for s in sorted(strings):
                cand = os.path.join(lp, s)
                if os.path.isfile(cand):
                    es.append((kid(s), fid(cand)))
            libs.append(("d", es))
        elif lp.endswith(".circom") and os.path.exists(lp):
            c = os.path.realpath(lp)
            # a library file is known by the name it was given on the command line (it may be a symbolic link)
            libs.append(("f", fid(c), kid(os.path.basename(lp))))
    table = {}
    for canon, (p, lst) in per_file.items():
        rows = []
        for s, a, b in lst:
            cand = os.path.join(os.path.dirname(canon), s)
            rel = fid(cand) if os.path.isfile(cand) else None
            rows.append((rel, s.startswith("."), "/" in s, kid(s)))
        table[ids[canon]] = rows
        inc_pos[ids[canon]] = [(a, b) for _, a, b in lst]
    n = len(ids)
    canon_of = {v: k for k, v in ids.items()}
    readable, okk = {}, {}
    for i in range(n):
        c = canon_of[i]
        readable[i] = os.path.isfile(c) and per_file.get(c, ("",))[0] not in proj.get("binary", [])
        rel = per_file.get(c, (None, None))[0]
        okk[i] = readable[i] and rel is not None and rel not in proj["broken"]
    # the files given on the command line are read in the order of their canonical paths (component-wise, as `PathBuf` compares),
    # each once
    canon_inputs = sorted({os.path.realpath(os.path.join(base, s)) for s in proj["inputs"]}, key=lambda c: c.split(os.sep))
    inputs = [fid(c) for c in reversed(canon_inputs)]      # the model pops the last one first, like the stack of the code
    return {"ids": ids, "canon_of": canon_of, "libs": libs, "table": table, "inc_pos": inc_pos, "readable": readable, "ok": okk, "inputs": inputs, "n": len(ids)}


def model_line(ab):
    def lib(l):
        if l[0] == "d":
            return "d:" + ",".join("%d=%d" % e for e in l[1])
        return "f:%d:%d" % (l[1], l[2])
    files = []
    for i in range(ab["n"]):
        rows = ab["table"].get(i, []) if ab["ok"][i] else []
        files.append("%d:%s" % (1 if ab["ok"][i] else 0, ",".join("%s/%d/%d/%d" % ("-" if r[0] is None else r[0], r[1], r[2], r[3]) for r in rows)))
    return "includes %s %s %s" % (",".join(map(str, ab["inputs"])) or "-", ";".join(lib(l) for l in ab["libs"]) or "-", ";".join(files))


def parse_model(line):
    d = dict(t.split("=", 1) for t in line.split())
    lst = lambda s: [] if s in ("-", "") else [int(x) for x in s.split(",")]
    pairs = lambda t: [] if not t else [tuple(int(y) for y in x.split(".")) for x in t.split(",")]
    return {"wf": d["wf"] == "1", "stack": int(d["stack"]), "stable": d["stable"] == "1", "reads": lst(d["reads"]), "users": lst(d["users"]),
            "errors": pairs(d.get("errors")), "bad": pairs(d.get("bad"))}


def spec_resolve(ab, row):
    rel, dot, sep, key = row
    if rel is not None:
        return rel
    for l in ab["libs"]:
        if l[0] == "d":
            # the property: relative to the including file, then through the libraries — whatever the written path looks like
            for k, f in l[1]:
                if k == key:
                    return f
        elif not sep and l[2] == key:
            return l[1]
    return None


def spec_reach(ab):
    """L1 oracle: plain reachability"""
    def resolve(row):
        return spec_resolve(ab, row)
    seen, todo = set(), list(ab["inputs"])
    unresolved = set()
    while todo:
        f = todo.pop()
        if f in seen:
            continue
        seen.add(f)
        if not ab["ok"][f]:
            continue
        for idx, row in enumerate(ab["table"].get(f, [])):
            g = resolve(row)
            if g is None:
                unresolved.add((f, idx))
            else:
                todo.append(g)
    return seen, unresolved


def run(ctx):
    vlib.build_harness()
    ok, failing = vlib.theorem_gate(ctx, ["C19"])
    n = 150 if ctx.tier == "quick" else 2500
    stats = collections.Counter()
    samples = []
    l1 = l2 = 0
    projs = [dict(p) for p in HAND] + [gen_project(ctx.rng, k, big=(ctx.tier != "quick" or k % 3 == 0)) for k in range(n)]
    with vlib.Workdir("c19") as wd:
        reqs, abss, metas = [], [], []
        for k, proj in enumerate(projs):
            base = os.path.join(wd.path, "p%d" % k)
            files = to_files(proj, base)
            for d in proj.get("mkdirs", []) + ["sub"]:
                os.makedirs(os.path.join(base, d), exist_ok=True)
            req = rl.materialize(wd, "p%d" % k, {"files": files, "inputs": proj["inputs"],
                                                "libs": [l[5:] if l.startswith("@abs:") else l for l in proj["libs"]]})
            # links whose parent directory did not exist yet are created by materialize; dangling targets are allowed
            reqs.append({"inputs": req["inputs"], "libs": req["libs"], "curve": "BN254"})
            ab = abstract(base, proj, {p: files[p] for p in proj["places"]})
            abss.append(ab)
            metas.append((base, files))
        replies = vlib.analyze(reqs)
        mlines = vlib.run_model([model_line(ab) for ab in abss])
        for k, (proj, ab, rep, ml, (base, files)) in enumerate(zip(projs, abss, replies, mlines, metas)):
            stats["projects"] += 1
            rp = {"project": proj, "base_layout": sorted(files), "broken": None}
            if "crash" in rep or "timeout" in rep:
                l1 += 1
                ctx.violation("include-crash-or-hang", dict(rp, stage="L1 terminates", observed=str(rep)[:300]))
                continue
            real_files = [os.path.realpath(f["name"]) for f in rep["files"]]
            raw_names = [f["name"] for f in rep["files"]]
            stats["files read"] += len(real_files)
            stats["graphs with a cycle"] += 1 if has_cycle(ab) else 0
            problems = []
            # ---- L1 -------------------------------------------------------------------------------
            if len(set(real_files)) != len(real_files):
                dup = [x for x in set(real_files) if real_files.count(x) > 1]
                problems.append("file read twice: %s as %s" % (os.path.relpath(dup[0], base), [os.path.relpath(nm, base) for nm in raw_names if os.path.realpath(nm) == dup[0]]))
            seen, unresolved = spec_reach(ab)
            want_files = {ab["canon_of"][f] for f in seen if ab["readable"][f]}
            if set(real_files) != want_files:
                problems.append("files read %s, reachable %s" % (sorted(os.path.relpath(x, base) for x in set(real_files)), sorted(os.path.relpath(x, base) for x in want_files)))
            parse, batches = rl.real_batches(rep)
            def names_existing_file(r):
                q = r["message"].split("`")[1] if "`" in r["message"] else ""
                return os.path.isabs(q) and os.path.isfile(q)
            # an include that cannot be resolved names the path as written; a file that cannot be read names the canonical path
            inc_errs = [r for r in parse if r["message"].startswith("Failed to open file") and r["primary"] and not names_existing_file(r)]
            unlocated = [r for r in parse if r["message"].startswith("Failed to open file") and not r["primary"]]
            got_errs = []
            for r in inc_errs:
                l = r["primary"][0]
                c = os.path.realpath(l["file"])
                fidx = ab["ids"].get(c)
                pos = ab["inc_pos"].get(fidx, [])
                hit = [i for i, (a, b) in enumerate(pos) if l["start"] == a and b <= l["end"] <= (pos[i + 1][0] if i + 1 < len(pos) else len(files_text(files, proj, c, base)))]
                if len(hit) != 1:
                    problems.append("include error `%s` is not located at an include statement (%d-%d)" % (r["message"], l["start"], l["end"]))
                else:
                    got_errs.append((fidx, hit[0]))
            # a file that cannot be read: named on the command line, the error has no location; reached through an include, the
            # error is located at an include statement that names it (audit C19 f1: it had no location and was displayed although
            # the including file was itself only included)
            want_os = sorted(ab["canon_of"][f] for f in seen if not ab["readable"][f] and f in ab["inputs"])
            got_os = sorted(os.path.realpath(r["message"].split("`")[1]) for r in unlocated)
            if want_os != got_os:
                problems.append("unlocated file errors for %s, unreadable named files %s" % ([os.path.relpath(x, base) for x in got_os], [os.path.relpath(x, base) for x in want_os]))
            located_os = [r for r in parse if r["message"].startswith("Failed to open file") and r["primary"] and names_existing_file(r)]
            # one error at every include statement (of a file that was read and parsed) that refers to the unreadable file: which of
            # them is displayed is then a matter of the file filter alone, not of the order in which the files were met (audit C17 f1)
            # the include statements through which a file is reached from the named files: those that refer to it, those that refer to the
            # files they occur in unless these are named, and so on (audit C05 round 2: a broken file two includes deep was invisible)
            resolved = {(g, idx): spec_resolve(ab, row) for g in seen if ab["ok"][g] for idx, row in enumerate(ab["table"].get(g, []))}

            def chain_sites(bad):
                out = set()
                for t in bad:
                    reach, todo = {t}, [t]
                    while todo:
                        v = todo.pop()
                        if v in ab["inputs"]:
                            continue
                        for (g, idx), w in resolved.items():
                            if w == v:
                                out.add((g, idx, t))
                                if g not in reach:
                                    reach.add(g)
                                    todo.append(g)
                return out
            want_sites = chain_sites({t for t in resolved.values() if t is not None and not ab["readable"][t] and t not in ab["inputs"]})
            got_sites = set()
            for r in located_os:
                l = r["primary"][0]
                g = ab["ids"].get(os.path.realpath(l["file"]))
                pos = ab["inc_pos"].get(g, [])
                hit = [i for i, (a, b) in enumerate(pos) if l["start"] == a]
                if len(hit) != 1:
                    problems.append("file error `%s` is not located at an include statement (%d-%d)" % (r["message"][:60], l["start"], l["end"]))
                else:
                    got_sites.add((g, hit[0], ab["ids"].get(os.path.realpath(r["message"].split("`")[1]))))
            if want_sites != got_sites:
                problems.append("located file errors at %s, include statements that refer to an unreadable file %s" % (sorted(got_sites), sorted(want_sites)))
            # the same for an included file that is read but cannot be parsed (audit C05 f1): one error at every include statement
            got_psites = set()
            want_psites = chain_sites({t for t in resolved.values() if t is not None and ab["readable"][t] and not ab["ok"][t] and t not in ab["inputs"]})
            for r in parse:
                if r["message"].startswith("Failed to parse the included file") and r["primary"]:
                    l = r["primary"][0]
                    g = ab["ids"].get(os.path.realpath(l["file"]))
                    hit = [i for i, (a, b) in enumerate(ab["inc_pos"].get(g, [])) if l["start"] == a]
                    got_psites.add((g, hit[0] if len(hit) == 1 else -1, ab["ids"].get(os.path.realpath(r["message"].split("`")[1]))))
            if want_psites != got_psites:
                problems.append("parse errors of included files reported at %s, include statements that refer to an unparsable file %s" % (sorted(got_psites), sorted(want_psites)))
            # an unresolved include is reported at the include statement; when that is in a file which is itself only included, also at
            # the include statements through which that file is reached (review of b4f5d8c)
            got_chain = {e for e in got_errs if e not in unresolved}
            got_errs = [e for e in got_errs if e in unresolved]
            want_chain = {(g, i) for g, i, _ in chain_sites({f for f, _ in unresolved if f not in ab["inputs"]})}
            if got_chain != want_chain:
                problems.append("missing files reported through including files at %s, expected at %s" % (sorted(got_chain), sorted(want_chain)))
            if set(got_errs) != unresolved:
                problems.append("include errors %s, unresolved includes %s" % (sorted(got_errs), sorted(unresolved)))
            stats["include errors"] += len(got_errs)
            unreadable = [f for f in seen if not ab["readable"][f]]
            # only named files are analysed and reported on
            user_canon = {ab["canon_of"][f] for f in ab["inputs"]}
            flags = {os.path.realpath(f["name"]): f["user"] for f in rep["files"]}
            for c, u in flags.items():
                if u != (c in user_canon):
                    problems.append("user-input flag of %s is %s" % (os.path.relpath(c, base), u))
            analysed = sorted(nm for _, nm, _ in batches)
            want_an = sorted("T%d" % int(re.search(r"(\d+)", os.path.basename(ab_rel(ab, f, proj, base))).group(1)) for f in seen
                             if ab["ok"][f] and ab["canon_of"][f] in user_canon and re.search(r"\d", os.path.basename(ab_rel(ab, f, proj, base))))
            hand = not all(re.search(r"f\d+\.circom$", p) for p in proj["places"])
            if not hand and analysed != want_an:
                problems.append("analysed %s, definitions of named files %s" % (analysed, want_an))
            for _, nm, rs in batches:
                for r in rs:
                    for l in r["primary"]:
                        if os.path.realpath(l["file"]) not in user_canon:
                            problems.append("finding %s of %s located in included-only file %s" % (r["id"], nm, os.path.relpath(l["file"], base)))
            stats["definitions analysed"] += len(analysed)
            if problems:
                l1 += 1
                ctx.violation("includes " + re.sub(r"[\d/]+", "", problems[0])[:40], dict(rp, stage="L1", problems=problems[:6], files_read=[os.path.relpath(x, base) for x in raw_names]))
                continue
            # ---- L2 -------------------------------------------------------------------------------
            m = parse_model(ml)
            if not m["wf"] or m["stack"] != 0 or not m["stable"]:
                ctx.violation("include-model-precondition", dict(rp, stage="L2", model=ml, broken="harness: abstraction is not well formed"), no_input=True)
                continue
            model_reads = [f for f in m["reads"] if ab["readable"][f]]
            real_ids = [ab["ids"][c] for c in real_files]
            model_users = sorted(f for f in m["users"] if ab["readable"][f])
            real_users = sorted(ab["ids"][c] for c, u in flags.items() if u)
            real_bad = sorted({(g, i) for g, i, _ in got_sites | got_psites} | got_chain)
            if model_reads != real_ids or model_users != real_users or m["errors"] != got_errs or sorted(set(map(tuple, m["bad"]))) != real_bad:
                l2 += 1
                ctx.violation("includes-correspondence", dict(rp, stage="L2", model={"reads": model_reads, "users": model_users, "errors": m["errors"], "bad": sorted(m["bad"])},
                                                              implementation={"reads": real_ids, "users": real_users, "errors": got_errs, "bad": real_bad},
                                                              broken="correspondence Includes.parseFiles <-> FileStack/parse_files"), no_input=True)
                continue
            stats["unreadable includes"] += len(unreadable)
            if len(samples) < 3 and got_errs and len(real_files) >= 3:
                samples.append({"inputs": proj["inputs"], "libs": proj["libs"], "files_read": [os.path.relpath(x, base) for x in raw_names], "include_errors": got_errs})
        # the real binary on a sample: displayed findings mention named files only, the process ends with 0/1
        cli = vlib.build_cli()
        nb = 12 if ctx.tier == "quick" else 120
        jobs = []
        for k in range(min(nb, len(projs))):
            jobs.append((k, reqs[k]))
        outs = rl.pmap(lambda j: rl.run_cli(cli, j[1], level="info", timeout=60), jobs)
        for (k, req), out in zip(jobs, outs):
            stats["binary runs"] += 1
            ab, proj = abss[k], projs[k]
            base = metas[k][0]
            user_canon = {ab["canon_of"][f] for f in ab["inputs"]}
            if out["rc"] not in (0, 1):
                ctx.violation("includes-binary-exit", {"project": proj, "stage": "L1 binary", "rc": out["rc"], "stderr": out["stderr"][-400:], "broken": None})
                continue
            for m2 in re.finditer(r"┌─ (\S+?):\d+:\d+", out["stdout"]):
                if os.path.realpath(m2.group(1)) not in user_canon:
                    ctx.violation("included-only-file-displayed", {"project": proj, "stage": "L1 binary", "file": os.path.relpath(m2.group(1), base), "broken": None})
                    break
    # ---- a directory named on the command line: every Circom file below it is read once, also when symbolic links lead back into the
    #      tree (audit C19 f5: the traversal followed them until the path became too long — exponentially many paths with two links)
    cli = vlib.build_cli()
    with vlib.Workdir("c19d") as wd3:
        tmpl = "pragma circom 2.0.0;\ntemplate %s() { signal input a; signal output b; b <== a; }\n"
        layouts = [
            ("plain", {"d/a.circom": tmpl % "A", "d/sub/b.circom": tmpl % "B"}, {}),
            ("self-link", {"d/a.circom": tmpl % "A"}, {"d/l1": "."}),
            ("two-self-links", {"d/a.circom": tmpl % "A", "d/sub/b.circom": tmpl % "B"}, {"d/l1": ".", "d/l2": "."}),
            ("link-to-parent", {"d/a.circom": tmpl % "A", "d/sub/b.circom": tmpl % "B"}, {"d/sub/up": "..", "d/sub/up2": "../sub"}),
            ("link-to-sibling-dir", {"d/x/a.circom": tmpl % "A", "d/y/b.circom": tmpl % "B"}, {"d/x/toy": "../y", "d/y/tox": "../x"}),
            # symbolic links to *files* in the named directory (seeded change C19/m6: the entries of a directory were pushed as found, so a
            # file with a second name in the directory was read twice and the includes of a linked file were looked up next to the link):
            # a second name for a file of the directory; a link to a file outside it that includes its own neighbour
            ("link-to-file-in-directory", {"d/a.circom": tmpl % "A", "d/b.circom": tmpl % "B"}, {"d/a_again.circom": "a.circom"}),
            ("link-to-file-outside", {"d/a.circom": tmpl % "A", "v/s.circom": "pragma circom 2.0.0;\ninclude \"u.circom\";\n" + (tmpl % "S").split("\n", 1)[1],
                                      "v/u.circom": tmpl % "U"}, {"d/s.circom": "../v/s.circom"}),
            ("link-to-file-and-include", {"d/a.circom": "pragma circom 2.0.0;\ninclude \"s.circom\";\n" + (tmpl % "A").split("\n", 1)[1],
                                          "v/s.circom": tmpl % "S"}, {"d/s.circom": "../v/s.circom", "d/s2.circom": "../v/s.circom"}),
        ]
        for name, files, links in layouts:
            base = os.path.join(wd3.path, name)
            for rel, text in files.items():
                wd3.write(os.path.join(name, rel), text.encode())
            for rel, target in links.items():
                os.symlink(target, os.path.join(base, rel))
            res = rl.run_cli(cli, {"inputs": [os.path.join(base, "d")], "libs": []}, timeout=20)
            stats["named-directory runs"] += 1
            analysed = sorted(re.findall(r"analyzing template '(\w+)'", res["stdout"]))
            # analysed: the templates of the files in (or linked from) the named directory, each once; a file that is only included is not
            named = {os.path.realpath(os.path.join(base, rel)) for rel in files if rel.startswith("d/")} | \
                    {os.path.realpath(os.path.join(base, rel)) for rel in links if os.path.isfile(os.path.join(base, rel))}
            want = sorted(re.search(r"template (\w+)", t).group(1) for rel, t in files.items() if os.path.realpath(os.path.join(base, rel)) in named)
            if res["rc"] != 0 or analysed != want:
                l1 += 1
                ctx.violation("named-directory %s" % name, {"stage": "L1 a named directory with symbolic links back into the tree", "files": sorted(files), "links": links,
                                                            "exit": res["rc"], "analysed": analysed, "expected": want, "stdout_tail": res["stdout"][-600:], "broken": None})
    # ---- every file is read once: the system calls of the real binary (audit C19 round 2 f1: a readability test before the parser
    #      opened every included file a second time — visible with a FIFO, which can be read only once)
    import shutil
    import subprocess
    if shutil.which("strace"):
        with vlib.Workdir("c19s") as wd4:
            t2 = "pragma circom 2.0.0;\n%stemplate %s() { signal input a; signal output b; b <== a; }\n"
            slayouts = [
                ("chain", {"a.circom": t2 % ('include "b.circom";\n', "A"), "b.circom": t2 % ('include "c.circom";\n', "B"), "c.circom": t2 % ("", "C")}, ["a.circom"], []),
                ("diamond", {"a.circom": t2 % ('include "b.circom";\ninclude "c.circom";\n', "A"), "b.circom": t2 % ('include "d.circom";\n', "B"),
                             "c.circom": t2 % ('include "./d.circom";\n', "C"), "d.circom": t2 % ("", "D")}, ["a.circom"], []),
                ("named-and-included", {"a.circom": t2 % ('include "b.circom";\n', "A"), "b.circom": t2 % ("", "B")}, ["a.circom", "b.circom"], []),
                ("cycle", {"a.circom": t2 % ('include "b.circom";\n', "A"), "b.circom": t2 % ('include "a.circom";\n', "B")}, ["a.circom"], []),
                ("library", {"a.circom": t2 % ('include "l.circom";\n', "A"), "lib/l.circom": t2 % ('include "m.circom";\n', "L"), "lib/m.circom": t2 % ("", "M")}, ["a.circom"], ["lib"]),
            ]
            for name, files, inputs, libs in slayouts:
                base = os.path.join(wd4.path, name)
                for rel, text in files.items():
                    wd4.write(os.path.join(name, rel), text.encode())
                trace = os.path.join(base, "trace.txt")
                argv = ["strace", "-f", "-qq", "-e", "trace=open,openat", "-o", trace, cli] + [os.path.join(base, i) for i in inputs]
                for l in libs:
                    argv += ["-L", os.path.join(base, l)]
                try:
                    pr = subprocess.run(argv, stdout=subprocess.PIPE, stderr=subprocess.PIPE, timeout=60)
                except subprocess.TimeoutExpired:
                    continue
                if not os.path.exists(trace):
                    stats["strace unavailable"] += 1
                    continue
                opens = collections.Counter()
                for line in open(trace, errors="replace"):
                    m3 = re.search(r'open(?:at)?\(.*?"([^"]*\.circom)".*\)\s*=\s*(-?\d+)', line)
                    if m3 and int(m3.group(2)) >= 0:
                        opens[os.path.relpath(os.path.realpath(m3.group(1)), base)] += 1
                stats["system-call traces"] += 1
                stats["files opened (traced)"] += len(opens)
                bad = {f: c for f, c in opens.items() if c != 1}
                missing = [f for f in files if f not in opens]
                if bad or missing or pr.returncode not in (0, 1):
                    l1 += 1
                    ctx.violation("file-opened-%s %s" % ("twice" if bad else "never", name),
                                  {"stage": "L1 each file is read once (open/openat calls of the real binary)", "files": files, "inputs": inputs, "libs": libs,
                                   "opens_per_file": dict(opens), "not_opened": missing, "exit": pr.returncode, "broken": None})
    if not ok:
        ctx.violation("theorem " + ";".join(failing)[:200], {"broken": "theorem", "failing": failing}, no_input=True)
    cov = ctx.coverage
    cov["evaluations"] = stats["projects"] + stats["binary runs"]
    cov["distinct_nontrivial"] = stats["projects"]
    cov["rule"] = ("%d hand-written trees (non-canonical library directory with three spellings of one file, library file that is also a named input, "
                   "self-include + 3-cycle, diamond through a symlink, single-file library, unparsable file, included directory, one file named four "
                   "ways) + %d generated trees of 2-9 files in 6 directories with file/directory symlinks, 8 include spellings, 0-3 libraries in random "
                   "order, 1-3 named inputs under 4 spellings; a case = one project through parse_files + runner (in-process), a sample through the binary"
                   % (len(HAND), n))
    cov["distribution"] = dict(stats)
    cov["l1_failures"] = l1
    cov["l2_divergences"] = l2
    cov["samples"] = samples or [{"note": "none"}]


def files_text(files, proj, canon, base):
    for p in proj["places"]:
        if os.path.realpath(os.path.join(base, p)) == canon:
            return files[p]
    return ""


def ab_rel(ab, f, proj, base):
    return os.path.relpath(ab["canon_of"][f], base)


def has_cycle(ab):
    g = {f: [r[0] for r in rows if r[0] is not None] for f, rows in ab["table"].items()}
    color = {}

    def dfs(u):
        color[u] = 1
        for v in g.get(u, []):
            if color.get(v) == 1 or (v not in color and dfs(v)):
                return True
        color[u] = 2
        return False
    return any(u not in color and dfs(u) for u in list(g))


def replay(ctx, path):
    r = json.load(open(path))
    print(json.dumps(r, indent=1)[:3000])
    ctx.coverage["evaluations"] = 1
