"""C13 — the CFG contains every source execution, statement by statement. Theorems:
Props/C13.lean (statement conservation in program order for all statement trees; trace
inclusion as far as proved). Tie: for every real AST/CFG pair the Lean trace semantics of the
source (`Trace.astTrace`, ending at the first return) must be a prefix of the walk of the real CFG
(`Trace.cfgTrace`) under every decision sequence of length k; both for the pre-SSA and the SSA
CFG (phi statements ignored); plus the model CFG (L2, via C12's correspondence)."""
import json
import vlib
from checks import liftlib

EXTRA = [
    "function f(n) { if (n) { return 1; } n = 2; return n; }",
    "function f(n) { while (n < 3) { if (n == 1) { return 5; } n++; } return n; }",
    "function f(n) { for (var i = 0; i < n; i++) { n += i; } return n; }",
    "function f(n) { n += 1; n -= 1; n *= 2; n++; n--; return n; }",
    "function f(n) { for (var i = 0; i < 2; i++) for (var j = 0; j < 2; j++) n += j; return n; }",
    "function f(n) { if (n) { if (n == 2) { return 1; } } else { while (n < 2) { n++; } } return n; }",
]


# (sugared, hand expansion): the ASTs must coincide up to source ranges
EXPANSIONS = [
    ("function f(n) { for (var i = 0; i < n; i++) { n += i; } return n; }",
     "function f(n) { { var i = 0; while (i < n) { { n = n + i; } i = i + 1; } } return n; }"),
    ("function f(n) { for (var i = 0; i < n; i++) n -= i; return n; }",
     "function f(n) { { var i = 0; while (i < n) { n = n - i; i = i + 1; } } return n; }"),
    ("function f(n) { var i; for (i = 0; i < n; i += 2) { } return n; }",
     "function f(n) { var i; { i = 0; while (i < n) { { } i = i + 2; } } return n; }"),
    ("function f(n) { n++; n--; n += 3; n -= 3; n *= 3; n /= 3; n \\= 3; n %= 3; n **= 3; n <<= 3; n >>= 3; n &= 3; n |= 3; n ^= 3; return n; }",
     "function f(n) { n = n + 1; n = n - 1; n = n + 3; n = n - 3; n = n * 3; n = n / 3; n = n \\ 3; n = n % 3; n = n ** 3; n = n << 3; n = n >> 3; n = n & 3; n = n | 3; n = n ^ 3; return n; }"),
    ("function f(n) { var a[2]; a[0]++; a[1] += n; return a[0]; }",
     "function f(n) { var a[2]; a[0] = a[0] + 1; a[1] = a[1] + n; return a[0]; }"),
    ("function f(n) { for (var i = 0; i < 2; i++) for (var j = 0; j < 2; j++) n += j; return n; }",
     "function f(n) { { var i = 0; while (i < 2) { { var j = 0; while (j < 2) { n = n + j; j = j + 1; } } i = i + 1; } } return n; }"),
]


def erase(v):
    if isinstance(v, list):
        if v and v[0] == "m":
            return "m"
        return [erase(x) for x in v]
    return v


def run(ctx):
    vlib.build_harness()
    ok, failing = vlib.theorem_gate(ctx, ["C13"])
    n = 200 if ctx.tier == "quick" else 2500
    k = 7 if ctx.tier == "quick" else 10
    defs = [(s, {}) for s in liftlib.HAND + EXTRA] + liftlib.gen_definitions(ctx.rng, n, max_depth=3, max_stmts=6)
    obs = liftlib.observe([d[0] for d in defs])
    reqs, meta = [], []
    stats = {"definitions": 0, "decision_sequences": 0, "with_return_inside": 0, "ssa_checked": 0}
    for (src, _), o in zip(defs, obs):
        if "cfg" not in o:
            continue
        stats["definitions"] += 1
        stats["with_return_inside"] += src.count("return") > 1
        a = vlib.sexp(o["ast"])
        reqs.append("traces (triple %s %s %d)" % (a, vlib.sexp(o["cfg"]), k))
        meta.append((src, "pre-SSA"))
        if "ssa" in o:
            stats["ssa_checked"] += 1
            reqs.append("traces (triple %s %s %d)" % (a, vlib.sexp(o["ssa"]), k))
            meta.append((src, "SSA"))
    out = vlib.run_model(reqs)
    bad = 0
    samples = []
    for (src, which), r in zip(meta, out):
        if r.startswith("ok "):
            stats["decision_sequences"] += int(r.split()[1])
            if len(samples) < 2:
                samples.append({"source": src[:200], "graph": which, "result": r})
        else:
            bad += 1
            ctx.violation("trace-not-contained", {"stage": "L1 source trace is a prefix of the CFG walk", "source": src, "graph": which,
                                                  "result": r, "broken": None})
    # expansions of `for` and of compound assignments
    exp_obs = liftlib.observe([x for pair in EXPANSIONS for x in pair])
    for i, (sug, hand) in enumerate(EXPANSIONS):
        a, b = exp_obs[2 * i], exp_obs[2 * i + 1]
        stats["expansion_pairs"] = stats.get("expansion_pairs", 0) + 1
        if "ast" not in a or "ast" not in b or erase(a["ast"]) != erase(b["ast"]):
            ctx.violation("expansion-differs", {"stage": "L1 for/compound-assignment expansion", "sugared": sug, "expanded": hand,
                                                "sugared_ast": erase(a.get("ast")), "expanded_ast": erase(b.get("ast")), "broken": None})
    if not ok:
        ctx.violation("theorem " + ";".join(failing)[:200], {"broken": "theorem", "failing": failing}, no_input=True)
    cov = ctx.coverage
    cov["evaluations"] = stats["decision_sequences"]
    cov["distinct_nontrivial"] = stats["definitions"]
    cov["rule"] = ("hand-written patterns (returns inside branches/loops, for loops, compound assignments) plus %d generated definitions; for each, "
                   "all 2^%d decision sequences of length %d, on the pre-SSA and the SSA CFG; non-trivial/distinct = definitions that lift" % (n, k, k))
    cov["distribution"] = stats
    cov["mismatches"] = bad
    cov["samples"] = samples
    ctx.assumptions += ["`for` loops and compound assignments are expanded by the parser (ast_shortcuts.rs) before the AST is dumped; the "
                        "comparison therefore covers lifting, and the expansion itself only through the hand-written cases' expected shapes",
                        "statements are identified by source range; expressions are not compared (C13 is about statements)"]


def replay(ctx, path):
    r = json.load(open(path))
    print(json.dumps(r, indent=1)[:2000])
    ctx.coverage["evaluations"] = 1
