"""C14 — SSA validity. Theorems: Props/C14.lean (the local certificate check implies, for all paths
of any length, that every read names the most recently assigned version and phi arguments cover the
incoming versions; the model of the construction passes that check for every input and every numbering,
C14_construction). Tie: the construction model rebuilds every real SSA dump from the real CFG before SSA
conversion and the dump's version numbers (L2); every real SSA dump is run through the verified checker (L1), together
with the static clauses: unique definitions, phis at block heads, signals/components unversioned
and locals versioned, every version covered by a declaration, and the non-phi statements of the
SSA CFG equal the pre-SSA statements with versions erased (same blocks, same order)."""
import collections
import json
import vlib
import gen
from checks import liftlib

HAND = [
    "function f(c) { var x = 1; var x_0 = 5; if (c) { var x = 2; return x_0 + x; } return x; }",
    "function f(n) { var a[3]; for (var i = 0; i < 3; i++) { a[i] = i; } return a[0] + a[2]; }",
    "function f(n) { var x = 0; if (n) { x = 1; } return x; }",
    "function f(n) { var x = 0; while (n < 3) { while (x < 2) { x++; } n++; } return x + n; }",
    "function f(n) { n = n + 1; if (n) { n = 2; } else { n = 3; } n++; return n; }",
    "function f(n) { var a[2]; if (n) { a[0] = 1; } else { a[1] = 2; } return a[0]; }",
    "template T(n) { signal input in; signal output out; var s = 0; for (var i = 0; i < n; i++) { s += in; } out <== s; component c = U(); c.a <== s; }",
]


def erase_versions(v):
    if isinstance(v, list):
        if v and v[0] == "v":
            return ["v", v[1], v[2], "-"]
        if v and v[0] == "m":
            return "m"
        if v and v[0] == "use":
            return "use"
        return [erase_versions(x) for x in v]
    return v


def static_facts(pre, ssa):
    """clauses checked directly on the dumps (Python): returns a list of problems"""
    problems = []
    declared = set()
    for d in ssa[4]:
        declared.add((d[1][1], d[1][2], d[1][3]))
    kinds = {(d[1][1], d[1][2]): d[2][0] for d in ssa[4]}

    def walk(e, f):
        if isinstance(e, list):
            f(e)
            for x in e:
                walk(x, f)

    def chk(e):
        if e and e[0] == "v" and len(e) == 4:
            name, sfx, ver = e[1], e[2], e[3]
            kind = kinds.get((name, sfx))
            if kind in ("signal", "component", "anoncomponent") and ver != "-":
                problems.append("signal/component `%s` carries version %s" % (name, ver))
            if kind == "local" and ver == "-":
                problems.append("local `%s` occurs without a version" % name)
            if ver != "-" and (name, sfx, ver) not in declared:
                problems.append("version %s.%s has no declaration" % (name, ver))
    for b in ssa[5]:
        for st in b[5]:
            walk(st[1], chk)
    # non-phi statements = pre-SSA statements (versions erased), block by block
    for bp, bs in zip(pre[5], ssa[5]):
        post = [erase_versions(st[1]) for st in bs[5] if not (st[1][0] == "sub" and st[1][4][0] == "phi")]
        prev = [erase_versions(st[1]) for st in bp[5]]
        # declarations list all versions in SSA: compare declarations by their first name only
        def norm(s):
            if s[0] == "decl":
                return ["decl", s[1], [s[2][0][:3]] if s[2] else [], s[3], s[4]]
            return s
        if [norm(x) for x in post] != [norm(x) for x in prev]:
            problems.append("block %s: non-phi statements differ from the pre-SSA block" % bp[1])
    if len(pre[5]) != len(ssa[5]):
        problems.append("number of blocks changed")
    return problems


def run(ctx):
    vlib.build_harness()
    ok, failing = vlib.theorem_gate(ctx, ["C14"])
    n = 300 if ctx.tier == "quick" else 4000
    srcs = HAND + liftlib.HAND + [d[0] for d in liftlib.gen_definitions(ctx.rng, n, shadow_every=2)]
    obs = liftlib.observe(srcs)
    reqs, meta = [], []
    stats = collections.Counter()
    for src, o in zip(srcs, obs):
        if "ssa" not in o:
            stats["no SSA (parse/lift/SSA error)"] += 1
            continue
        reqs.append("ssacheck " + vlib.sexp(o["ssa"]))
        meta.append((src, o))
    out = vlib.run_model(reqs)
    bad = 0
    samples = []
    for (src, o), r in zip(meta, out):
        stats["SSA CFGs checked"] += 1
        probs = static_facts(o["cfg"], o["ssa"])
        if o.get("undeclared_by_lookup"):
            # every version is covered by a declaration — also for the accessors `Cfg::get_declaration` / `Cfg::get_type` (audit C14 f1)
            probs.append("the declaration lookup finds no declaration for %s" % ", ".join(o["undeclared_by_lookup"][:6]))
        if r.startswith("ok"):
            parts = dict(p.split("=") for p in r.split()[1:])
            stats["variables"] += int(parts["vars"])
            stats["statements"] += int(parts["stmts"])
            stats["phi statements"] += int(parts["phis"])
        else:
            probs.append("certificate check: " + r)
        if probs:
            bad += 1
            ctx.violation("ssa-invalid " + probs[0][:60], {"stage": "L1 verified SSA checker / static clauses on the real SSA CFG", "source": src,
                                                           "problems": probs[:8], "broken": None})
        elif len(samples) < 2 and "phi" in json.dumps(o["ssa"]):
            samples.append({"source": src[:240], "checker": r})
    # L2: the construction model (Model/SsaBuild.lean, theorem C14_construction) on the real CFG before SSA conversion, with the
    # version numbers of the real SSA dump, must rebuild the dump (or fail exactly when the real conversion fails)
    reqs2, meta2 = [], []
    for src, o in zip(srcs, obs):
        if "cfg" not in o:
            continue
        reqs2.append("ssabuild (pair %s %s)" % (vlib.sexp(o["cfg"]), vlib.sexp(o["ssa"]) if "ssa" in o else "-"))
        meta2.append((src, o))
    l2 = 0
    for (src, o), r in zip(meta2, vlib.run_model(reqs2)):
        stats["construction model runs"] += 1
        if r.startswith("ok both-fail"):
            stats["conversions that fail in the model and in the code"] += 1
        elif r.startswith("ok"):
            stats["SSA forms rebuilt by the model"] += 1
        if " hyps:" in r:
            # a hypothesis of C14_construction does not hold on a real CFG (rooted graph, immediate dominators with a smaller index)
            ctx.violation("construction-hypothesis " + r.split(" hyps:")[1][:40], {"stage": "hypotheses of theorem C14_construction on a real CFG", "source": src,
                                                                                  "model": r[:300], "broken": "hypothesis of theorem C14_construction"}, no_input=True)
        if not r.startswith("ok"):
            l2 += 1
            # the correspondence is broken; if the SSA form is invalid the verified checker above has reported it with this input
            ctx.violation("construction-correspondence", {"stage": "L2 construction model vs real SSA conversion", "source": src, "model": r[:600],
                                                          "broken": "correspondence SsaBuild.build <-> Cfg::into_ssa"}, no_input=True)
    # L3: the operational model of the renaming (pre-order walk, global counters, scoped map) must produce the dump,
    # version numbers included
    l3 = 0
    for (src, o), r in zip(meta2, vlib.run_model([q.replace("ssabuild ", "ssawalk ", 1) for q in reqs2])):
        stats["walk model runs"] += 1
        if r.startswith("ok both-fail"):
            stats["conversions that fail in the walk model and in the code"] += 1
        elif r.startswith("ok"):
            stats["SSA forms reproduced by the walk model, numbers included"] += 1
        if " hyps:" in r:
            ctx.violation("walk-hypothesis " + r.split(" hyps:")[1][:40], {"stage": "hypotheses of theorem C14_walk on a real CFG", "source": src,
                                                                           "model": r[:300], "broken": "hypothesis of theorem C14_walk"}, no_input=True)
        if not r.startswith("ok"):
            l3 += 1
            ctx.violation("walk-correspondence", {"stage": "L3 walk model vs real SSA conversion", "source": src, "model": r[:600],
                                                  "broken": "correspondence SsaWalk.run <-> Cfg::into_ssa"}, no_input=True)
    ctx.coverage["l3_divergences"] = l3
    if not ok:
        ctx.violation("theorem " + ";".join(failing)[:200], {"broken": "theorem", "failing": failing}, no_input=True)
    cov = ctx.coverage
    cov["l2_divergences"] = l2
    cov["evaluations"] = len(srcs)
    cov["distinct_nontrivial"] = stats["SSA CFGs checked"]
    cov["programs"] = stats["SSA CFGs checked"]
    cov["disagreements_checked"] = bad
    cov["rule"] = ("hand-written cases (shadowing next to look-alike names, arrays updated element-wise in loops and branches, variables "
                   "assigned in one branch, nested loops, reassigned parameters) plus %d generated definitions; non-trivial = converted to SSA" % n)
    cov["distribution"] = dict(stats)
    cov["samples"] = samples or [{"note": "none"}]
    ctx.assumptions += ["the abstraction of an SSA CFG to (target, reads, implicit array definition) per statement is done by the driver from the dump",
                        "the construction is proved for every CFG on the models (SsaBuild, SsaWalk); the tie between those models and the code is the "
                        "per-instance reproduction of the real SSA dumps (L2 with the real numbering, L3 with the model's own numbering)",
                        "the stack of scopes of the environment is modelled by handing the map down (C14_scope_restores justifies it); the order of phi "
                        "statements inside a block is not compared (C14_phi_order_irrelevant)"]


def replay(ctx, path):
    r = json.load(open(path))
    print(json.dumps(r, indent=1)[:2500])
    ctx.coverage["evaluations"] = 1
