"""C12 — CFG well-formedness. Theorems: Props/C12.lean. Tie: (L2) the Lean model of
`visit_statement`/`complete_basic_block` run on the real AST reproduces the real pre-SSA CFG
block for block; (L1) the executable well-formedness predicate `CfgSpec.wfProblems` (dominance
from the verified dominator computation) holds of every real CFG, before and after SSA."""
import json
import vlib
from checks import liftlib


def run(ctx):
    vlib.build_harness()
    ok, failing = vlib.theorem_gate(ctx, ["C12"])
    n = 300 if ctx.tier == "quick" else 4000
    defs = [(s, {}) for s in liftlib.HAND] + liftlib.gen_definitions(ctx.rng, n)
    obs = liftlib.observe([d[0] for d in defs])
    stats = {"lifted": 0, "cfg_error": 0, "ssa_error": 0, "parse_error": 0, "crash": 0, "blocks": 0, "max_blocks": 0, "with_while": 0, "with_if": 0}
    l1 = l2 = 0
    reqs_model, reqs_wf, meta = [], [], []
    for (src, st), o in zip(defs, obs):
        if "crash" in o:
            stats["crash"] += 1
            continue
        if o.get("error") == "parse":
            stats["parse_error"] += 1
            continue
        if "cfg" not in o:
            stats["cfg_error"] += 1
            continue
        stats["lifted"] += 1
        nb = len(o["cfg"][5])
        stats["blocks"] += nb
        stats["max_blocks"] = max(stats["max_blocks"], nb)
        stats["with_while"] += "while" in src or "for" in src
        stats["with_if"] += "if" in src
        a = vlib.sexp(o["ast"])
        reqs_model.append("cfglift " + a)
        reqs_wf.append("wfcheck (pair %s %s)" % (a, vlib.sexp(o["cfg"])))
        if "ssa" in o:
            reqs_wf.append("wfcheck (pair %s %s)" % (a, vlib.sexp(o["ssa"])))
            meta.append((src, o, 2))
        else:
            stats["ssa_error"] += 1
            meta.append((src, o, 1))
    model = vlib.run_model(reqs_model)
    wf = vlib.run_model(reqs_wf)
    wi = 0
    samples = []
    for (src, o, k), m in zip(meta, model):
        real = "ok " + liftlib.canon_blocks(o["cfg"])
        verdicts = wf[wi:wi + k]
        wi += k
        bad = [v for v in verdicts if v != "wf"]
        if bad:
            l1 += 1
            ctx.violation("cfg-not-wf " + bad[0][:60], {"stage": "L1 wfProblems on the real CFG", "source": src, "problems": bad,
                                                        "cfg": liftlib.canon_blocks(o["cfg"]), "broken": None})
        elif m != real:
            l2 += 1
            ctx.violation("cfg-correspondence", {"stage": "L2 model CFG vs real CFG", "source": src, "model": m, "implementation": real,
                                                 "broken": "correspondence CfgLift.lift <-> control_flow_graph::lifting::build_basic_blocks"}, no_input=True)
        elif len(samples) < 3:
            samples.append({"source": src[:200], "cfg": real[:300]})
    # ---- the consumer named in the property text: `run_complexity_analysis` computes `2 + edges - nodes` in unsigned arithmetic
    #      (`C12_complexity_defined`: defined on every lifted CFG, = E - N + 2 >= 1). On the real SSA CFG of definitions with 0..45
    #      decision points: the subtraction is defined, the number is the textbook `decisions + 1` of a structured program, the model's
    #      `CfgLift.complexity` of the real CFG agrees, and CS0011 is reported exactly above 20.
    import re as _re
    csrcs = []
    for k in [0, 1, 2, 18, 19, 20, 21, 22, 30, 45]:
        csrcs.append("function f%d(a) { var s = 0; %s return s; }" % (k, " ".join("if (a > %d) { s += %d; }" % (j, j) for j in range(k))))
        csrcs.append("function g%d(a) { var s = 0; %s return s; }" % (k, " ".join("if (a > %d) { s += 1; } else { s += 2; }" % j if j % 2 else "while (s < %d) { s += 1; }" % j for j in range(k))))
    for k in [3, 19, 20, 21]:
        body = "s += 1;"
        for j in range(k):
            body = ("for (var i%d = 0; i%d < 2; i%d++) { %s }" % (j, j, j, body)) if j % 3 == 0 else ("if (a == %d) { %s } else { s += 2; }" % (j, body)) if j % 3 == 1 else ("while (s < %d) { %s }" % (j, body))
        csrcs.append("template N%d(a) { signal input x; signal output y; var s = 0; %s y <== x * s; }" % (k, body))
    csrcs += [d[0] for d in defs[:(150 if ctx.tier == "quick" else 1500)]]
    creplies = vlib.run_harness("defpasses", [json.dumps({"src": c, "curve": "BN254", "dump": True}) for c in csrcs])
    creqs, cmeta = [], []
    for c, r in zip(csrcs, creplies):
        ir = json.loads(r) if r.startswith("{") else {"error": r}
        if "ssa" not in ir:
            if r.startswith("panic") or "panicked" in r:
                l1 += 1
                ctx.violation("complexity-crash", {"stage": "L1 the passes run on every lifted CFG", "source": c, "reply": r[:300], "broken": None})
            continue
        creqs.append("complexity " + vlib.sexp(ir["ssa"]))
        cmeta.append((c, ir))
    stats["complexity: definitions"] = len(cmeta)
    stats["complexity: reported (CS0011)"] = 0
    for (c, ir), m in zip(cmeta, vlib.run_model(creqs)):
        parts = m.split()
        decisions = len(_re.findall(r"\b(?:if|while|for)\s*\(", c))
        flagged = any(x["id"] == "CS0011" for x in ir.get("reports", []))
        stats["complexity: reported (CS0011)"] += flagged
        if len(parts) != 5:
            ctx.violation("complexity-model", {"stage": "L2", "source": c, "model": m, "broken": "driver command complexity"}, no_input=True)
            continue
        nodes, edges, mc, defined, too = int(parts[0]), int(parts[1]), int(parts[2]), parts[3], parts[4] == "true"
        # independently of the model: nodes and edges counted on the dump
        pn = len(ir["ssa"][5])
        pe = sum(len(b[4]) for b in ir["ssa"][5])
        if pe + 2 < pn or not (1 <= pe + 2 - pn <= decisions + 1):
            l1 += 1
            ctx.violation("complexity-undefined" if pe + 2 < pn else "complexity-value",
                          {"stage": "L1 edges - nodes + 2 is defined, at least 1 and at most decisions + 1 on the real CFG (equal when the definition does not end in a branch)",
                           "source": c, "nodes": pn, "edges": pe, "decision_points": decisions, "broken": None})
        elif flagged != (pe + 2 - pn > 20):
            l1 += 1
            ctx.violation("complexity-report", {"stage": "L1 CS0011 exactly when edges - nodes + 2 > 20", "source": c, "complexity": pe + 2 - pn, "reported": flagged, "broken": None})
        elif (nodes, edges, mc, defined) != (pn, pe, pe + 2 - pn, "defined") or too != flagged:
            l2 += 1
            ctx.violation("complexity-correspondence", {"stage": "L2 CfgLift.complexity / tooComplex vs run_complexity_analysis", "source": c, "model": m, "implementation": [pn, pe, flagged],
                                                        "broken": "correspondence CfgLift.complexity <-> definition_complexity::run_complexity_analysis"}, no_input=True)
    if not ok:
        ctx.violation("theorem " + ";".join(failing)[:200], {"broken": "theorem", "failing": failing}, no_input=True)
    cov = ctx.coverage
    cov["evaluations"] = len(defs)
    cov["distinct_nontrivial"] = len({liftlib.canon_blocks(o["cfg"]) for _, o, _ in meta})
    cov["rule"] = ("%d hand-written nesting patterns (bare bodies, empty blocks, loops first/last, branch ending a loop body, for loops) plus %d "
                   "generated functions/templates; non-trivial = lifts to a CFG; distinct = distinct CFG shapes" % (len(liftlib.HAND), n))
    cov["distribution"] = stats
    cov["l1_wf_failures"] = l1
    cov["l2_model_divergences"] = l2
    cov["samples"] = samples


def replay(ctx, path):
    r = json.load(open(path))
    vlib.build_harness()
    o = liftlib.observe([r["source"]])[0]
    print(liftlib.canon_blocks(o["cfg"]) if "cfg" in o else o)
    ctx.coverage["evaluations"] = 1
