"""C12 — CFG well-formedness. Theorems: Props/C12.lean. Tie: (L2) the Lean model of
`visit_statement`/`complete_basic_block` run on the real AST reproduces the real pre-SSA CFG
block for block; (L1) the executable well-formedness predicate `CfgSpec.wfProblems` (dominance
from the verified dominator computation) holds of every real CFG, before and after SSA."""
import json
import vlib
from checks import liftlib


def run(ctx):
    vlib.build_harness()
    ok, failing = vlib.theorem_gate(ctx, ["C12"])
    n = 300 if ctx.tier == "quick" else 4000
    defs = [(s, {}) for s in liftlib.HAND] + liftlib.gen_definitions(ctx.rng, n)
    obs = liftlib.observe([d[0] for d in defs])
    stats = {"lifted": 0, "cfg_error": 0, "ssa_error": 0, "parse_error": 0, "crash": 0, "blocks": 0, "max_blocks": 0, "with_while": 0, "with_if": 0}
    l1 = l2 = 0
    reqs_model, reqs_wf, meta = [], [], []
    for (src, st), o in zip(defs, obs):
        if "crash" in o:
            stats["crash"] += 1
            continue
        if o.get("error") == "parse":
            stats["parse_error"] += 1
            continue
        if "cfg" not in o:
            stats["cfg_error"] += 1
            continue
        stats["lifted"] += 1
        nb = len(o["cfg"][5])
        stats["blocks"] += nb
        stats["max_blocks"] = max(stats["max_blocks"], nb)
        stats["with_while"] += "while" in src or "for" in src
        stats["with_if"] += "if" in src
        a = vlib.sexp(o["ast"])
        reqs_model.append("cfglift " + a)
        reqs_wf.append("wfcheck (pair %s %s)" % (a, vlib.sexp(o["cfg"])))
        if "ssa" in o:
            reqs_wf.append("wfcheck (pair %s %s)" % (a, vlib.sexp(o["ssa"])))
            meta.append((src, o, 2))
        else:
            stats["ssa_error"] += 1
            meta.append((src, o, 1))
    model = vlib.run_model(reqs_model)
    wf = vlib.run_model(reqs_wf)
    wi = 0
    samples = []
    for (src, o, k), m in zip(meta, model):
        real = "ok " + liftlib.canon_blocks(o["cfg"])
        verdicts = wf[wi:wi + k]
        wi += k
        bad = [v for v in verdicts if v != "wf"]
        if bad:
            l1 += 1
            ctx.violation("cfg-not-wf " + bad[0][:60], {"stage": "L1 wfProblems on the real CFG", "source": src, "problems": bad,
                                                        "cfg": liftlib.canon_blocks(o["cfg"]), "broken": None})
        elif m != real:
            l2 += 1
            ctx.violation("cfg-correspondence", {"stage": "L2 model CFG vs real CFG", "source": src, "model": m, "implementation": real,
                                                 "broken": "correspondence CfgLift.lift <-> control_flow_graph::lifting::build_basic_blocks"}, no_input=True)
        elif len(samples) < 3:
            samples.append({"source": src[:200], "cfg": real[:300]})
    if not ok:
        ctx.violation("theorem " + ";".join(failing)[:200], {"broken": "theorem", "failing": failing}, no_input=True)
    cov = ctx.coverage
    cov["evaluations"] = len(defs)
    cov["distinct_nontrivial"] = len({liftlib.canon_blocks(o["cfg"]) for _, o, _ in meta})
    cov["rule"] = ("%d hand-written nesting patterns (bare bodies, empty blocks, loops first/last, branch ending a loop body, for loops) plus %d "
                   "generated functions/templates; non-trivial = lifts to a CFG; distinct = distinct CFG shapes" % (len(liftlib.HAND), n))
    cov["distribution"] = stats
    cov["l1_wf_failures"] = l1
    cov["l2_model_divergences"] = l2
    cov["samples"] = samples


def replay(ctx, path):
    r = json.load(open(path))
    vlib.build_harness()
    o = liftlib.observe([r["source"]])[0]
    print(liftlib.canon_blocks(o["cfg"]) if "cfg" in o else o)
    ctx.coverage["evaluations"] = 1
