"""C16 — field arithmetic. Theorems: lean/Circomspect/Props/C16.lean (Model.Field = Spec.Field
for all p > 2 and all operands). Tie: the real `modular_arithmetic` functions against the Lean
model (L2) and against the Lean spec (L1) on exhaustive small fields, boundary grids and random
operands for the three real primes."""
import json
import subprocess
import vlib

OPS2 = ["add", "sub", "mul", "div", "idiv", "mod", "pow", "shl", "shr", "or", "and", "xor",
        "bor", "band", "eq", "ne", "lt", "le", "gt", "ge"]
OPS1 = ["neg", "compl", "not"]


def spec_accepts(op, a, b, p, spec, impl):
    """L1 oracle: is the implementation's answer allowed by the specification?"""
    if impl.startswith("panic") or impl == "timeout" or impl.startswith("abort"):
        return False
    if op == "div":
        if b % p == 0:
            return impl.startswith("err")
        if not impl.startswith("ok "):
            return False
        c = int(impl[3:])
        return 0 <= c < p and (c * b) % p == a % p
    if spec == "skip":
        return True
    if op in ("shl", "shr") and b > p:
        return not impl.startswith("panic")  # counts above p are outside the specified domain
    if spec.startswith("val "):
        return impl == "ok " + spec[4:]
    if spec == "undef":
        return impl.startswith("err")
    if spec == "over":
        return impl.startswith("err") or impl == "ok 0"
    return False


def gen(ctx, primes):
    rng = ctx.rng
    lines = []
    small = [3, 5, 7, 11, 13] if ctx.tier == "quick" else [3, 5, 7, 11, 13, 17, 19, 23, 31, 61, 127, 251, 257]
    for p in small:
        rngp = range(0, p + 2 if p < 40 else p)  # a few unreduced operands as well
        for op in OPS2:
            for a in rngp:
                for b in rngp:
                    lines.append("%s %d %d %d" % (op, a, b, p))
        for op in OPS1:
            for a in range(0, 2 * p + 1):
                lines.append("%s %d 0 %d" % (op, a, p))
    n_small = len(lines)
    for p in primes:
        grid = {0, 1, 2, 3, p // 2 - 1, p // 2, p // 2 + 1, p // 2 + 2, p - 2, p - 1}
        for k in (1, 7, 8, 31, 32, 63, 64, 65, 127, 128, 252, 253, 254, 255, 256, 257):
            for d in (-1, 0, 1):
                v = (1 << k) + d
                if 0 <= v < p:
                    grid.add(v)
                    grid.add(p - v)
        bl = p.bit_length()
        for k in (bl - 2, bl - 1, bl, bl + 1, 100000000000, (1 << 64) - 1, 1 << 64):
            if 0 <= k < p:
                grid.add(k)
                grid.add(p - k)
        grid = sorted(g for g in grid if 0 <= g < p)
        for op in OPS2:
            for a in grid:
                for b in grid:
                    lines.append("%s %d %d %d" % (op, a, b, p))
        for op in OPS1:
            for a in grid:
                lines.append("%s %d 0 %d" % (op, a, p))
        nrand = 300 if ctx.tier == "quick" else 4000
        for op in OPS2 + OPS1:
            for _ in range(nrand):
                a = rng.bits(bl + 1) % p
                b = rng.bits(bl + 1) % p
                m = rng.below(6)
                if m == 0:
                    b = rng.below(2 * bl)
                elif m == 1:
                    b = p - rng.below(2 * bl)
                    b %= p
                elif m == 2:
                    a = rng.bits(rng.below(bl) + 1) % p
                if op in OPS1:
                    b = 0
                lines.append("%s %d %d %d" % (op, a, b, p))
    return lines, n_small


def run(ctx):
    vlib.build_harness()
    ok, failing = vlib.theorem_gate(ctx, ["C16"])
    rc, out, err = vlib.sh([vlib.HARNESS_BIN, "primes"])
    primes = [int(l.split()[1]) for l in out.split("\n") if l.strip()]
    ctx.coverage["primes_from_code"] = [str(p) for p in primes]
    lines, n_small = gen(ctx, primes)
    # corpus first
    corpus = []
    try:
        with open(vlib.VERIF + "/corpus/C16/field.txt") as f:
            corpus = [l.strip() for l in f if l.strip() and not l.startswith("#")]
    except FileNotFoundError:
        pass
    lines = corpus + lines
    try:
        impl = vlib.run_harness("field", lines, timeout=900)
    except subprocess.TimeoutExpired:
        impl = probe_each(ctx, lines)
    except vlib.BuildError:
        # the process died (stack overflow / abort) on some request: find it
        impl = vlib.run_harness_robust("field", lines, timeout_per_batch=300, max_restarts=12)
    model = vlib.run_model(["field " + l for l in lines])
    spec = vlib.run_model(["fieldspec " + l for l in lines])
    l1_fail = 0
    l2_div = []
    ops_hit = {}
    outcomes = {}
    for l, i, m, s in zip(lines, impl, model, spec):
        if i == "not-run":
            outcomes["not-run (process died too often)"] = outcomes.get("not-run (process died too often)", 0) + 1
            continue
        op, a, b, p = l.split()
        a, b, p = int(a), int(b), int(p)
        ops_hit[op] = ops_hit.get(op, 0) + 1
        kind = i.split()[0] + (" " + i.split()[1] if i.startswith("err") else "")
        outcomes[kind] = outcomes.get(kind, 0) + 1
        if not spec_accepts(op, a, b, p, s, i):
            l1_fail += 1
            ctx.violation("field-spec %s %s" % (op, i.split()[0]),
                          {"stage": "L1 spec oracle", "input": "field " + l, "implementation": i,
                           "model": m, "spec": s, "broken": None,
                           "how_to_rerun": "echo '%s' | harness/target/debug/vharness field" % l})
        elif i != m:
            l2_div.append((l, i, m, s))
    if l2_div and l1_fail == 0:
        l, i, m, s = l2_div[0]
        ctx.violation("field-correspondence " + l.split()[0],
                      {"stage": "L2 model correspondence", "input": "field " + l, "implementation": i,
                       "model": m, "spec": s,
                       "broken": "correspondence Circomspect.Field.evalOp <-> modular_arithmetic::%s (the theorems of Props/C16.lean no longer speak about this code)" % l.split()[0],
                       "divergences": len(l2_div)}, no_input=True)
    if not ok:
        ctx.violation("theorem " + ";".join(failing)[:200],
                      {"broken": "theorem", "failing": failing}, no_input=True)
    cov = ctx.coverage
    cov["evaluations"] = len(lines)
    cov["distinct_nontrivial"] = len(set(lines))
    cov["rule"] = ("every (op,a,b) over the small fields listed (operands 0..p+1, exhaustive: %d lines), "
                   "boundary grid squared and random operands for the three primes taken from the code; "
                   "distinct request lines are counted, all are non-trivial (each is a separate operand tuple)" % n_small)
    cov["exhaustive_small_fields"] = True
    cov["ops_hit"] = ops_hit
    cov["outcomes"] = outcomes
    cov["l1_spec_failures"] = l1_fail
    cov["l2_model_divergences"] = len(l2_div)
    cov["samples"] = [{"request": l, "impl": i, "model": m, "spec": s}
                      for l, i, m, s in list(zip(lines, impl, model, spec))[:: max(1, len(lines) // 12)]][:12]
    ctx.assumptions += [
        "num-bigint-dig's %, /, to_radix_le, from_radix_le, modpow, mod_inverse, to_usize are modelled (Model/Field.lean header), validated only by this correspondence",
        "bitwise operators are modelled for non-negative operands (C16_closed shows results never go negative)",
    ]


def probe_each(ctx, lines):
    """the batch timed out: find the request that does not return (bounded time is part of C16)"""
    out = []
    for l in lines:
        op = l.split()[0]
        if op not in ("shl", "shr", "pow"):
            out.append(None)
            continue
        try:
            r = vlib.run_harness("field", [l], timeout=10)[0]
        except subprocess.TimeoutExpired:
            r = "timeout"
        out.append(r)
    rest = [l for l, r in zip(lines, out) if r is None]
    res = iter(vlib.run_harness("field", rest, timeout=900))
    return [r if r is not None else next(res) for r in out]


def replay(ctx, path):
    r = json.load(open(path))
    vlib.build_harness()
    l = r["input"].split(" ", 1)[1]
    i = vlib.run_harness("field", [l])[0]
    m = vlib.run_model(["field " + l])[0]
    s = vlib.run_model(["fieldspec " + l])[0]
    op, a, b, p = l.split()
    print("impl:", i, "model:", m, "spec:", s)
    ctx.coverage["evaluations"] = 1
    if not spec_accepts(op, int(a), int(b), int(p), s, i):
        ctx.violation("field-spec %s" % op, {"input": "field " + l, "implementation": i, "spec": s})
