"""C02 — no silent failure. Theorems: Props/C02.lean (a lift failure or a parser-level error is
displayed and makes the exit status non-zero, in every order; exit 0 implies every definition
lifted and was analysed). Tie: failure injection into otherwise clean generated projects, for
every failure class at every token position of the seed file, observed on the real binary
(default level and --level error), plus the hypotheses of the theorems evaluated on the real
pipeline (`isolate`)."""
import collections
import json
import os
import re
import vlib
import gen
from checks import runnerlib as rl


def clean_project(rng):
    toks, defs, stats = gen.project(rng, n_templates=2, n_functions=1, max_stmts=4)
    return toks, defs


def injections(rng, toks, defs, tier):
    """yield (class, position, files dict, inputs, expect) — expect: 'error' (an error-level report
    must be displayed, exit != 0)"""
    base = gen.render(toks)
    out = []
    out.append(("missing-file-alone", None, {}, ["nonexistent.circom"]))
    out.append(("missing-file-next-to-valid", None, {"main.circom": base}, ["main.circom", "nonexistent.circom"]))
    out.append(("missing-file-first", None, {"main.circom": base}, ["nonexistent.circom", "main.circom"]))
    out.append(("unreadable-invalid-utf8", None, {"main.circom": base.encode() + b"\n// \xff\xfe\n"}, ["main.circom"]))
    out.append(("missing-file-no-extension", None, {"main.circom": base}, ["main.circom", "nonexistent"]))
    out.append(("missing-file-other-extension", None, {}, ["nonexistent.txt"]))
    out.append(("dangling-symlink", None, {"main.circom": base, "@symlink:dangling.circom": "nowhere.circom"}, ["main.circom", "dangling.circom"]))
    # an existing file that is named explicitly but does not have the extension `.circom` (audit C02 f1, f4): it is an input like any other
    broken_text = "pragma circom 2.0.0;\ntemplate Broken( { signal input a; }\n"
    for odd in ("broken.txt", "broken.circom.bak", "BROKEN.CIRCOM", "noextension", ".circom"):
        out.append(("named-file-other-extension %s" % odd, None, {odd: broken_text}, [odd]))
        out.append(("named-file-other-extension-next-to-valid %s" % odd, None, {"main.circom": base, odd: broken_text}, ["main.circom", odd]))
    out.append(("bad-pragma-major", None, {"main.circom": base.replace("2.0.0", "3.0.0", 1)}, ["main.circom"]))
    out.append(("bad-pragma-minor", None, {"main.circom": base.replace("2.0.0", "2.9.9", 1)}, ["main.circom"]))
    positions = list(range(1, len(toks)))
    if tier == "quick":
        positions = sorted(set(rng.below(len(toks) - 1) + 1 for _ in range(25)))
    for i in positions:
        t = toks[:i] + ["@"] + toks[i:]
        out.append(("lexical-error", i, {"main.circom": gen.render(t)}, ["main.circom"]))
        t = toks[:i] + ["template"] + toks[i:]
        out.append(("syntax-error-keyword", i, {"main.circom": gen.render(t)}, ["main.circom"]))
    out.append(("unterminated-comment", None, {"main.circom": base + "\n/* never closed"}, ["main.circom"]))
    out.append(("truncated-file", None, {"main.circom": base[: len(base) * 2 // 3]}, ["main.circom"]))
    # definitions the tool has to drop (placed before the other definitions: nothing may follow `component main`)
    head, rest = base.split(";\n", 1)
    class _B(str):
        def __add__(self, extra):
            return head + ";\n" + extra + rest
    base_plain = base
    base = _B(base)
    body_fn = "function bad(a, a) { return a; }\n"
    out.append(("parameter-collision-function", None, {"main.circom": base + body_fn}, ["main.circom"]))
    out.append(("parameter-collision-template", None, {"main.circom": base + "template BadT(n, n) { signal input i; signal output o; o <== i; }\n"}, ["main.circom"]))
    out.append(("tuple-in-function", None, {"main.circom": base + "function badt(a) { var x; var y; (x, y) = (a, a); return x; }\n"}, ["main.circom"]))
    out.append(("tuple-arity-mismatch", None, {"main.circom": base + "template BadU() { signal input i; signal output o; signal p; (o, p) <== (i, i, i); }\n"}, ["main.circom"]))
    out.append(("anonymous-component-in-function", None, {"main.circom": base + "function bada(a) { var x = T0()(a); return x; }\n"}, ["main.circom"]))
    out.append(("anonymous-component-wrong-arity", None, {"main.circom": base + "template BadA() { signal input i; signal output o; o <== T0(1, 2, 3, 4, 5, 6, 7)(i, i, i, i, i, i, i, i, i); }\n"}, ["main.circom"]))
    # an anonymous component with one named argument too many, or one input named twice (seeded C02 m8: the arity check was kept for
    # positional arguments only)
    out.append(("anonymous-component-extra-named-argument", None, {"main.circom": base + "template Two() { signal input p; signal input q; signal output r; r <== p * q; }\n"
                "template BadN() { signal input i; signal output o; o <== Two()(p <== i, q <== i, s <== i); }\n"}, ["main.circom"]))
    out.append(("anonymous-component-input-named-twice", None, {"main.circom": base + "template Two2() { signal input p; signal input q; signal output r; r <== p * q; }\n"
                "template BadM() { signal input i; signal output o; o <== Two2()(p <== i, p <== i, q <== i); }\n"}, ["main.circom"]))
    out.append(("anonymous-component-unknown-template", None, {"main.circom": base + "template BadB() { signal input i; signal output o; o <== NoSuchTemplate()(i); }\n"}, ["main.circom"]))
    # a main component that cannot be analysed: an anonymous component or a tuple, as the instantiation or inside its arguments (the
    # instantiation is analysed since 1121aa8; such a main component is skipped, which must not be silent)
    for nm, m in (("anonymous-component-as-main", "T0()(1)"), ("anonymous-component-in-main-arguments", "T0(T0()(1))"),
                  ("tuple-as-main", "(1, 2)"), ("tuple-in-main-arguments", "T0((1, 2))"), ("anonymous-component-in-main-index", "T0([1, 2][T0()(0)])")):
        no_main = "\n".join(l for l in base_plain.split("\n") if "component main" not in l) + "\n"
        out.append((nm, None, {"main.circom": no_main + "component main = %s;\n" % m}, ["main.circom"]))
    # ... also when the files cannot be assembled into a program (review 'latest3' f2: the check was made on that path only): a template
    # defined twice in a file that is only included — that error is not displayed
    dup_lib = "pragma circom 2.0.0;\ntemplate DupL() { signal input a; signal output b; b <== a; }\ntemplate DupL() { signal input a; signal output b; b <== a; }\n"
    for nm, m in (("anonymous-component-in-main-arguments-library", "T0(T0()(1))"), ("tuple-as-main-library", "(1, 2)")):
        no_main = "\n".join(l for l in base_plain.split("\n") if "component main" not in l) + "\n"
        out.append((nm, None, {"main.circom": no_main.replace(";\n", ";\ninclude \"dup_lib.circom\";\n", 1) + "component main = %s;\n" % m, "dup_lib.circom": dup_lib}, ["main.circom"]))
    out.append(("read-before-assignment", None, {"main.circom": base + "function badv(a) { var x; return a + x; }\n"}, ["main.circom"]))
    second = "pragma circom 2.0.0;\ntemplate Other() { signal input a; signal output b; b <== a; }\ncomponent main = Other();\n"
    out.append(("several-main-components", None, {"main.circom": base_plain, "second.circom": second}, ["main.circom", "second.circom"]))
    # ... the second one in a file that is only included (seeded C02 m7: the error got labels, and a label in a file that is not named is
    # filtered), also two includes down
    inc_main = "pragma circom 2.0.0;\ntemplate Leftover() { signal input a; signal output b; b <== a; }\ncomponent main = Leftover();\n"
    out.append(("several-main-components-one-included", None, {"main.circom": base_plain.replace(";\n", ";\ninclude \"lib_main.circom\";\n", 1), "lib_main.circom": inc_main},
                ["main.circom"]))
    out.append(("several-main-components-one-included-at-depth-2", None,
                {"main.circom": base_plain.replace(";\n", ";\ninclude \"mid_main.circom\";\n", 1),
                 "mid_main.circom": "pragma circom 2.0.0;\ninclude \"lib_main.circom\";\ntemplate MidM() { signal input a; signal output b; b <== a; }\n", "lib_main.circom": inc_main},
                ["main.circom"]))
    # the failing file is itself named on the command line and is also included by another named file (either order): it stays a
    # user input, so its errors are displayed (seeded C02 m3)
    top = base_plain.replace(";\n", ";\ninclude \"lib_bad.circom\";\n", 1)
    lib_syntax = "pragma circom 2.0.0;\ntemplate LibBroken( { signal input a; }\n"
    lib_collision = "pragma circom 2.0.0;\nfunction libbad(a, a) { return a; }\n"
    # duplicate definitions: the tool keeps one definition per name, so the other one is dropped and must be reported — with and
    # without a main component, inside one file and across a named file and a file it includes (fixed finding F-C02-duplicates)
    dup_t = "template DupT() { signal input a; signal output b; b <-- a; }\ntemplate DupT() { signal input a; signal output b; b <== a * a; }\n"
    dup_f = "function dupf(a) { return a; }\nfunction dupf(a) { return a + 1; }\n"
    out.append(("duplicate-template-no-main", None, {"main.circom": "pragma circom 2.0.0;\n" + dup_t}, ["main.circom"]))
    out.append(("duplicate-function-no-main", None, {"main.circom": "pragma circom 2.0.0;\n" + dup_f}, ["main.circom"]))
    out.append(("duplicate-template-with-main", None, {"main.circom": base + dup_t}, ["main.circom"]))
    lib_dup = "pragma circom 2.0.0;\ntemplate DupT() { signal input a; signal output b; b <== a; }\n"
    top_dup = (base + "template DupT() { signal input a; signal output b; b <== a * a; }\n").replace(";\n", ";\ninclude \"lib_dup.circom\";\n", 1)
    out.append(("duplicate-template-named-and-included-file", None, {"main.circom": top_dup, "lib_dup.circom": lib_dup}, ["main.circom"]))
    # a function and a template with the same name (one of them is dropped), with and without a main component, in one file and across two
    dup_x = "function DupX(a) { return a; }\ntemplate DupX() { signal input a; signal output b; b <== a; }\n"
    out.append(("duplicate-function-template-no-main", None, {"main.circom": "pragma circom 2.0.0;\n" + dup_x}, ["main.circom"]))
    out.append(("duplicate-template-function-no-main", None, {"main.circom": "pragma circom 2.0.0;\ntemplate DupY() { signal input a; signal output b; b <== a; }\nfunction DupY(a) { return a; }\n"}, ["main.circom"]))
    out.append(("duplicate-function-template-with-main", None, {"main.circom": base + dup_x}, ["main.circom"]))
    out.append(("duplicate-function-template-two-files", None,
                {"main.circom": "pragma circom 2.0.0;\nfunction DupZ(a) { return a; }\n", "second.circom": "pragma circom 2.0.0;\ntemplate DupZ() { signal input a; signal output b; b <== a; }\n"},
                ["main.circom", "second.circom"]))
    # definitions the tool has to drop because of how they use a template that lives in an included file which is NOT named on the
    # command line: the error belongs to the named file (seeded C02 m5: a report anchored in the library would be filtered out)
    lib_ok = ("pragma circom 2.0.0;\ntemplate LibT(n) { signal input in; signal output out; out <== in * n; }\n"
              "template LibV() { signal input a; signal input b; signal output o1; signal output o2; o1 <== a; o2 <== a * b; }\n")
    top_ok = lambda body: {"main.circom": (base + body).replace(";\n", ";\ninclude \"lib_ok.circom\";\n", 1), "lib_ok.circom": lib_ok}
    for nm, body in (
            ("anon-too-many-inputs", "template BadL1() { signal input i; signal output o; o <== LibT(1)(i, i, i); }\n"),
            ("anon-too-few-inputs", "template BadL2() { signal input i; signal output o; signal output p; (o, p) <== LibV()(i); }\n"),
            ("anon-unknown-input-name", "template BadL3() { signal input i; signal output o; o <== LibT(1)(nosuch <== i); }\n"),
            ("anon-missing-named-input", "template BadL4() { signal input i; signal output o; signal output p; (o, p) <== LibV()(a <== i); }\n"),
            ("anon-output-arity", "template BadL5() { signal input i; signal output o; signal output p; (o, p) <== LibT(1)(i); }\n"),
            ("anon-in-loop-too-many-inputs", "template BadL6() { signal input i; signal output o[2]; for (var k = 0; k < 2; k++) { o[k] <== LibT(k)(i, i); } }\n")):
        out.append(("library-template-%s" % nm, None, top_ok(body), ["main.circom"]))
    # an included file that cannot be parsed (audit C05 f1): its definitions are missing from the analysis of the named file, so the
    # failure has to be visible from the named file — at the include statement
    for nm, lib in (("syntax", lib_syntax), ("unterminated-comment", "pragma circom 2.0.0;\ntemplate LibOk() { signal input a; signal output b; b <== a; }\n/* never closed"),
                    ("lexical", "pragma circom 2.0.0;\ntemplate LibOk() { signal input a; @ }\n")):
        out.append(("included-only-file-%s" % nm, None, {"main.circom": top, "lib_bad.circom": lib}, ["main.circom"]))
        # … also when the broken file is reached through other included files only (audit C05 round 2 f1: the error and the report at
        # the include statement were both in files that are not named, so nothing was displayed)
        mid = "pragma circom 2.0.0;\ninclude \"%s\";\ntemplate Mid%d() { signal input a; signal output b; b <== a; }\n"
        top2 = base_plain.replace(";\n", ";\ninclude \"mid1.circom\";\n", 1)
        out.append(("included-at-depth-2-file-%s" % nm, None, {"main.circom": top2, "mid1.circom": mid % ("lib_bad.circom", 1), "lib_bad.circom": lib}, ["main.circom"]))
        out.append(("included-at-depth-3-file-%s" % nm, None, {"main.circom": top2, "mid1.circom": mid % ("mid2.circom", 1), "mid2.circom": mid % ("lib_bad.circom", 2),
                                                               "lib_bad.circom": lib}, ["main.circom"]))
    # … and when a file that is only included includes a file that does not exist (review of b4f5d8c: the error is located in the file that is
    # not named, the definitions of the missing file are missing from the analysis of the named one)
    mid = "pragma circom 2.0.0;\ninclude \"%s\";\ntemplate Mid%d() { signal input a; signal output b; b <== a; }\n"
    top2 = base_plain.replace(";\n", ";\ninclude \"mid1.circom\";\n", 1)
    out.append(("missing-file-included-at-depth-2", None, {"main.circom": top2, "mid1.circom": mid % ("nosuch.circom", 1)}, ["main.circom"]))
    out.append(("missing-file-included-at-depth-3", None, {"main.circom": top2, "mid1.circom": mid % ("mid2.circom", 1), "mid2.circom": mid % ("sub/nosuch.circom", 2)},
                ["main.circom"]))
    for nm, lib in (("syntax", lib_syntax), ("collision", lib_collision)):
        out.append(("named-and-included-%s-lib-first" % nm, None, {"main.circom": top, "lib_bad.circom": lib}, ["lib_bad.circom", "main.circom"]))
        out.append(("named-and-included-%s-lib-last" % nm, None, {"main.circom": top, "lib_bad.circom": lib}, ["main.circom", "lib_bad.circom"]))
    return out


def run(ctx):
    vlib.build_harness()
    cli = vlib.build_cli()
    ok, failing = vlib.theorem_gate(ctx, ["C02"])
    nseed = 3 if ctx.tier == "quick" else 12
    stats = collections.Counter()
    by_class = collections.Counter()
    samples = []
    with vlib.Workdir("c02") as wd:
        jobs = []
        seeds = []
        for s in range(nseed):
            # a seed must itself be clean at --level error, so that every error seen later is due to the injection
            for attempt in range(50):
                toks, defs = clean_project(ctx.rng)
                req0 = rl.materialize(wd, "s%d/try%d" % (s, attempt), {"files": {"main.circom": gen.render(toks)}, "inputs": ["main.circom"], "libs": []})
                if rl.run_cli(cli, req0, level="error")["rc"] == 0:
                    break
            seeds.append((toks, defs))
            for (cls, pos, files, inputs) in injections(ctx.rng, toks, defs, ctx.tier):
                tag = "s%d/%s_%s" % (s, cls, pos)
                req = rl.materialize(wd, tag, {"files": files, "inputs": inputs, "libs": []})
                os.makedirs(req["base"], exist_ok=True)
                for level in (None, "error"):
                    jobs.append((s, cls, pos, files, inputs, req, level))
        # the clean seeds themselves (C02_clean direction)
        clean_jobs = []
        for s, (toks, defs) in enumerate(seeds):
            req = rl.materialize(wd, "s%d/clean" % s, {"files": {"main.circom": gen.render(toks)}, "inputs": ["main.circom"], "libs": []})
            clean_jobs.append((s, defs, req))

        res = rl.pmap(lambda j: rl.run_cli(cli, j[5], level=j[6]), jobs)
        for (s, cls, pos, files, inputs, req, level), r in zip(jobs, res):
            stats["injected runs"] += 1
            by_class[cls] += 1
            errs = [d for d in r["diags"] if d[0] == "error"]
            bad = None
            if r["rc"] not in (1,):
                bad = "exit status %s" % r["rc"]
            elif not errs:
                bad = "no error-level diagnostic displayed"
            elif r["summary"] is None or r["summary"].startswith("No issues"):
                bad = "summary %r" % r["summary"]
            if bad:
                ctx.violation("silent-failure %s" % cls,
                              {"stage": "L1 failure injection", "failure_class": cls, "token_position": pos, "level": level or "default",
                               "files": {k: (v if isinstance(v, str) else repr(v)) for k, v in files.items()}, "inputs": inputs,
                               "observed": bad, "argv": r["argv"], "stdout_tail": r["stdout"][-800:], "stderr_tail": r["stderr"][-400:], "broken": None})
            elif len(samples) < 3 and level is None and cls in ("lexical-error", "parameter-collision-function", "missing-file-alone"):
                samples.append({"class": cls, "position": pos, "exit": r["rc"], "first_error": errs[0][2], "summary": r["summary"]})
        # hypotheses of the theorems on the real pipeline: every failed lift carries a visible error report
        areqs = [json.dumps({"inputs": j[5]["inputs"], "libs": [], "curve": "BN254"}) for j in jobs if j[6] is None and j[1] in
                 ("parameter-collision-function", "parameter-collision-template", "read-before-assignment")]
        for line in vlib.run_harness_robust("isolate", areqs):
            if not line.startswith("{"):
                continue
            for d in json.loads(line)["defs"]:
                if not d["ok"]:
                    stats["failed lifts inspected"] += 1
                    vis = [x for x in d["gen"] if x["level"] == "error" and (not x["primary"] or x["user_input"])]
                    if not vis:
                        ctx.violation("gen-failure-unreported %s" % d["name"],
                                      {"stage": "hypothesis GenFailuresReported of C02_lift_failure is false on the real code",
                                       "definition": d["name"], "gen_reports": d["gen"], "broken": None})
        # clean direction
        cres = rl.pmap(lambda j: rl.run_cli(cli, j[2], level="error"), clean_jobs)
        for (s, defs, req), r in zip(clean_jobs, cres):
            stats["clean runs"] += 1
            analysed = set(re.findall(r"analyzing (?:template|function) '(.*?)'", r["stdout"]))
            want = {n for _, n, _ in defs}
            if r["rc"] == 0 and not want <= analysed:
                ctx.violation("clean-but-not-analysed", {"stage": "L1 exit 0 implies all analysed", "argv": r["argv"],
                                                         "not_analysed": sorted(want - analysed), "stdout_tail": r["stdout"][-800:], "broken": None})
    if not ok:
        ctx.violation("theorem " + ";".join(failing)[:200], {"broken": "theorem", "failing": failing}, no_input=True)
    cov = ctx.coverage
    cov["evaluations"] = stats["injected runs"] + stats["clean runs"]
    cov["distinct_nontrivial"] = stats["injected runs"] + stats["clean runs"]
    cov["rule"] = ("%d clean generated seed projects; into each, every failure class (%d classes) is injected, lexical and syntactic "
                   "errors at %s token position; each injected project is run through the real binary at the default level and "
                   "with --level error; a case = one run" % (nseed, len(by_class), "25 random" if ctx.tier == "quick" else "every"))
    cov["failure_classes"] = dict(by_class)
    cov["distribution"] = dict(stats)
    cov["samples"] = samples or [{"note": "see failure_classes"}]
    ctx.assumptions += [
                        "running as root, permission-based unreadability cannot be produced; invalid UTF-8 and a directory stand in for it"]


def replay(ctx, path):
    r = json.load(open(path))
    print(json.dumps(r, indent=1)[:3000])
    ctx.coverage["evaluations"] = 1
