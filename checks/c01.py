"""C01 — totality: no input makes the analyzer panic, abort or hang.
Theorems: Props/C01.lean (the stage models never reach the states that correspond to the panic sites
of the modelled code: desugaring `unreachable!`s, IR lifting `panic!`s on surviving sugar; the loops
have sufficient iteration bounds) + the theorems of the other properties that discharge panic sites
(C15, C16, C18, C19).
Tie: (1) tools/panic_scan.py extracts every panic site of the non-test code and compares the set with
ledger/panic_sites.json, where each site has a disposition; a site that is new or whose text changed
is an undischarged obligation. (2) Outcome correspondence / search: the whole pipeline, in-process
and through the real binary, on grammar-generated programs (all statement and expression forms,
sugar, shadowing, includes of the other properties' generators), token-level and byte-level
mutations, odd literals, pragmas, strings, comment shapes, nesting up to a modest depth, arbitrary
and non-UTF-8 bytes, for the three curves and the three levels: the only accepted outcomes are a
normal return in-process, and exit status 0 or 1 with the summary line for the binary, within the
time limit. (3) Wide inputs (`wide`: hundreds of consecutive ifs / loops / chained signals / reassignments,
thousands of terms / arguments / elements): each alone through the real binary under a time and an
address-space limit — time and memory in proportion to the size of the input."""
import collections
import subprocess
import signal
import threading
import time
import hashlib
import json
import os
import re
import subprocess
import sys
import vlib
import gen
from checks import runnerlib as rl

CURVES = ["BN254", "BLS12_381", "GOLDILOCKS"]
LEVELS = ["info", "warning", "error"]

VOCAB = [str(21888242871839275222246405745257275088548364400416034343698204186575808495617 * 2), "18446744069414584321", "52435875175126190479447740508185965837690552500527637822603658699938581184513", "template", "function", "signal", "input", "output", "var", "component", "if", "else", "for", "while", "return", "assert", "log",
         "include", "pragma circom", "pragma", "circom", "custom_templates", "custom", "parallel", "public", "main", "(", ")", "[", "]", "{", "}", ";", ",", ".",
         "<==", "==>", "<--", "-->", "===", "=", "+=", "-=", "*=", "**=", "/=", "\\=", "%=", "<<=", ">>=", "&=", "|=", "^=", "++", "--",
         "+", "-", "*", "**", "/", "\\", "%", "<<", ">>", "&", "|", "^", "~", "!", "&&", "||", "==", "!=", "<", ">", "<=", ">=", "?", ":", "_",
         "0", "1", "2", "0x", "0x0", "0xff", "0xFFFFFFFFFFFFFFFFFFFFFFFFFFFFFFFFFFFFFFFFFFFFFFFFFFFFFFFFFFFFFFFFFFFF", "00", "1e3", "253", "254", "255", "256",
         "21888242871839275222246405745257275088548364400416034343698204186575808495617",
         "115792089237316195423570985008687907853269984665640564039457584007913129639936",
         "99999999999999999999999999999999999999999999999999999999999999999999999999999999999999999999",
         "a", "b", "x", "in", "out", "i", "T0", "f0", "\"s\"", "\"\"", "\"é\"", "2.0.0", "2.1.4", "2.99999999999999999999999.0", "99999999999999999999.1.1", "2.0", "é", "$", "#", "@", "'", "\"", "/*", "*/", "//"]

PRIMES = {"BN254": 21888242871839275222246405745257275088548364400416034343698204186575808495617,
          "BLS12_381": 52435875175126190479447740508185965837690552500527637822603658699938581184513,
          "GOLDILOCKS": 18446744069414584321}


def prime_specials():
    """operators whose right operand is 0 only after reduction modulo the prime (and neighbours)"""
    out = []
    for name, p in PRIMES.items():
        # ... and the boundaries of the shift rules (seeded C01 m5: `>>` by exactly (p - 1) / 2 bounced between shift_r and shift_l for ever)
        bl = p.bit_length()
        for k in (p, 2 * p, p - 1, p + 1, 3 * p, p // 2, p // 2 + 1, p // 2 - 1, bl, bl - 1, bl + 1, p - bl, p - bl + 1):
            body = " ".join("var v%d = 7 %s %d;" % (i, op, k) for i, op in enumerate(["\\", "%", "/", "<<", ">>", "**", "*", "+", "-", "&", "|", "^", "<", "=="]))
            out.append((name, "pragma circom 2.0.0;\nfunction f() { %s var w = ~%d; var z = -%d; var b = !%d; return v0; }\n" % (body, k, k, k)))
            out.append((name, "pragma circom 2.0.0;\ntemplate T() { signal input a; signal output o; o <-- a \\ %d; o === a %% %d; log(a / %d, a << %d); }\n" % (k, k, k, k)))
    return out


SPECIAL = [
    "pragma circom 2.99999999999999999999999.0;\ntemplate T() { }\n",
    "pragma circom 99999999999999999999.1.1;\ntemplate T() { }\n",
    "pragma circom 2.0.0;\nfunction f() { return 0x; }\n",
    "pragma circom 2.0.0;\nfunction f() { return 0xg; }\n",
    "pragma circom 2.0.0;\nfunction f() { return 1 % 0; }\n",
    "pragma circom 2.0.0;\nfunction f() { return 1 \\ 0; }\n",
    "pragma circom 2.0.0;\nfunction f() { return 1 / 0; }\n",
    "pragma circom 2.0.0;\nfunction f() { return 1 << 100000000000; }\n",
    "pragma circom 2.0.0;\nfunction f() { return 1 >> 100000000000; }\n",
    "pragma circom 2.0.0;\nfunction f() { return 2 ** 100000000000; }\n",
    "pragma circom 2.0.0;\nfunction f() { return 2 ** (2 ** 200); }\n",
    "pragma circom 2.0.0;\nfunction f() { return (0 - 1) ** (0 - 1); }\n",
    "pragma circom 2.0.0;\ntemplate T() { signal input c; signal output o; if (c) { o <-- 1; } else { o <-- 2; } }\n",
    "pragma circom 2.0.0;\ntemplate T() { signal input a; assert((a,a)); }\n",
    "pragma circom 2.0.0;\ntemplate U() { signal input in; signal output out; out <== in; }\nfunction f(x) { var r = 0; if (x) { r = U()(x); } else { r = 2; } return r; }\n",
    "pragma circom 2.0.0;\nfunction f(x) { var r = 0; if (x) { r = 2; } else { r = (x, 1); } return r; }\n",
    "pragma circom 2.0.0;\nfunction f(x) { var r = 0; while (x) { if (x) { r = (x, 1); } else { r = 1; } } return r; }\n",
    "pragma circom 2.0.0;\nfunction f(x) { var r = 0; { { if (x) { 1 + 2 = 3; } else { r = 1; } } } return r; }\n",
    "pragma circom 2.0.0;\ntemplate T() { signal input a; signal output o; if (a == 1) { assert((a, a)); } else { o <== a; } }\n",
    "pragma circom 2.0.0;\ntemplate U() { signal input in; signal output out; out <== in; }\ntemplate T() { signal input a; signal output o; for (var i = 0; i < 2; i++) { if (i == 0) { o <== a; } else { log(1 + U()(a)); } } }\n",
    "pragma circom 2.0.0;\ntemplate T() { signal input a; signal input b; log(\"values\", (a, b + (a, b))); }\n",
    "pragma circom 2.0.0;\ntemplate T() { signal input a; signal input b; log((a, (b, -(a, b)))); }\n",
    "pragma circom 2.0.0;\ntemplate T() { signal input a; signal output o; signal output p; (o, p) <== (a, a + (a, a)); }\n",
    "pragma circom 2.0.0;\ntemplate T() { log(\"" + "a" * 229 + "ééé\"); }\n",
    "pragma circom 2.0.0;\ntemplate T() { log(\"" + "é" * 300 + "\"); }\n",
    "pragma circom 2.0.0;\ntemplate T() { signal input a; log(\"" + "x" * 1000 + "\", a, \"é\"); }\n",
    "pragma circom 2.0.0;\ntemplate T() { var x = \"s\"; }\n",
    "pragma circom 2.0.0;\ntemplate T(n, n) { }\n",
    "pragma circom 2.0.0;\ntemplate T() { } template T() { }\n",
    "pragma circom 2.0.0;\nfunction f() { return f(); }\n",
    "pragma circom 2.0.0;\ntemplate T() { component c = T(); }\ncomponent main = T();\n",
    "pragma circom 2.0.0;\ncomponent main = Nope();\n",
    "pragma circom 2.0.0;\ncomponent main {public [a, a]} = T();\ntemplate T() { signal input a; }\n",
    "pragma circom 2.0.0;\ncomponent main = T()(1);\ntemplate T() { signal input a; }\n",
    "pragma circom 2.0.0;\ntemplate T() { signal input a[2][3]; signal output b; b <== a[5][7]; }\n",
    "pragma circom 2.0.0;\ntemplate T() { var a[0]; var b[1 - 2]; a[0] = 1; }\n",
    "pragma circom 2.0.0;\ntemplate T() { var a = [1, [2, 3]]; var b = [][0]; }\n",
    "pragma circom 2.0.0;\ntemplate T() { signal input a; signal output b; b <== a.x.y[1].z; }\n",
    "pragma circom 2.0.0;\ntemplate T() { component c; c.a <== 1; c[1] = T(); }\n",
    "pragma circom 2.0.0;\ntemplate T() { signal output o; o <== Num2Bits(254)(1)[0]; }\n",
    "pragma circom 2.0.0;\ntemplate T() { signal input in; component n = Num2Bits(254); n.in <== in; component l = LessThan(300); l.in[0] <== in; }\n",
    "pragma circom 2.0.0;\ntemplate T() { signal input a; signal output b; b <== a ? a : a ? a : a; b === !a; b === ~a; b === -a; }\n",
    "pragma circom 2.0.0;\ntemplate T() { for (;;) { } }\n",
    "pragma circom 2.0.0;\ntemplate T() { while (1) { } var x = 1; }\n",
    "pragma circom 2.0.0;\ntemplate T() { if (1) { } else if (2) { } else { } }\n",
    "pragma circom 2.0.0;\ntemplate T() { return 1; } function f() { }\n",
    "pragma circom 2.0.0;\ntemplate T() { signal input a; a <== a; a <-- a; a === a; }\n",
    "pragma circom 2.0.0;\ntemplate T() { var x; x++; x--; x += x; x **= x; x \\= x; x <<= 1000; x >>= 1000; }\n",
    "pragma circom 2.0.0;\npragma custom_templates;\ntemplate custom T() { signal input a; signal output b; b <-- a; }\n",
    "pragma circom 2.0.0;\ntemplate parallel T() { signal input a; signal output b; b <== parallel U()(a); }\ntemplate U() { signal input in; signal output out; out <== in; }\n",
    "pragma circom 2.0.0;\ninclude \"\";\ninclude \"/\";\ninclude \"\\0\";\n",
    "pragma circom 2.0.0;\ntemplate T() { signal input {tag} a; signal output {t1, t2} b; b <== a; a.tag === 1; }\n",
    "pragma circom 2.0.0;\ntemplate T() { signal input a; signal output b; (b) <== (a); (_) <== (a); () <== (); }\n",
    "pragma circom 2.0.0;\ntemplate T() { var (a, b) = (1); var (c) = (1, 2); signal (d, e); component (g, h) = (T(), T()); }\n",
    "pragma circom 2.0.0;\ntemplate T() { signal input a; _ <== a; _ <-- a; a ==> _; _ === a; var _ = 1; }\n",
    "\ufeffpragma circom 2.0.0;\ntemplate T() { }\n",
    "pragma circom 2.0.0;\r\ntemplate T() {\r\n}\r\n",
    "",
    "\n",
    "/*",
    "//",
    "\"",
    "pragma",
    "template",
]


def nest(kind, depth):
    if kind == "paren":
        return "pragma circom 2.0.0;\nfunction f(a) { return " + "(" * depth + "a" + ")" * depth + "; }\n"
    if kind == "unary":
        return "pragma circom 2.0.0;\nfunction f(a) { return " + "-" * depth + "a; }\n"
    if kind == "sum":
        return "pragma circom 2.0.0;\nfunction f(a) { return " + "+".join(["a"] * depth) + "; }\n"
    if kind == "ternary":
        return "pragma circom 2.0.0;\nfunction f(a) { return " + "a ? a : " * depth + "a; }\n"
    if kind == "block":
        return "pragma circom 2.0.0;\nfunction f(a) { " + "{" * depth + "a = 1;" + "}" * depth + " return a; }\n"
    if kind == "if":
        return "pragma circom 2.0.0;\nfunction f(a) { " + "if (a) { " * depth + "a = 1;" + " }" * depth + " return a; }\n"
    if kind == "else":
        return "pragma circom 2.0.0;\nfunction f(a) { " + "if (a == 1) { a = 2; } else " * depth + "{ a = 3; } return a; }\n"
    if kind == "while":
        return "pragma circom 2.0.0;\nfunction f(a) { " + "while (a) { " * depth + "a = 1;" + " }" * depth + " return a; }\n"
    if kind == "index":
        return "pragma circom 2.0.0;\nfunction f(a) { return a" + "[0]" * depth + "; }\n"
    if kind == "array":
        return "pragma circom 2.0.0;\nfunction f(a) { var x = " + "[" * depth + "1" + "]" * depth + "; return a; }\n"
    if kind == "tuple":
        return "pragma circom 2.0.0;\ntemplate T() { signal input a; signal output b; " + "(" * depth + "b, _" + ")" * depth + " <== " + "(" * depth + "a, a" + ")" * depth + "; }\n"
    if kind == "anon":
        return ("pragma circom 2.0.0;\ntemplate U() { signal input in; signal output out; out <== in; }\ntemplate T() { signal input a; signal output b; b <== "
                + "U()(" * depth + "a" + ")" * depth + "; }\n")
    if kind == "stmts":
        return "pragma circom 2.0.0;\nfunction f(a) { " + "a = a + 1; " * depth + "return a; }\n"
    # right-nested arithmetic over signals whose innermost operand has no known value / degree (a call on a signal):
    # propagation needs one pass per level, and no pass may cost more than the size of the expression
    head = "pragma circom 2.0.0;\nfunction g(x) { return x + 1; }\ntemplate T() { signal input a; signal output b; "
    if kind == "rnest":
        return head + "b <-- " + "1 + (a + " * depth + "g(a)" + ")" * depth + "; }\n"
    if kind == "horner":
        return head + "b <-- " + "3 + a * (" * depth + "g(a)" + ")" * depth + "; }\n"
    if kind == "rcond":
        return head + "var v = g(a); if (" + "1 + (v * " * depth + "v" + ")" * depth + " == 0) { b <== a; } else { b <== 0; } }\n"
    if kind == "comment":
        return "pragma circom 2.0.0;\n" + "/* x */ " * depth + "\nfunction f(a) { return a; }\n"
    # an index expression that is itself an array access, and so on: the work per level must not multiply
    if kind == "idxnest":
        return "pragma circom 2.0.0;\nfunction f(x) { var r = " + "x[" * depth + "8" + "]" * depth + "; return r; }\n"
    if kind == "idxsig":
        return "pragma circom 2.0.0;\ntemplate T() { signal input in[9]; signal output out; out <-- " + "in[" * depth + "0" + "]" * depth + "; }\n"
    if kind == "idxupd":
        return "pragma circom 2.0.0;\nfunction f(x) { var a[9]; a[" + "a[" * depth + "0" + "]" * depth + "] = x; return a[0]; }\n"
    if kind == "callnest":
        return "pragma circom 2.0.0;\nfunction g(x) { return x + 1; }\nfunction f(x) { return " + "g(" * depth + "x" + ")" * depth + "; }\n"
    if kind == "idxcall":
        return "pragma circom 2.0.0;\nfunction g(x) { return x + 1; }\nfunction f(x) { var a[9]; return " + "a[g(" * depth + "x" + ")]" * depth + "; }\n"
    return ""


NEST_KINDS = ["paren", "unary", "sum", "ternary", "block", "if", "else", "while", "index", "array", "tuple", "anon", "stmts", "comment",
              "rnest", "horner", "rcond", "idxnest", "idxsig", "idxupd", "callnest", "idxcall"]
MODEST_DEPTH = 100     # the property speaks of inputs of modest size


def wide(kind, n):
    """inputs that are wide rather than deep: `n` statements / terms / signals one after the other"""
    H = "pragma circom 2.0.0;\n"
    if kind == "ifs":          # every `if` is a branch whose extent the taint analysis has to find
        return H + "function f(x) { var r = 0; " + "".join("if (x == %d) { r = %d; } " % (i, i) for i in range(n)) + "return r; }\n"
    if kind == "elseifs":
        return H + "function f(x) { var r = 0; " + "".join("if (x == %d) { r = %d; } else " % (i, i) for i in range(n)) + "{ r = 1; } return r; }\n"
    if kind == "loops":
        return H + "function f(x) { var r = 0; " + "".join("for (var i%d = 0; i%d < x; i%d++) { r += %d; } " % (i, i, i, i) for i in range(n)) + "return r; }\n"
    if kind == "sigchain":     # a chain of intermediate signals, each constrained by the one before
        return (H + "template T() { signal input a; signal output b; " + "".join("signal s%d; " % i for i in range(n)) + "s0 <== a * a; "
                + "".join("s%d <== s%d * s%d; " % (i, i - 1, i - 1) for i in range(1, n)) + "b <== s%d; }\ncomponent main = T();\n" % (n - 1))
    if kind == "sum":          # one expression with n leaves: every node caches the uses below it
        return H + "template T() { signal input a; signal output b; b <== " + "+".join(["a"] * n) + "; }\ncomponent main = T();\n"
    if kind == "varchain":
        return H + "function f(x) { var v0 = x; " + "".join("var v%d = v%d + 1; " % (i, i - 1) for i in range(1, n)) + "return v%d; }\n" % (n - 1)
    if kind == "reassign":
        return H + "function f(x) { var v = x; " + "v = v * 3 + 1; " * n + "return v; }\n"
    if kind == "args":
        return H + "function g(" + ", ".join("p%d" % i for i in range(n)) + ") { return p0; }\nfunction f(x) { return g(" + ", ".join(["x"] * n) + "); }\n"
    if kind == "templates":
        return H + "".join("template T%d() { signal input a; signal output b; b <== a + %d; }\n" % (i, i) for i in range(n))
    if kind == "array":
        return H + "function f(x) { var a[%d] = [" % n + ", ".join(["x"] * n) + "]; return a[0]; }\n"
    return ""


# kind -> n: each is 4-16 KB of source; the limits below are per input, on the debug build of the real binary
WIDE = {"ifs": 400, "elseifs": 400, "loops": 120, "sigchain": 800, "sum": 2000, "varchain": 800, "reassign": 600, "args": 1000, "templates": 300, "array": 1500}
WIDE_SECONDS = 40               # CPU seconds on the machine the sizes were chosen on; scaled by the speed measured at run time
WIDE_REFERENCE = ("varchain", 800, 5.7)   # an input whose cost the three repairs did not change, and its CPU seconds on that machine
WIDE_MEMORY = 3 * 1024 ** 3      # address space, 1 GiB of which is the stack the tool reserves for its analysis thread


def run_wide(cli, path, seconds=None):
    """the real binary on one wide input, alone in its process, within the limits on CPU time and address space (CPU time, so that a
    loaded machine is not mistaken for a slow tool; the wall clock only bounds a process that sleeps); returns (None or what went
    wrong, CPU seconds)"""
    seconds = int(seconds or WIDE_SECONDS)

    def lim():
        import resource
        resource.setrlimit(resource.RLIMIT_AS, (WIDE_MEMORY, WIDE_MEMORY))
        resource.setrlimit(resource.RLIMIT_CPU, (seconds, seconds + 5))
    import tempfile
    with tempfile.TemporaryFile() as fo, tempfile.TemporaryFile() as fe:
        p = subprocess.Popen([cli, path], stdout=fo, stderr=fe, preexec_fn=lim)
        pid = p.pid
        timer = threading.Timer(8 * seconds, lambda: os.kill(pid, signal.SIGKILL))
        timer.start()
        try:
            _, status, ru = os.wait4(pid, 0)
        finally:
            timer.cancel()
        p.returncode = rc = os.waitstatus_to_exitcode(status)
        cpu = ru.ru_utime + ru.ru_stime
        fo.seek(0)
        fe.seek(0)
        out = fo.read().decode("utf-8", "replace")
        err = fe.read()
    if rc in (-signal.SIGXCPU, -signal.SIGKILL):
        return "no result within %d s of CPU time (%d s scaled by the speed of this machine)" % (seconds, WIDE_SECONDS), seconds
    if rc not in (0, 1) or not re.search(r"^circomspect: .*(issue|issues) found\.$", out, re.M):
        return "exit status %s under a %d MB address-space limit, stderr: %s" % (rc, WIDE_MEMORY >> 20, err.decode("utf-8", "replace")[-200:]), cpu or 0
    return None, cpu or 0


def mutate_tokens(rng, toks):
    toks = list(toks)
    for _ in range(rng.below(4) + 1):
        if not toks:
            break
        k = rng.below(6)
        i = rng.below(len(toks))
        if k == 0:
            del toks[i]
        elif k == 1:
            toks.insert(i, toks[i])
        elif k == 2:
            j = rng.below(len(toks))
            toks[i], toks[j] = toks[j], toks[i]
        elif k == 3:
            toks[i] = rng.choice(VOCAB)
        elif k == 4:
            toks.insert(i, rng.choice(VOCAB))
        else:
            j = min(len(toks), i + rng.below(6) + 1)
            del toks[i:j]
    return toks


def mutate_bytes(rng, data):
    b = bytearray(data)
    for _ in range(rng.below(4) + 1):
        k = rng.below(5)
        if not b:
            b += bytes([rng.below(256)])
            continue
        i = rng.below(len(b))
        if k == 0:
            b[i] = rng.below(256)
        elif k == 1:
            del b[i]
        elif k == 2:
            b.insert(i, rng.below(256))
        elif k == 3:
            b = b[:i]
        else:
            b[i:i] = bytes([0xc3, 0xa9])[: rng.below(2) + 1] if rng.chance(1, 2) else bytes([0xf0, 0x9f, 0x98])
    return bytes(b)


def gen_inputs(rng, n, tier):
    """yields (kind, bytes)"""
    out = []
    for s in SPECIAL:
        out.append(("special", s.encode("utf-8")))
    for curve, s in prime_specials():
        out.append(("special-" + curve, s.encode("utf-8")))
    for kind in NEST_KINDS:
        for depth in ([10, 50, MODEST_DEPTH] if tier == "quick" else [10, 25, 50, 75, MODEST_DEPTH]):
            out.append(("nest-%s-%d" % (kind, depth), nest(kind, depth).encode()))
    for k in range(n):
        toks, defs, stats = gen.project(rng, n_templates=rng.below(3) + 1, n_functions=rng.below(2) + 1, shadow=rng.chance(1, 2),
                                        sugar=rng.chance(1, 2), max_stmts=rng.below(8) + 2, main=rng.chance(2, 3))
        text = gen.render(toks, rng=rng, comments=gen.COMMENT_SHAPES if rng.chance(1, 4) else None)
        out.append(("generated", text.encode("utf-8")))
        for _ in range(2):
            out.append(("token-mutation", gen.render(mutate_tokens(rng, toks)).encode("utf-8")))
        out.append(("byte-mutation", mutate_bytes(rng, text.encode("utf-8"))))
        if k % 3 == 0:
            # tuples and anonymous components in every position, valid and invalid (the generator of C18): one definition per file, so that
            # an invalid one is followed by a main component that instantiates it
            from checks import c18
            g = c18.G(rng, k)
            nm, src, _ = g.function() if rng.chance(1, 5) else g.template()
            main = "component main = %s();\n" % nm if src.startswith("template") and rng.chance(2, 3) else ""
            out.append(("sugar", ("pragma circom 2.0.0;\n" + c18.HELPERS + src + "\n" + main).encode("utf-8")))
        if k % 5 == 0:
            out.append(("random-tokens", " ".join(rng.choice(VOCAB) for _ in range(rng.below(60) + 1)).encode("utf-8")))
        if k % 10 == 0:
            out.append(("random-bytes", bytes(rng.below(256) for _ in range(rng.below(200)))))
    return out


def shrink(data, still_fails, budget=60):
    """delta debugging on lines, then on bytes (bounded)"""
    cur = data
    for sep in (b"\n", b" ", None):
        parts = cur.split(sep) if sep else [bytes([c]) for c in cur]
        joiner = sep if sep else b""
        if len(parts) > 400:
            continue
        n = 2
        while len(parts) >= 2 and budget > 0:
            chunk = max(1, len(parts) // n)
            reduced = False
            for i in range(0, len(parts), chunk):
                cand = parts[:i] + parts[i + chunk:]
                budget -= 1
                if cand and still_fails(joiner.join(cand)):
                    parts = cand
                    n = max(n - 1, 2)
                    reduced = True
                    break
                if budget <= 0:
                    break
            if not reduced:
                if chunk == 1:
                    break
                n = min(len(parts), n * 2)
        cur = joiner.join(parts)
    return cur


def run(ctx):
    vlib.build_harness()
    cli = vlib.build_cli()
    ok, failing = vlib.theorem_gate(ctx, ["C01"])
    stats = collections.Counter()
    samples = []
    # ---- (1) the panic-site ledger --------------------------------------------------------------------
    rc, out, err = vlib.sh([sys.executable, os.path.join(vlib.VERIF, "tools", "panic_scan.py"), "--check"])
    ledger = json.loads(out) if out.strip().startswith("{") else {"error": (out + err)[-500:]}
    stats["panic sites"] = ledger.get("sites", 0)
    for k, v in (ledger.get("by_disposition") or {}).items():
        stats["sites: " + k] = v
    ledger_problems = ledger.get("problems", [ledger.get("error", "scanner failed")]) if (rc != 0 or "error" in ledger) else []
    # ---- (2) outcomes ---------------------------------------------------------------------------------
    n = 150 if ctx.tier == "quick" else 3000
    inputs = gen_inputs(ctx.rng, n, ctx.tier)
    found = []
    with vlib.Workdir("c01") as wd:
        reqs = []
        for i, (kind, data) in enumerate(inputs):
            p = wd.write("i%d/main.circom" % i, data)
            reqs.append(json.dumps({"inputs": [p], "libs": [], "curve": kind.split("-", 1)[1] if kind.startswith("special-") else CURVES[i % 3]}))
        replies = []
        for a in range(0, len(reqs), 150):
            replies += vlib.run_harness_robust("analyze", reqs[a:a + 150], timeout_per_batch=240)
        for i, ((kind, data), rep) in enumerate(zip(inputs, replies)):
            stats["in-process runs"] += 1
            stats["input kind: " + kind.split("-")[0] + ("-" + kind.split("-")[1] if kind.startswith("nest") else "")] += 1
            bad = None
            if rep.startswith("{"):
                try:
                    r = json.loads(rep)
                except Exception:
                    r = {"crash": rep[:200]}
                if "crash" in r:
                    bad = "panic " + r["crash"]
                else:
                    errs = sum(1 for e in r["events"] if "report" in e)
                    stats["inputs with reports" if errs else "clean inputs"] += 1
            elif rep.startswith("panic"):
                bad = rep
            else:
                bad = rep
            if bad:
                found.append((i, kind, data, bad))
        # the real binary on a sample + on everything that failed in-process
        nb = 40 if ctx.tier == "quick" else 400
        idxs = list(range(0, len(inputs), max(1, len(inputs) // nb)))[:nb]
        jobs = [(i, LEVELS[i % 3], CURVES[(i // 3) % 3]) for i in idxs]

        def runbin(job):
            i, level, curve = job
            p = os.path.join(wd.path, "i%d" % i, "main.circom")
            return rl.run_cli(cli, {"inputs": [p], "libs": [], "curve": curve}, level=level, timeout=30)
        for (i, level, curve), o in zip(jobs, rl.pmap(runbin, jobs)):
            stats["binary runs"] += 1
            if o["rc"] not in (0, 1) or o["summary"] is None:
                if not any(f[0] == i for f in found):
                    found.append((i, inputs[i][0], inputs[i][1], "binary rc=%s summary=%s stderr=%s" % (o["rc"], o["summary"], o["stderr"][-200:])))
            else:
                stats["binary exit %s" % o["rc"]] += 1
        # ---- (3) wide inputs: time and memory in proportion to the size of the input ----------------------
        wjobs = []
        for kind, nmax in WIDE.items():
            for nn in ([nmax] if ctx.tier == "quick" else [nmax // 4, nmax // 2, nmax]):
                wjobs.append((kind, nn, wd.write("w_%s_%d/main.circom" % (kind, nn), wide(kind, nn).encode())))
        # the limit is scaled by the speed of this machine, measured on the reference input (never below the nominal limit)
        rk, rn, rsec = WIDE_REFERENCE
        _, ref_cpu = run_wide(cli, wd.write("w_ref/main.circom", wide(rk, rn).encode()), seconds=10 * rsec)
        wide_seconds = max(WIDE_SECONDS, int(WIDE_SECONDS * ref_cpu / rsec))
        stats["wide: reference CPU seconds"] = round(ref_cpu, 1)
        stats["wide: CPU limit used"] = wide_seconds
        wres = rl.pmap(lambda j: run_wide(cli, j[2], seconds=wide_seconds), wjobs, workers=4)
        for (kind, nn, path), (bad, dt) in zip(wjobs, wres):
            if False and bad and bad.startswith("no result"):
                bad, dt = run_wide(cli, path)          # once more with the machine to itself, so that load is not mistaken for a hang
            stats["wide inputs"] += 1
            stats["wide-%s-%d seconds" % (kind, nn)] = round(dt, 1)
            if bad:
                ctx.violation("totality wide-%s %s" % (kind, re.sub(r"\d+", "N", bad)[:60]),
                              {"stage": "wide input: time and memory", "kind": "wide-%s-%d" % (kind, nn), "bytes": os.path.getsize(path), "outcome": bad,
                               "limits": {"cpu_seconds": wide_seconds, "nominal": WIDE_SECONDS, "address_space_mb": WIDE_MEMORY >> 20}, "input_utf8": open(path).read()[:3000],
                               "generator": "checks.c01.wide(%r, %d)" % (kind, nn), "broken": None})
        # group by failure site, shrink one representative of each
        groups = collections.OrderedDict()
        for i, kind, data, bad in found:
            site = re.sub(r"\d+", "N", bad.split("@")[-1] if "@" in bad else bad)[:120]
            groups.setdefault(site, []).append((i, kind, data, bad))
        for site, items in groups.items():
            i, kind, data, bad = min(items, key=lambda t: len(t[2]))

            def still_fails(cand, site=site):
                q = wd.write("shrink/main.circom", cand)
                rep = vlib.run_harness_robust("analyze", [json.dumps({"inputs": [q], "libs": [], "curve": CURVES[i % 3]})], timeout_per_batch=30)[0]
                if rep.startswith("{"):
                    try:
                        r = json.loads(rep)
                    except Exception:
                        return False
                    b2 = ("panic " + r["crash"]) if "crash" in r else None
                else:
                    b2 = rep
                return b2 is not None and re.sub(r"\d+", "N", b2.split("@")[-1] if "@" in b2 else b2)[:120] == site
            small = shrink(data, still_fails) if len(data) < 20000 and not bad.startswith("binary") else data
            ctx.violation("totality " + site[:100], {"stage": "outcome: panic / abort / hang", "kind": kind, "outcome": bad[:300], "occurrences": len(items),
                                                    "curve": CURVES[i % 3], "input_utf8": small.decode("utf-8", "replace")[:3000], "input_hex": small.hex()[:6000],
                                                    "broken": None})
    for pr in ledger_problems[:10]:
        ctx.violation("panic-ledger " + str(pr)[:100], {"stage": "panic-site ledger", "problem": pr, "broken": "ledger/panic_sites.json: undischarged panic site"}, no_input=True)
    if not ok:
        ctx.violation("theorem " + ";".join(failing)[:200], {"broken": "theorem", "failing": failing}, no_input=True)
    cov = ctx.coverage
    cov["evaluations"] = stats["in-process runs"] + stats["binary runs"]
    cov["distinct_nontrivial"] = stats["inputs with reports"] + stats["clean inputs"]
    cov["rule"] = ("%d special inputs (odd literals, pragmas, strings, arities, main component forms, tags, tuples) + %d nesting shapes x depths up to %d + %d "
                   "generated projects, each also with 2 token-level and 1 byte-level mutation, random token soup, random bytes; every input in-process "
                   "(curve by index), a sample through the real binary (3 levels x 3 curves, 30 s limit); plus the panic-site ledger (every unwrap/expect/"
                   "panic!/unreachable!/assert of the non-test code has a disposition)" % (len(SPECIAL), len(NEST_KINDS), MODEST_DEPTH, n))
    cov["distribution"] = dict(stats)
    cov["samples"] = samples or [{"ledger": {k: v for k, v in ledger.items() if k != "problems"}}]
    ctx.assumptions += ["inputs of modest size: nesting depth <= %d, width (consecutive statements / terms / signals / arguments) <= %d, file size <= 30 KB; "
                        "a wide input must finish within %d s of CPU time (scaled up on a slower machine by the CPU time of a reference input) in at most %d MB of address space on the debug build" % (MODEST_DEPTH, max(WIDE.values()), WIDE_SECONDS, WIDE_MEMORY >> 20),
                        "deeper inputs (tens of thousands of nested blocks overflow the 1 GiB stack of the analysis thread: audits/C01/f4) are not modest",
                        "panic sites with the dispositions `environment` (stdout / file-system failures) and `trusted` (third-party contracts) are not exercised"]


def replay(ctx, path):
    r = json.load(open(path))
    print(json.dumps(r, indent=1)[:3000])
    ctx.coverage["evaluations"] = 1
