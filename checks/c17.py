"""C17 — determinism and order-independence. Theorems: Props/C17.lean (any two analysis orders
display the same multiset; a definition's batch does not depend on the other definitions).
Tie: the real pipeline in N separate processes (fresh hash seeds) on the same project; the
definitions of a file permuted; input files permuted; unrelated definitions added. Findings are
normalised to (id, level, message, source text under each label, notes)."""
import collections
import json
import os
import vlib
import gen
from checks import runnerlib as rl


def findings(reply, sources, per_def=False):
    """multiset of normalised findings (or dict definition -> multiset)"""
    if "crash" in reply:
        return ("crash", reply["crash"][:100])
    parse, batches = rl.real_batches(reply)

    def norm(r):
        def lab(l):
            src = sources.get(os.path.basename(l["file"]), b"")
            return (os.path.basename(l["file"]), " ".join(src[l["start"]:l["end"]].decode("utf-8", "replace").split()), l["label"])
        return json.dumps([r["id"], r["level"], r["message"], sorted(lab(l) for l in r["primary"]),
                           sorted(lab(l) for l in r["secondary"]), r["notes"]])
    if per_def:
        return {n: sorted(norm(r) for r in rs) for _, n, rs in batches}
    return sorted([norm(r) for r in parse] + [norm(r) for _, _, rs in batches for r in rs])


HAND = [
    "pragma circom 2.0.0;\nfunction f(wide) { var n = 8; if (wide) { n = 16; } if (n == 8) { return 1; } return 2; }\n"
    "template T(wide) { signal input in; signal output out; var n = 8; if (wide == 1) { n = 16; } component c = Num2Bits(n); c.in <== in; out <== c.out[0]; }\n"
    "template Num2Bits(n) { signal input in; signal output out[n]; for (var i = 0; i < n; i++) { out[i] <-- (in >> i) & 1; } }\n",
    "pragma circom 2.0.0;\nfunction g(a, b) { var x = 1; var y = 2; if (a) { x = 2; y = 1; } else { if (b) { x = 3; } } if (x == y) { return 0; } if (x == 1) { return 1; } return y; }\n",
    "pragma circom 2.0.0;\ntemplate Inner(n) { signal input a; signal output b; var n = 2; b <-- a * n; b === a * 2; }\n"
    "template Outer() { signal input x; signal output y; component i = Inner(1); i.a <== x; y <== i.b; }\n"
    "template Third() { signal input p; signal input q; signal output r; r <-- p >> 1; p === r * 2; q === r * 2 + 1; }\n",
    # a template defined both in the named file and in a file it includes (which definition is kept and where the duplicate is
    # reported must not depend on hash order; fixed finding F-C02-duplicates)
    "pragma circom 2.0.0;\ntemplate DupT() { signal input a; signal output b; b <-- a; }\ntemplate DupT() { signal input a; signal output b; b <== a * a; }\n"
    "function dupf(a) { return a; }\nfunction dupf(a) { return a + 1; }\ntemplate Third() { signal input p; signal output r; r <-- p >> 1; p === r * 2; }\n",
    # several reads of never-assigned locals in sibling blocks: which one the SSA conversion reports must not depend on hash order
    "pragma circom 2.0.0;\nfunction f(n) { var a[2]; if (n) { n = a[0]; } else { n = a[1]; } return n; }\n"
    "function g(n) { var u; var w; for (var i = 0; i < 2; i++) { if (n) { n = u; } else { n = w + 1; } } if (n == 3) { return w; } return u; }\n"
    "template T(n) { signal input in; signal output out; var a[2]; var t; if (n == 1) { t = a[0]; out <== in; } else { t = a[1]; out <== in * in; } }\n",
    # templates that the desugaring rejects next to templates that instantiate them (anonymously and by name): what is reported for
    # the valid ones must not depend on the order in which the definitions are desugared (a hash map)
    "pragma circom 2.0.0;\ntemplate Dbl() { signal input in; signal output out; out <== 2 * in; }\n"
    "template BadA() { signal input in; signal output out; out <== Dbl()(in) + 1; }\n"
    "template BadB() { signal input in; signal output out; signal output p; (out, p) <== (in, in, in); }\n"
    "template UseA() { signal input a; signal input b; signal output out; signal t; t <-- a * b; out <== BadA()(t); }\n"
    "template UseB() { signal input a; signal output out; signal output q; (out, q) <== BadB()(a); }\n"
    "template UseC() { signal input a; signal output out; component c = BadA(); c.in <== a; out <-- c.out; }\n"
    "template UseD() { signal input a; signal output out; out <== Dbl()(Dbl()(a)); }\n",
    # a project of 280 templates, half of them lifted on demand by the other half (seeded C17 m7: a bounded CFG cache that evicts in hash order
    # loses the findings of templates whose CFG-stage reports are still pending)
    "pragma circom 2.0.0;\ntemplate Leaf1() { signal input in; signal output out; out <-- in + 1; }\ntemplate User1() { signal input in; signal output out; component leaf = Leaf1(); leaf.in <== in; out <== leaf.out; }\ntemplate Leaf2() { signal input in; signal output out; out <-- in + 2; }\ntemplate User2() { signal input in; signal output out; component leaf = Leaf2(); leaf.in <== in; out <== leaf.out; }\ntemplate Leaf3() { signal input in; signal output out; out <-- in + 3; }\ntemplate User3() { signal input in; signal output out; component leaf = Leaf3(); leaf.in <== in; out <== leaf.out; }\ntemplate Leaf4() { signal input in; signal output out; out <-- in + 4; }\ntemplate User4() { signal input in; signal output out; component leaf = Leaf4(); leaf.in <== in; out <== leaf.out; }\ntemplate Leaf5() { signal input in; signal output out; out <-- in + 5; }\ntemplate User5() { signal input in; signal output out; component leaf = Leaf5(); leaf.in <== in; out <== leaf.out; }\ntemplate Leaf6() { signal input in; signal output out; out <-- in + 6; }\ntemplate User6() { signal input in; signal output out; component leaf = Leaf6(); leaf.in <== in; out <== leaf.out; }\ntemplate Leaf7() { signal input in; signal output out; out <-- in + 7; }\ntemplate User7() { signal input in; signal output out; component leaf = Leaf7(); leaf.in <== in; out <== leaf.out; }\ntemplate Leaf8() { signal input in; signal output out; out <-- in + 8; }\ntemplate User8() { signal input in; signal output out; component leaf = Leaf8(); leaf.in <== in; out <== leaf.out; }\ntemplate Leaf9() { signal input in; signal output out; out <-- in + 9; }\ntemplate User9() { signal input in; signal output out; component leaf = Leaf9(); leaf.in <== in; out <== leaf.out; }\ntemplate Leaf10() { signal input in; signal output out; out <-- in + 10; }\ntemplate User10() { signal input in; signal output out; component leaf = Leaf10(); leaf.in <== in; out <== leaf.out; }\ntemplate Leaf11() { signal input in; signal output out; out <-- in + 11; }\ntemplate User11() { signal input in; signal output out; component leaf = Leaf11(); leaf.in <== in; out <== leaf.out; }\ntemplate Leaf12() { signal input in; signal output out; out <-- in + 12; }\ntemplate User12() { signal input in; signal output out; component leaf = Leaf12(); leaf.in <== in; out <== leaf.out; }\ntemplate Leaf13() { signal input in; signal output out; out <-- in + 13; }\ntemplate User13() { signal input in; signal output out; component leaf = Leaf13(); leaf.in <== in; out <== leaf.out; }\ntemplate Leaf14() { signal input in; signal output out; out <-- in + 14; }\ntemplate User14() { signal input in; signal output out; component leaf = Leaf14(); leaf.in <== in; out <== leaf.out; }\ntemplate Leaf15() { signal input in; signal output out; out <-- in + 15; }\ntemplate User15() { signal input in; signal output out; component leaf = Leaf15(); leaf.in <== in; out <== leaf.out; }\ntemplate Leaf16() { signal input in; signal output out; out <-- in + 16; }\ntemplate User16() { signal input in; signal output out; component leaf = Leaf16(); leaf.in <== in; out <== leaf.out; }\ntemplate Leaf17() { signal input in; signal output out; out <-- in + 17; }\ntemplate User17() { signal input in; signal output out; component leaf = Leaf17(); leaf.in <== in; out <== leaf.out; }\ntemplate Leaf18() { signal input in; signal output out; out <-- in + 18; }\ntemplate User18() { signal input in; signal output out; component leaf = Leaf18(); leaf.in <== in; out <== leaf.out; }\ntemplate Leaf19() { signal input in; signal output out; out <-- in + 19; }\ntemplate User19() { signal input in; signal output out; component leaf = Leaf19(); leaf.in <== in; out <== leaf.out; }\ntemplate Leaf20() { signal input in; signal output out; out <-- in + 20; }\ntemplate User20() { signal input in; signal output out; component leaf = Leaf20(); leaf.in <== in; out <== leaf.out; }\ntemplate Leaf21() { signal input in; signal output out; out <-- in + 21; }\ntemplate User21() { signal input in; signal output out; component leaf = Leaf21(); leaf.in <== in; out <== leaf.out; }\ntemplate Leaf22() { signal input in; signal output out; out <-- in + 22; }\ntemplate User22() { signal input in; signal output out; component leaf = Leaf22(); leaf.in <== in; out <== leaf.out; }\ntemplate Leaf23() { signal input in; signal output out; out <-- in + 23; }\ntemplate User23() { signal input in; signal output out; component leaf = Leaf23(); leaf.in <== in; out <== leaf.out; }\ntemplate Leaf24() { signal input in; signal output out; out <-- in + 24; }\ntemplate User24() { signal input in; signal output out; component leaf = Leaf24(); leaf.in <== in; out <== leaf.out; }\ntemplate Leaf25() { signal input in; signal output out; out <-- in + 25; }\ntemplate User25() { signal input in; signal output out; component leaf = Leaf25(); leaf.in <== in; out <== leaf.out; }\ntemplate Leaf26() { signal input in; signal output out; out <-- in + 26; }\ntemplate User26() { signal input in; signal output out; component leaf = Leaf26(); leaf.in <== in; out <== leaf.out; }\ntemplate Leaf27() { signal input in; signal output out; out <-- in + 27; }\ntemplate User27() { signal input in; signal output out; component leaf = Leaf27(); leaf.in <== in; out <== leaf.out; }\ntemplate Leaf28() { signal input in; signal output out; out <-- in + 28; }\ntemplate User28() { signal input in; signal output out; component leaf = Leaf28(); leaf.in <== in; out <== leaf.out; }\ntemplate Leaf29() { signal input in; signal output out; out <-- in + 29; }\ntemplate User29() { signal input in; signal output out; component leaf = Leaf29(); leaf.in <== in; out <== leaf.out; }\ntemplate Leaf30() { signal input in; signal output out; out <-- in + 30; }\ntemplate User30() { signal input in; signal output out; component leaf = Leaf30(); leaf.in <== in; out <== leaf.out; }\ntemplate Leaf31() { signal input in; signal output out; out <-- in + 31; }\ntemplate User31() { signal input in; signal output out; component leaf = Leaf31(); leaf.in <== in; out <== leaf.out; }\ntemplate Leaf32() { signal input in; signal output out; out <-- in + 32; }\ntemplate User32() { signal input in; signal output out; component leaf = Leaf32(); leaf.in <== in; out <== leaf.out; }\ntemplate Leaf33() { signal input in; signal output out; out <-- in + 33; }\ntemplate User33() { signal input in; signal output out; component leaf = Leaf33(); leaf.in <== in; out <== leaf.out; }\ntemplate Leaf34() { signal input in; signal output out; out <-- in + 34; }\ntemplate User34() { signal input in; signal output out; component leaf = Leaf34(); leaf.in <== in; out <== leaf.out; }\ntemplate Leaf35() { signal input in; signal output out; out <-- in + 35; }\ntemplate User35() { signal input in; signal output out; component leaf = Leaf35(); leaf.in <== in; out <== leaf.out; }\ntemplate Leaf36() { signal input in; signal output out; out <-- in + 36; }\ntemplate User36() { signal input in; signal output out; component leaf = Leaf36(); leaf.in <== in; out <== leaf.out; }\ntemplate Leaf37() { signal input in; signal output out; out <-- in + 37; }\ntemplate User37() { signal input in; signal output out; component leaf = Leaf37(); leaf.in <== in; out <== leaf.out; }\ntemplate Leaf38() { signal input in; signal output out; out <-- in + 38; }\ntemplate User38() { signal input in; signal output out; component leaf = Leaf38(); leaf.in <== in; out <== leaf.out; }\ntemplate Leaf39() { signal input in; signal output out; out <-- in + 39; }\ntemplate User39() { signal input in; signal output out; component leaf = Leaf39(); leaf.in <== in; out <== leaf.out; }\ntemplate Leaf40() { signal input in; signal output out; out <-- in + 40; }\ntemplate User40() { signal input in; signal output out; component leaf = Leaf40(); leaf.in <== in; out <== leaf.out; }\ntemplate Leaf41() { signal input in; signal output out; out <-- in + 41; }\ntemplate User41() { signal input in; signal output out; component leaf = Leaf41(); leaf.in <== in; out <== leaf.out; }\ntemplate Leaf42() { signal input in; signal output out; out <-- in + 42; }\ntemplate User42() { signal input in; signal output out; component leaf = Leaf42(); leaf.in <== in; out <== leaf.out; }\ntemplate Leaf43() { signal input in; signal output out; out <-- in + 43; }\ntemplate User43() { signal input in; signal output out; component leaf = Leaf43(); leaf.in <== in; out <== leaf.out; }\ntemplate Leaf44() { signal input in; signal output out; out <-- in + 44; }\ntemplate User44() { signal input in; signal output out; component leaf = Leaf44(); leaf.in <== in; out <== leaf.out; }\ntemplate Leaf45() { signal input in; signal output out; out <-- in + 45; }\ntemplate User45() { signal input in; signal output out; component leaf = Leaf45(); leaf.in <== in; out <== leaf.out; }\ntemplate Leaf46() { signal input in; signal output out; out <-- in + 46; }\ntemplate User46() { signal input in; signal output out; component leaf = Leaf46(); leaf.in <== in; out <== leaf.out; }\ntemplate Leaf47() { signal input in; signal output out; out <-- in + 47; }\ntemplate User47() { signal input in; signal output out; component leaf = Leaf47(); leaf.in <== in; out <== leaf.out; }\ntemplate Leaf48() { signal input in; signal output out; out <-- in + 48; }\ntemplate User48() { signal input in; signal output out; component leaf = Leaf48(); leaf.in <== in; out <== leaf.out; }\ntemplate Leaf49() { signal input in; signal output out; out <-- in + 49; }\ntemplate User49() { signal input in; signal output out; component leaf = Leaf49(); leaf.in <== in; out <== leaf.out; }\ntemplate Leaf50() { signal input in; signal output out; out <-- in + 50; }\ntemplate User50() { signal input in; signal output out; component leaf = Leaf50(); leaf.in <== in; out <== leaf.out; }\ntemplate Leaf51() { signal input in; signal output out; out <-- in + 51; }\ntemplate User51() { signal input in; signal output out; component leaf = Leaf51(); leaf.in <== in; out <== leaf.out; }\ntemplate Leaf52() { signal input in; signal output out; out <-- in + 52; }\ntemplate User52() { signal input in; signal output out; component leaf = Leaf52(); leaf.in <== in; out <== leaf.out; }\ntemplate Leaf53() { signal input in; signal output out; out <-- in + 53; }\ntemplate User53() { signal input in; signal output out; component leaf = Leaf53(); leaf.in <== in; out <== leaf.out; }\ntemplate Leaf54() { signal input in; signal output out; out <-- in + 54; }\ntemplate User54() { signal input in; signal output out; component leaf = Leaf54(); leaf.in <== in; out <== leaf.out; }\ntemplate Leaf55() { signal input in; signal output out; out <-- in + 55; }\ntemplate User55() { signal input in; signal output out; component leaf = Leaf55(); leaf.in <== in; out <== leaf.out; }\ntemplate Leaf56() { signal input in; signal output out; out <-- in + 56; }\ntemplate User56() { signal input in; signal output out; component leaf = Leaf56(); leaf.in <== in; out <== leaf.out; }\ntemplate Leaf57() { signal input in; signal output out; out <-- in + 57; }\ntemplate User57() { signal input in; signal output out; component leaf = Leaf57(); leaf.in <== in; out <== leaf.out; }\ntemplate Leaf58() { signal input in; signal output out; out <-- in + 58; }\ntemplate User58() { signal input in; signal output out; component leaf = Leaf58(); leaf.in <== in; out <== leaf.out; }\ntemplate Leaf59() { signal input in; signal output out; out <-- in + 59; }\ntemplate User59() { signal input in; signal output out; component leaf = Leaf59(); leaf.in <== in; out <== leaf.out; }\ntemplate Leaf60() { signal input in; signal output out; out <-- in + 60; }\ntemplate User60() { signal input in; signal output out; component leaf = Leaf60(); leaf.in <== in; out <== leaf.out; }\ntemplate Leaf61() { signal input in; signal output out; out <-- in + 61; }\ntemplate User61() { signal input in; signal output out; component leaf = Leaf61(); leaf.in <== in; out <== leaf.out; }\ntemplate Leaf62() { signal input in; signal output out; out <-- in + 62; }\ntemplate User62() { signal input in; signal output out; component leaf = Leaf62(); leaf.in <== in; out <== leaf.out; }\ntemplate Leaf63() { signal input in; signal output out; out <-- in + 63; }\ntemplate User63() { signal input in; signal output out; component leaf = Leaf63(); leaf.in <== in; out <== leaf.out; }\ntemplate Leaf64() { signal input in; signal output out; out <-- in + 64; }\ntemplate User64() { signal input in; signal output out; component leaf = Leaf64(); leaf.in <== in; out <== leaf.out; }\ntemplate Leaf65() { signal input in; signal output out; out <-- in + 65; }\ntemplate User65() { signal input in; signal output out; component leaf = Leaf65(); leaf.in <== in; out <== leaf.out; }\ntemplate Leaf66() { signal input in; signal output out; out <-- in + 66; }\ntemplate User66() { signal input in; signal output out; component leaf = Leaf66(); leaf.in <== in; out <== leaf.out; }\ntemplate Leaf67() { signal input in; signal output out; out <-- in + 67; }\ntemplate User67() { signal input in; signal output out; component leaf = Leaf67(); leaf.in <== in; out <== leaf.out; }\ntemplate Leaf68() { signal input in; signal output out; out <-- in + 68; }\ntemplate User68() { signal input in; signal output out; component leaf = Leaf68(); leaf.in <== in; out <== leaf.out; }\ntemplate Leaf69() { signal input in; signal output out; out <-- in + 69; }\ntemplate User69() { signal input in; signal output out; component leaf = Leaf69(); leaf.in <== in; out <== leaf.out; }\ntemplate Leaf70() { signal input in; signal output out; out <-- in + 70; }\ntemplate User70() { signal input in; signal output out; component leaf = Leaf70(); leaf.in <== in; out <== leaf.out; }\ntemplate Leaf71() { signal input in; signal output out; out <-- in + 71; }\ntemplate User71() { signal input in; signal output out; component leaf = Leaf71(); leaf.in <== in; out <== leaf.out; }\ntemplate Leaf72() { signal input in; signal output out; out <-- in + 72; }\ntemplate User72() { signal input in; signal output out; component leaf = Leaf72(); leaf.in <== in; out <== leaf.out; }\ntemplate Leaf73() { signal input in; signal output out; out <-- in + 73; }\ntemplate User73() { signal input in; signal output out; component leaf = Leaf73(); leaf.in <== in; out <== leaf.out; }\ntemplate Leaf74() { signal input in; signal output out; out <-- in + 74; }\ntemplate User74() { signal input in; signal output out; component leaf = Leaf74(); leaf.in <== in; out <== leaf.out; }\ntemplate Leaf75() { signal input in; signal output out; out <-- in + 75; }\ntemplate User75() { signal input in; signal output out; component leaf = Leaf75(); leaf.in <== in; out <== leaf.out; }\ntemplate Leaf76() { signal input in; signal output out; out <-- in + 76; }\ntemplate User76() { signal input in; signal output out; component leaf = Leaf76(); leaf.in <== in; out <== leaf.out; }\ntemplate Leaf77() { signal input in; signal output out; out <-- in + 77; }\ntemplate User77() { signal input in; signal output out; component leaf = Leaf77(); leaf.in <== in; out <== leaf.out; }\ntemplate Leaf78() { signal input in; signal output out; out <-- in + 78; }\ntemplate User78() { signal input in; signal output out; component leaf = Leaf78(); leaf.in <== in; out <== leaf.out; }\ntemplate Leaf79() { signal input in; signal output out; out <-- in + 79; }\ntemplate User79() { signal input in; signal output out; component leaf = Leaf79(); leaf.in <== in; out <== leaf.out; }\ntemplate Leaf80() { signal input in; signal output out; out <-- in + 80; }\ntemplate User80() { signal input in; signal output out; component leaf = Leaf80(); leaf.in <== in; out <== leaf.out; }\ntemplate Leaf81() { signal input in; signal output out; out <-- in + 81; }\ntemplate User81() { signal input in; signal output out; component leaf = Leaf81(); leaf.in <== in; out <== leaf.out; }\ntemplate Leaf82() { signal input in; signal output out; out <-- in + 82; }\ntemplate User82() { signal input in; signal output out; component leaf = Leaf82(); leaf.in <== in; out <== leaf.out; }\ntemplate Leaf83() { signal input in; signal output out; out <-- in + 83; }\ntemplate User83() { signal input in; signal output out; component leaf = Leaf83(); leaf.in <== in; out <== leaf.out; }\ntemplate Leaf84() { signal input in; signal output out; out <-- in + 84; }\ntemplate User84() { signal input in; signal output out; component leaf = Leaf84(); leaf.in <== in; out <== leaf.out; }\ntemplate Leaf85() { signal input in; signal output out; out <-- in + 85; }\ntemplate User85() { signal input in; signal output out; component leaf = Leaf85(); leaf.in <== in; out <== leaf.out; }\ntemplate Leaf86() { signal input in; signal output out; out <-- in + 86; }\ntemplate User86() { signal input in; signal output out; component leaf = Leaf86(); leaf.in <== in; out <== leaf.out; }\ntemplate Leaf87() { signal input in; signal output out; out <-- in + 87; }\ntemplate User87() { signal input in; signal output out; component leaf = Leaf87(); leaf.in <== in; out <== leaf.out; }\ntemplate Leaf88() { signal input in; signal output out; out <-- in + 88; }\ntemplate User88() { signal input in; signal output out; component leaf = Leaf88(); leaf.in <== in; out <== leaf.out; }\ntemplate Leaf89() { signal input in; signal output out; out <-- in + 89; }\ntemplate User89() { signal input in; signal output out; component leaf = Leaf89(); leaf.in <== in; out <== leaf.out; }\ntemplate Leaf90() { signal input in; signal output out; out <-- in + 90; }\ntemplate User90() { signal input in; signal output out; component leaf = Leaf90(); leaf.in <== in; out <== leaf.out; }\ntemplate Leaf91() { signal input in; signal output out; out <-- in + 91; }\ntemplate User91() { signal input in; signal output out; component leaf = Leaf91(); leaf.in <== in; out <== leaf.out; }\ntemplate Leaf92() { signal input in; signal output out; out <-- in + 92; }\ntemplate User92() { signal input in; signal output out; component leaf = Leaf92(); leaf.in <== in; out <== leaf.out; }\ntemplate Leaf93() { signal input in; signal output out; out <-- in + 93; }\ntemplate User93() { signal input in; signal output out; component leaf = Leaf93(); leaf.in <== in; out <== leaf.out; }\ntemplate Leaf94() { signal input in; signal output out; out <-- in + 94; }\ntemplate User94() { signal input in; signal output out; component leaf = Leaf94(); leaf.in <== in; out <== leaf.out; }\ntemplate Leaf95() { signal input in; signal output out; out <-- in + 95; }\ntemplate User95() { signal input in; signal output out; component leaf = Leaf95(); leaf.in <== in; out <== leaf.out; }\ntemplate Leaf96() { signal input in; signal output out; out <-- in + 96; }\ntemplate User96() { signal input in; signal output out; component leaf = Leaf96(); leaf.in <== in; out <== leaf.out; }\ntemplate Leaf97() { signal input in; signal output out; out <-- in + 97; }\ntemplate User97() { signal input in; signal output out; component leaf = Leaf97(); leaf.in <== in; out <== leaf.out; }\ntemplate Leaf98() { signal input in; signal output out; out <-- in + 98; }\ntemplate User98() { signal input in; signal output out; component leaf = Leaf98(); leaf.in <== in; out <== leaf.out; }\ntemplate Leaf99() { signal input in; signal output out; out <-- in + 99; }\ntemplate User99() { signal input in; signal output out; component leaf = Leaf99(); leaf.in <== in; out <== leaf.out; }\ntemplate Leaf100() { signal input in; signal output out; out <-- in + 100; }\ntemplate User100() { signal input in; signal output out; component leaf = Leaf100(); leaf.in <== in; out <== leaf.out; }\ntemplate Leaf101() { signal input in; signal output out; out <-- in + 101; }\ntemplate User101() { signal input in; signal output out; component leaf = Leaf101(); leaf.in <== in; out <== leaf.out; }\ntemplate Leaf102() { signal input in; signal output out; out <-- in + 102; }\ntemplate User102() { signal input in; signal output out; component leaf = Leaf102(); leaf.in <== in; out <== leaf.out; }\ntemplate Leaf103() { signal input in; signal output out; out <-- in + 103; }\ntemplate User103() { signal input in; signal output out; component leaf = Leaf103(); leaf.in <== in; out <== leaf.out; }\ntemplate Leaf104() { signal input in; signal output out; out <-- in + 104; }\ntemplate User104() { signal input in; signal output out; component leaf = Leaf104(); leaf.in <== in; out <== leaf.out; }\ntemplate Leaf105() { signal input in; signal output out; out <-- in + 105; }\ntemplate User105() { signal input in; signal output out; component leaf = Leaf105(); leaf.in <== in; out <== leaf.out; }\ntemplate Leaf106() { signal input in; signal output out; out <-- in + 106; }\ntemplate User106() { signal input in; signal output out; component leaf = Leaf106(); leaf.in <== in; out <== leaf.out; }\ntemplate Leaf107() { signal input in; signal output out; out <-- in + 107; }\ntemplate User107() { signal input in; signal output out; component leaf = Leaf107(); leaf.in <== in; out <== leaf.out; }\ntemplate Leaf108() { signal input in; signal output out; out <-- in + 108; }\ntemplate User108() { signal input in; signal output out; component leaf = Leaf108(); leaf.in <== in; out <== leaf.out; }\ntemplate Leaf109() { signal input in; signal output out; out <-- in + 109; }\ntemplate User109() { signal input in; signal output out; component leaf = Leaf109(); leaf.in <== in; out <== leaf.out; }\ntemplate Leaf110() { signal input in; signal output out; out <-- in + 110; }\ntemplate User110() { signal input in; signal output out; component leaf = Leaf110(); leaf.in <== in; out <== leaf.out; }\ntemplate Leaf111() { signal input in; signal output out; out <-- in + 111; }\ntemplate User111() { signal input in; signal output out; component leaf = Leaf111(); leaf.in <== in; out <== leaf.out; }\ntemplate Leaf112() { signal input in; signal output out; out <-- in + 112; }\ntemplate User112() { signal input in; signal output out; component leaf = Leaf112(); leaf.in <== in; out <== leaf.out; }\ntemplate Leaf113() { signal input in; signal output out; out <-- in + 113; }\ntemplate User113() { signal input in; signal output out; component leaf = Leaf113(); leaf.in <== in; out <== leaf.out; }\ntemplate Leaf114() { signal input in; signal output out; out <-- in + 114; }\ntemplate User114() { signal input in; signal output out; component leaf = Leaf114(); leaf.in <== in; out <== leaf.out; }\ntemplate Leaf115() { signal input in; signal output out; out <-- in + 115; }\ntemplate User115() { signal input in; signal output out; component leaf = Leaf115(); leaf.in <== in; out <== leaf.out; }\ntemplate Leaf116() { signal input in; signal output out; out <-- in + 116; }\ntemplate User116() { signal input in; signal output out; component leaf = Leaf116(); leaf.in <== in; out <== leaf.out; }\ntemplate Leaf117() { signal input in; signal output out; out <-- in + 117; }\ntemplate User117() { signal input in; signal output out; component leaf = Leaf117(); leaf.in <== in; out <== leaf.out; }\ntemplate Leaf118() { signal input in; signal output out; out <-- in + 118; }\ntemplate User118() { signal input in; signal output out; component leaf = Leaf118(); leaf.in <== in; out <== leaf.out; }\ntemplate Leaf119() { signal input in; signal output out; out <-- in + 119; }\ntemplate User119() { signal input in; signal output out; component leaf = Leaf119(); leaf.in <== in; out <== leaf.out; }\ntemplate Leaf120() { signal input in; signal output out; out <-- in + 120; }\ntemplate User120() { signal input in; signal output out; component leaf = Leaf120(); leaf.in <== in; out <== leaf.out; }\ntemplate Leaf121() { signal input in; signal output out; out <-- in + 121; }\ntemplate User121() { signal input in; signal output out; component leaf = Leaf121(); leaf.in <== in; out <== leaf.out; }\ntemplate Leaf122() { signal input in; signal output out; out <-- in + 122; }\ntemplate User122() { signal input in; signal output out; component leaf = Leaf122(); leaf.in <== in; out <== leaf.out; }\ntemplate Leaf123() { signal input in; signal output out; out <-- in + 123; }\ntemplate User123() { signal input in; signal output out; component leaf = Leaf123(); leaf.in <== in; out <== leaf.out; }\ntemplate Leaf124() { signal input in; signal output out; out <-- in + 124; }\ntemplate User124() { signal input in; signal output out; component leaf = Leaf124(); leaf.in <== in; out <== leaf.out; }\ntemplate Leaf125() { signal input in; signal output out; out <-- in + 125; }\ntemplate User125() { signal input in; signal output out; component leaf = Leaf125(); leaf.in <== in; out <== leaf.out; }\ntemplate Leaf126() { signal input in; signal output out; out <-- in + 126; }\ntemplate User126() { signal input in; signal output out; component leaf = Leaf126(); leaf.in <== in; out <== leaf.out; }\ntemplate Leaf127() { signal input in; signal output out; out <-- in + 127; }\ntemplate User127() { signal input in; signal output out; component leaf = Leaf127(); leaf.in <== in; out <== leaf.out; }\ntemplate Leaf128() { signal input in; signal output out; out <-- in + 128; }\ntemplate User128() { signal input in; signal output out; component leaf = Leaf128(); leaf.in <== in; out <== leaf.out; }\ntemplate Leaf129() { signal input in; signal output out; out <-- in + 129; }\ntemplate User129() { signal input in; signal output out; component leaf = Leaf129(); leaf.in <== in; out <== leaf.out; }\ntemplate Leaf130() { signal input in; signal output out; out <-- in + 130; }\ntemplate User130() { signal input in; signal output out; component leaf = Leaf130(); leaf.in <== in; out <== leaf.out; }\ntemplate Leaf131() { signal input in; signal output out; out <-- in + 131; }\ntemplate User131() { signal input in; signal output out; component leaf = Leaf131(); leaf.in <== in; out <== leaf.out; }\ntemplate Leaf132() { signal input in; signal output out; out <-- in + 132; }\ntemplate User132() { signal input in; signal output out; component leaf = Leaf132(); leaf.in <== in; out <== leaf.out; }\ntemplate Leaf133() { signal input in; signal output out; out <-- in + 133; }\ntemplate User133() { signal input in; signal output out; component leaf = Leaf133(); leaf.in <== in; out <== leaf.out; }\ntemplate Leaf134() { signal input in; signal output out; out <-- in + 134; }\ntemplate User134() { signal input in; signal output out; component leaf = Leaf134(); leaf.in <== in; out <== leaf.out; }\ntemplate Leaf135() { signal input in; signal output out; out <-- in + 135; }\ntemplate User135() { signal input in; signal output out; component leaf = Leaf135(); leaf.in <== in; out <== leaf.out; }\ntemplate Leaf136() { signal input in; signal output out; out <-- in + 136; }\ntemplate User136() { signal input in; signal output out; component leaf = Leaf136(); leaf.in <== in; out <== leaf.out; }\ntemplate Leaf137() { signal input in; signal output out; out <-- in + 137; }\ntemplate User137() { signal input in; signal output out; component leaf = Leaf137(); leaf.in <== in; out <== leaf.out; }\ntemplate Leaf138() { signal input in; signal output out; out <-- in + 138; }\ntemplate User138() { signal input in; signal output out; component leaf = Leaf138(); leaf.in <== in; out <== leaf.out; }\ntemplate Leaf139() { signal input in; signal output out; out <-- in + 139; }\ntemplate User139() { signal input in; signal output out; component leaf = Leaf139(); leaf.in <== in; out <== leaf.out; }\ntemplate Leaf140() { signal input in; signal output out; out <-- in + 140; }\ntemplate User140() { signal input in; signal output out; component leaf = Leaf140(); leaf.in <== in; out <== leaf.out; }\n",
    # locals that depend on a local that aliases a signal, in loops (seeded C17 m8: the constants pre-pass removed dependents as it iterated a hash
    # map, so whether `acc` was taken for a constant depended on the hash order)
    "pragma circom 2.0.0;\ntemplate L(n) { signal input in; signal output out; var step = in; var acc = 0; for (var i = 0; i < n; i++) { acc = acc + step; } out <-- acc * in; out === acc * in; }\n"
    "template M(n) { signal input in; signal output out[2]; var a = in; var b = 1; var c = 1; var d = 1; for (var i = 0; i < 2; i++) { out[i] <-- d * in; d = c * c; c = b * b; b = a + 1; } }\n"
    "template N(n) { signal input in; signal output o; var p = in * 2; var q = p + 1; var r = 0; if (n > 1) { r = q; } else { r = 2; } var s = 0; for (var j = 0; j < n; j++) { s = s + r; } o <-- s * in; }\n",
]


def build(defs, order, extra=None, main=None):
    toks = ["pragma circom", "2.0.0", ";"]
    for i in order:
        toks += defs[i][2]
    for e in extra or []:
        toks += e
    if main:
        toks += main
    return gen.render(toks)


def run(ctx):
    vlib.build_harness()
    ok, failing = vlib.theorem_gate(ctx, ["C17"])
    nproj = 12 if ctx.tier == "quick" else 80
    nrep = 6 if ctx.tier == "quick" else 16
    stats = collections.Counter()
    samples = []
    with vlib.Workdir("c17") as wd:
        variants = []   # (project index, kind, request, sources)
        for k in range(nproj):
            rng = ctx.rng
            toks, defs, _ = gen.project(rng, n_templates=rng.below(2) + 2, n_functions=rng.below(2) + 1, shadow=True, max_stmts=5, main=False)
            idx = list(range(len(defs)))
            last_t = [d for d in defs if d[0] == "template"][-1][1]
            base = build(defs, idx)
            def add(kind, files, inputs):
                req = rl.materialize(wd, "p%d/%s" % (k, kind.replace(" ", "_")), {"files": files, "inputs": inputs, "libs": []})
                srcs = {os.path.basename(r): (t.encode("utf-8")) for r, t in files.items()}
                variants.append((k, kind, {"inputs": req["inputs"], "libs": [], "curve": "BN254"}, srcs, files))
            for rep in range(nrep):
                add("repeat %d" % rep, {"main.circom": base}, ["main.circom"])
            for j in range(3):
                perm = rng.shuffle(idx)
                add("permuted-defs %d" % j, {"main.circom": build(defs, perm)}, ["main.circom"])
            # two input files in both orders
            half = len(defs) // 2
            fa, fb = build(defs, idx[:half]), build(defs, idx[half:])
            add("files ab", {"a.circom": fa, "b.circom": fb}, ["a.circom", "b.circom"])
            add("files ba", {"a.circom": fa, "b.circom": fb}, ["b.circom", "a.circom"])
            # the same two files, the first one also including the second one: a file that is both named and included
            fai = fa.replace(";\n", ";\ninclude \"b.circom\";\n", 1)
            add("filesinc ab", {"a.circom": fai, "b.circom": fb}, ["a.circom", "b.circom"])
            add("filesinc ba", {"a.circom": fai, "b.circom": fb}, ["b.circom", "a.circom"])
            # unrelated extra definitions
            g = gen.Gen(rng, max_stmts=4)
            xt, _, _, _ = g.template("Unrelated")
            xf, _ = g.function("unrelated_fn")
            add("extra-defs", {"main.circom": build(defs, idx, extra=[xt, xf])}, ["main.circom"])
            add("extra-defs-first", {"main.circom": gen.render(["pragma circom", "2.0.0", ";"] + xt + xf) + build(defs, idx).split("\n", 1)[1]}, ["main.circom"])
        # hand-written projects whose findings depend on facts merged at joins (sets and maps iterated inside the passes):
        # repeated more often, since a hash-order dependence shows up only in a fraction of the runs
        # projects of several files, given in both orders (audit C17 f1, f2): an unreadable file reached from two named files (directly
        # and through an included-only file), and two included-only libraries that define the same template differently
        tmpl_a = "pragma circom 2.0.0;\ninclude \"%s\";\ntemplate A%d() { signal input i; signal output o; component t = T(); t.a <== i; o <== t.b; }\n"
        lib_t1 = "pragma circom 2.0.0;\ntemplate T() { signal input a; signal output b; b <== a; }\n"
        lib_t2 = "pragma circom 2.0.0;\ntemplate T() { signal input a; signal output b; signal output aux; b <== a; aux <== a * a; }\n"
        hand_files = [
            ({"x.circom": "pragma circom 2.0.0;\ninclude \"bad.circom\";\ntemplate X() { signal input i; signal output o; o <== i; }\n",
              "z.circom": "pragma circom 2.0.0;\ninclude \"y.circom\";\ntemplate Z() { signal input i; signal output o; o <== i; }\n",
              "y.circom": "pragma circom 2.0.0;\ninclude \"bad.circom\";\ntemplate Y() { signal input i; signal output o; o <-- i; }\n",
              "bad.circom": b"pragma circom 2.0.0;\n// \xff\xfe\ntemplate Bad() { }\n"}, ["x.circom", "z.circom"]),
            ({"a.circom": tmpl_a % ("lib1/t.circom", 1), "b.circom": tmpl_a % ("lib2/t.circom", 2), "lib1/t.circom": lib_t1, "lib2/t.circom": lib_t2},
             ["a.circom", "b.circom"]),
            ({"a.circom": tmpl_a % ("lib1/t.circom", 1), "b.circom": tmpl_a % ("lib2/t.circom", 2), "c.circom": tmpl_a % ("lib1/t.circom", 3),
              "lib1/t.circom": lib_t1, "lib2/t.circom": lib_t2}, ["a.circom", "b.circom", "c.circom"]),
        ]
        for hk, (files, inputs) in enumerate(hand_files):
            for tag, order in (("ab", inputs), ("ba", list(reversed(inputs)))):
                req = rl.materialize(wd, "hf%d/%s" % (hk, tag), {"files": files, "inputs": order, "libs": []})
                srcs = {os.path.basename(r): (t if isinstance(t, bytes) else t.encode("utf-8")) for r, t in files.items()}
                variants.append((3000 + hk, "hfiles %s" % tag, {"inputs": req["inputs"], "libs": [], "curve": "BN254"}, srcs,
                                 {r: (t if isinstance(t, str) else repr(t)) for r, t in files.items()}))
        for hk, text in enumerate(HAND):
            for rep in range(nrep * 3):
                req = rl.materialize(wd, "h%d/r%d" % (hk, rep), {"files": {"main.circom": text}, "inputs": ["main.circom"], "libs": []})
                variants.append((1000 + hk, "repeat %d" % rep, {"inputs": req["inputs"], "libs": [], "curve": "BN254"},
                                 {"main.circom": text.encode("utf-8")}, {"main.circom": text}))
        # one process per request: a fresh hasher state each time
        replies = rl.pmap(lambda v: vlib.analyze([v[2]])[0], variants)
        by_proj = collections.defaultdict(list)
        for v, rep in zip(variants, replies):
            by_proj[v[0]].append((v, rep))
        for k, items in by_proj.items():
            stats["projects"] += 1
            ref = None
            ref_defs = None
            for (kk, kind, req, srcs, files), rep in items:
                stats["runs"] += 1
                if kind.startswith("repeat") or kind.startswith("permuted") or kind.startswith("files") or kind.startswith("hfiles"):
                    # same set of definitions: the whole multiset must be the same (file names differ for the split variant)
                    f = findings(rep, srcs)
                    if kind.startswith("hfiles"):
                        # hand-written projects: the same file names in both orders, so the file of every label is compared; only the
                        # scratch directory is taken out of the messages
                        import re as _re
                        grp = "hfiles"
                        f = sorted(_re.sub(r"/var/tmp/verif-c17-[^/]+/hf\d+/(?:ab|ba)/", "", x) for x in f) if isinstance(f, list) else f
                        key = "files"
                    elif kind.startswith("files"):
                        grp = kind.split()[0]
                        f = sorted(json.dumps([json.loads(x)[0:3]] + [[l[1:] for l in json.loads(x)[3]]] + [[l[1:] for l in json.loads(x)[4]]] + [json.loads(x)[5]]) for x in f) if isinstance(f, list) else f
                        key = "files"
                    else:
                        key = "single"
                    if key == "single":
                        if ref is None:
                            ref = (kind, f, files)
                        elif f != ref[1]:
                            ctx.violation("nondeterministic %s" % kind.split()[0],
                                          {"stage": "L1 same findings across runs/permutations", "variant": kind, "reference_variant": ref[0],
                                           "files": files, "reference_files": ref[2],
                                           "only_here": [x for x in f if x not in ref[1]][:5] if isinstance(f, list) else f,
                                           "only_in_reference": [x for x in ref[1] if x not in f][:5] if isinstance(f, list) else ref[1], "broken": None})
                    else:
                        by = getattr(run, "_files", {})
                        if (k, grp) not in by:
                            by[(k, grp)] = (kind, f, files)
                        elif by[(k, grp)][1] != f:
                            ctx.violation("input-file-order", {"stage": "L1 input files in another order", "variant": kind, "files": files,
                                                               "only_here": [x for x in f if x not in by[(k, grp)][1]][:5],
                                                               "only_in_other": [x for x in by[(k, grp)][1] if x not in f][:5], "broken": None})
                        run._files = by
                    if kind == "repeat 0":
                        ref_defs = findings(rep, srcs, per_def=True)
                else:
                    # extra definitions: the findings of every original definition are unchanged
                    fd = findings(rep, srcs, per_def=True)
                    if isinstance(fd, dict) and isinstance(ref_defs, dict):
                        for n, want in ref_defs.items():
                            if fd.get(n) != want:
                                ctx.violation("unrelated-definitions-change-findings",
                                              {"stage": "L1 adding unrelated definitions", "variant": kind, "definition": n, "files": files,
                                               "with_extra": fd.get(n), "without": want, "broken": None})
                    elif fd != ref_defs:
                        ctx.violation("unrelated-definitions-crash", {"variant": kind, "files": files, "observed": str(fd)[:300], "broken": None})
            if len(samples) < 2 and isinstance(ref, tuple) and isinstance(ref[1], list):
                samples.append({"variants": [it[0][1] for it in items], "findings": len(ref[1]), "first": ref[1][:2]})
    if hasattr(run, "_files"):
        del run._files
    if not ok:
        ctx.violation("theorem " + ";".join(failing)[:200], {"broken": "theorem", "failing": failing}, no_input=True)
    cov = ctx.coverage
    cov["evaluations"] = stats["runs"]
    cov["distinct_nontrivial"] = stats["runs"]
    cov["rule"] = ("%d generated multi-definition projects with shadowing (CFG-stage reports) and cross-template instantiation; each run "
                   "%d times in separate processes (fresh hash seeds), with 3 random permutations of its definitions, split over two input "
                   "files given in both orders, and with unrelated definitions appended/prepended; a case = one process run" % (nproj, nrep))
    cov["distribution"] = dict(stats)
    cov["samples"] = samples or [{"note": "no sample"}]
    ctx.level = "proof"
    ctx.assumptions += ["'all hash-map iteration orders' is proved for the runner's analysis order (C17_runner_perm); hash order inside passes, SSA "
                        "renaming and TemplateLibrary is sampled by the repeated runs only (partial)"]


def replay(ctx, path):
    r = json.load(open(path))
    print(json.dumps({k: r[k] for k in r if k not in ("files", "reference_files")}, indent=1)[:3000])
    ctx.coverage["evaluations"] = 1
