"""C17 — determinism and order-independence. Theorems: Props/C17.lean (any two analysis orders
display the same multiset; a definition's batch does not depend on the other definitions).
Tie: the real pipeline in N separate processes (fresh hash seeds) on the same project; the
definitions of a file permuted; input files permuted; unrelated definitions added. Findings are
normalised to (id, level, message, source text under each label, notes)."""
import collections
import json
import os
import vlib
import gen
from checks import runnerlib as rl


def findings(reply, sources, per_def=False):
    """multiset of normalised findings (or dict definition -> multiset)"""
    if "crash" in reply:
        return ("crash", reply["crash"][:100])
    parse, batches = rl.real_batches(reply)

    def norm(r):
        def lab(l):
            src = sources.get(os.path.basename(l["file"]), b"")
            return (os.path.basename(l["file"]), " ".join(src[l["start"]:l["end"]].decode("utf-8", "replace").split()), l["label"])
        return json.dumps([r["id"], r["level"], r["message"], sorted(lab(l) for l in r["primary"]),
                           sorted(lab(l) for l in r["secondary"]), r["notes"]])
    if per_def:
        return {n: sorted(norm(r) for r in rs) for _, n, rs in batches}
    return sorted([norm(r) for r in parse] + [norm(r) for _, _, rs in batches for r in rs])


HAND = [
    "pragma circom 2.0.0;\nfunction f(wide) { var n = 8; if (wide) { n = 16; } if (n == 8) { return 1; } return 2; }\n"
    "template T(wide) { signal input in; signal output out; var n = 8; if (wide == 1) { n = 16; } component c = Num2Bits(n); c.in <== in; out <== c.out[0]; }\n"
    "template Num2Bits(n) { signal input in; signal output out[n]; for (var i = 0; i < n; i++) { out[i] <-- (in >> i) & 1; } }\n",
    "pragma circom 2.0.0;\nfunction g(a, b) { var x = 1; var y = 2; if (a) { x = 2; y = 1; } else { if (b) { x = 3; } } if (x == y) { return 0; } if (x == 1) { return 1; } return y; }\n",
    "pragma circom 2.0.0;\ntemplate Inner(n) { signal input a; signal output b; var n = 2; b <-- a * n; b === a * 2; }\n"
    "template Outer() { signal input x; signal output y; component i = Inner(1); i.a <== x; y <== i.b; }\n"
    "template Third() { signal input p; signal input q; signal output r; r <-- p >> 1; p === r * 2; q === r * 2 + 1; }\n",
    # a template defined both in the named file and in a file it includes (which definition is kept and where the duplicate is
    # reported must not depend on hash order; fixed finding F-C02-duplicates)
    "pragma circom 2.0.0;\ntemplate DupT() { signal input a; signal output b; b <-- a; }\ntemplate DupT() { signal input a; signal output b; b <== a * a; }\n"
    "function dupf(a) { return a; }\nfunction dupf(a) { return a + 1; }\ntemplate Third() { signal input p; signal output r; r <-- p >> 1; p === r * 2; }\n",
    # several reads of never-assigned locals in sibling blocks: which one the SSA conversion reports must not depend on hash order
    "pragma circom 2.0.0;\nfunction f(n) { var a[2]; if (n) { n = a[0]; } else { n = a[1]; } return n; }\n"
    "function g(n) { var u; var w; for (var i = 0; i < 2; i++) { if (n) { n = u; } else { n = w + 1; } } if (n == 3) { return w; } return u; }\n"
    "template T(n) { signal input in; signal output out; var a[2]; var t; if (n == 1) { t = a[0]; out <== in; } else { t = a[1]; out <== in * in; } }\n",
    # templates that the desugaring rejects next to templates that instantiate them (anonymously and by name): what is reported for
    # the valid ones must not depend on the order in which the definitions are desugared (a hash map)
    "pragma circom 2.0.0;\ntemplate Dbl() { signal input in; signal output out; out <== 2 * in; }\n"
    "template BadA() { signal input in; signal output out; out <== Dbl()(in) + 1; }\n"
    "template BadB() { signal input in; signal output out; signal output p; (out, p) <== (in, in, in); }\n"
    "template UseA() { signal input a; signal input b; signal output out; signal t; t <-- a * b; out <== BadA()(t); }\n"
    "template UseB() { signal input a; signal output out; signal output q; (out, q) <== BadB()(a); }\n"
    "template UseC() { signal input a; signal output out; component c = BadA(); c.in <== a; out <-- c.out; }\n"
    "template UseD() { signal input a; signal output out; out <== Dbl()(Dbl()(a)); }\n",
]


def build(defs, order, extra=None, main=None):
    toks = ["pragma circom", "2.0.0", ";"]
    for i in order:
        toks += defs[i][2]
    for e in extra or []:
        toks += e
    if main:
        toks += main
    return gen.render(toks)


def run(ctx):
    vlib.build_harness()
    ok, failing = vlib.theorem_gate(ctx, ["C17"])
    nproj = 12 if ctx.tier == "quick" else 80
    nrep = 6 if ctx.tier == "quick" else 16
    stats = collections.Counter()
    samples = []
    with vlib.Workdir("c17") as wd:
        variants = []   # (project index, kind, request, sources)
        for k in range(nproj):
            rng = ctx.rng
            toks, defs, _ = gen.project(rng, n_templates=rng.below(2) + 2, n_functions=rng.below(2) + 1, shadow=True, max_stmts=5, main=False)
            idx = list(range(len(defs)))
            last_t = [d for d in defs if d[0] == "template"][-1][1]
            base = build(defs, idx)
            def add(kind, files, inputs):
                req = rl.materialize(wd, "p%d/%s" % (k, kind.replace(" ", "_")), {"files": files, "inputs": inputs, "libs": []})
                srcs = {os.path.basename(r): (t.encode("utf-8")) for r, t in files.items()}
                variants.append((k, kind, {"inputs": req["inputs"], "libs": [], "curve": "BN254"}, srcs, files))
            for rep in range(nrep):
                add("repeat %d" % rep, {"main.circom": base}, ["main.circom"])
            for j in range(3):
                perm = rng.shuffle(idx)
                add("permuted-defs %d" % j, {"main.circom": build(defs, perm)}, ["main.circom"])
            # two input files in both orders
            half = len(defs) // 2
            fa, fb = build(defs, idx[:half]), build(defs, idx[half:])
            add("files ab", {"a.circom": fa, "b.circom": fb}, ["a.circom", "b.circom"])
            add("files ba", {"a.circom": fa, "b.circom": fb}, ["b.circom", "a.circom"])
            # the same two files, the first one also including the second one: a file that is both named and included
            fai = fa.replace(";\n", ";\ninclude \"b.circom\";\n", 1)
            add("filesinc ab", {"a.circom": fai, "b.circom": fb}, ["a.circom", "b.circom"])
            add("filesinc ba", {"a.circom": fai, "b.circom": fb}, ["b.circom", "a.circom"])
            # unrelated extra definitions
            g = gen.Gen(rng, max_stmts=4)
            xt, _, _, _ = g.template("Unrelated")
            xf, _ = g.function("unrelated_fn")
            add("extra-defs", {"main.circom": build(defs, idx, extra=[xt, xf])}, ["main.circom"])
            add("extra-defs-first", {"main.circom": gen.render(["pragma circom", "2.0.0", ";"] + xt + xf) + build(defs, idx).split("\n", 1)[1]}, ["main.circom"])
        # hand-written projects whose findings depend on facts merged at joins (sets and maps iterated inside the passes):
        # repeated more often, since a hash-order dependence shows up only in a fraction of the runs
        # projects of several files, given in both orders (audit C17 f1, f2): an unreadable file reached from two named files (directly
        # and through an included-only file), and two included-only libraries that define the same template differently
        tmpl_a = "pragma circom 2.0.0;\ninclude \"%s\";\ntemplate A%d() { signal input i; signal output o; component t = T(); t.a <== i; o <== t.b; }\n"
        lib_t1 = "pragma circom 2.0.0;\ntemplate T() { signal input a; signal output b; b <== a; }\n"
        lib_t2 = "pragma circom 2.0.0;\ntemplate T() { signal input a; signal output b; signal output aux; b <== a; aux <== a * a; }\n"
        hand_files = [
            ({"x.circom": "pragma circom 2.0.0;\ninclude \"bad.circom\";\ntemplate X() { signal input i; signal output o; o <== i; }\n",
              "z.circom": "pragma circom 2.0.0;\ninclude \"y.circom\";\ntemplate Z() { signal input i; signal output o; o <== i; }\n",
              "y.circom": "pragma circom 2.0.0;\ninclude \"bad.circom\";\ntemplate Y() { signal input i; signal output o; o <-- i; }\n",
              "bad.circom": b"pragma circom 2.0.0;\n// \xff\xfe\ntemplate Bad() { }\n"}, ["x.circom", "z.circom"]),
            ({"a.circom": tmpl_a % ("lib1/t.circom", 1), "b.circom": tmpl_a % ("lib2/t.circom", 2), "lib1/t.circom": lib_t1, "lib2/t.circom": lib_t2},
             ["a.circom", "b.circom"]),
            ({"a.circom": tmpl_a % ("lib1/t.circom", 1), "b.circom": tmpl_a % ("lib2/t.circom", 2), "c.circom": tmpl_a % ("lib1/t.circom", 3),
              "lib1/t.circom": lib_t1, "lib2/t.circom": lib_t2}, ["a.circom", "b.circom", "c.circom"]),
        ]
        for hk, (files, inputs) in enumerate(hand_files):
            for tag, order in (("ab", inputs), ("ba", list(reversed(inputs)))):
                req = rl.materialize(wd, "hf%d/%s" % (hk, tag), {"files": files, "inputs": order, "libs": []})
                srcs = {os.path.basename(r): (t if isinstance(t, bytes) else t.encode("utf-8")) for r, t in files.items()}
                variants.append((3000 + hk, "hfiles %s" % tag, {"inputs": req["inputs"], "libs": [], "curve": "BN254"}, srcs,
                                 {r: (t if isinstance(t, str) else repr(t)) for r, t in files.items()}))
        for hk, text in enumerate(HAND):
            for rep in range(nrep * 3):
                req = rl.materialize(wd, "h%d/r%d" % (hk, rep), {"files": {"main.circom": text}, "inputs": ["main.circom"], "libs": []})
                variants.append((1000 + hk, "repeat %d" % rep, {"inputs": req["inputs"], "libs": [], "curve": "BN254"},
                                 {"main.circom": text.encode("utf-8")}, {"main.circom": text}))
        # one process per request: a fresh hasher state each time
        replies = rl.pmap(lambda v: vlib.analyze([v[2]])[0], variants)
        by_proj = collections.defaultdict(list)
        for v, rep in zip(variants, replies):
            by_proj[v[0]].append((v, rep))
        for k, items in by_proj.items():
            stats["projects"] += 1
            ref = None
            ref_defs = None
            for (kk, kind, req, srcs, files), rep in items:
                stats["runs"] += 1
                if kind.startswith("repeat") or kind.startswith("permuted") or kind.startswith("files") or kind.startswith("hfiles"):
                    # same set of definitions: the whole multiset must be the same (file names differ for the split variant)
                    f = findings(rep, srcs)
                    if kind.startswith("hfiles"):
                        # hand-written projects: the same file names in both orders, so the file of every label is compared; only the
                        # scratch directory is taken out of the messages
                        import re as _re
                        grp = "hfiles"
                        f = sorted(_re.sub(r"/var/tmp/verif-c17-[^/]+/hf\d+/(?:ab|ba)/", "", x) for x in f) if isinstance(f, list) else f
                        key = "files"
                    elif kind.startswith("files"):
                        grp = kind.split()[0]
                        f = sorted(json.dumps([json.loads(x)[0:3]] + [[l[1:] for l in json.loads(x)[3]]] + [[l[1:] for l in json.loads(x)[4]]] + [json.loads(x)[5]]) for x in f) if isinstance(f, list) else f
                        key = "files"
                    else:
                        key = "single"
                    if key == "single":
                        if ref is None:
                            ref = (kind, f, files)
                        elif f != ref[1]:
                            ctx.violation("nondeterministic %s" % kind.split()[0],
                                          {"stage": "L1 same findings across runs/permutations", "variant": kind, "reference_variant": ref[0],
                                           "files": files, "reference_files": ref[2],
                                           "only_here": [x for x in f if x not in ref[1]][:5] if isinstance(f, list) else f,
                                           "only_in_reference": [x for x in ref[1] if x not in f][:5] if isinstance(f, list) else ref[1], "broken": None})
                    else:
                        by = getattr(run, "_files", {})
                        if (k, grp) not in by:
                            by[(k, grp)] = (kind, f, files)
                        elif by[(k, grp)][1] != f:
                            ctx.violation("input-file-order", {"stage": "L1 input files in another order", "variant": kind, "files": files,
                                                               "only_here": [x for x in f if x not in by[(k, grp)][1]][:5],
                                                               "only_in_other": [x for x in by[(k, grp)][1] if x not in f][:5], "broken": None})
                        run._files = by
                    if kind == "repeat 0":
                        ref_defs = findings(rep, srcs, per_def=True)
                else:
                    # extra definitions: the findings of every original definition are unchanged
                    fd = findings(rep, srcs, per_def=True)
                    if isinstance(fd, dict) and isinstance(ref_defs, dict):
                        for n, want in ref_defs.items():
                            if fd.get(n) != want:
                                ctx.violation("unrelated-definitions-change-findings",
                                              {"stage": "L1 adding unrelated definitions", "variant": kind, "definition": n, "files": files,
                                               "with_extra": fd.get(n), "without": want, "broken": None})
                    elif fd != ref_defs:
                        ctx.violation("unrelated-definitions-crash", {"variant": kind, "files": files, "observed": str(fd)[:300], "broken": None})
            if len(samples) < 2 and isinstance(ref, tuple) and isinstance(ref[1], list):
                samples.append({"variants": [it[0][1] for it in items], "findings": len(ref[1]), "first": ref[1][:2]})
    if hasattr(run, "_files"):
        del run._files
    if not ok:
        ctx.violation("theorem " + ";".join(failing)[:200], {"broken": "theorem", "failing": failing}, no_input=True)
    cov = ctx.coverage
    cov["evaluations"] = stats["runs"]
    cov["distinct_nontrivial"] = stats["runs"]
    cov["rule"] = ("%d generated multi-definition projects with shadowing (CFG-stage reports) and cross-template instantiation; each run "
                   "%d times in separate processes (fresh hash seeds), with 3 random permutations of its definitions, split over two input "
                   "files given in both orders, and with unrelated definitions appended/prepended; a case = one process run" % (nproj, nrep))
    cov["distribution"] = dict(stats)
    cov["samples"] = samples or [{"note": "no sample"}]
    ctx.level = "proof"
    ctx.assumptions += ["'all hash-map iteration orders' is proved for the runner's analysis order (C17_runner_perm); hash order inside passes, SSA "
                        "renaming and TemplateLibrary is sampled by the repeated runs only (partial)"]


def replay(ctx, path):
    r = json.load(open(path))
    print(json.dumps({k: r[k] for k in r if k not in ("files", "reference_files")}, indent=1)[:3000])
    ctx.coverage["evaluations"] = 1
