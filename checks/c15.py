"""C15 — dominators, immediate dominators, dominator-tree children and dominance frontiers.
Theorems: Props/C15.lean. Tie: the public generic `DominatorTree::new` on all rooted digraphs up
to 4 (quick) / 5 (thorough) nodes and random larger ones (irreducible loops, self loops,
parallel joins), compared (L1) with the path-based definitions evaluated independently in Python
and (L2) with the Lean model."""
import itertools
import json
import vlib


def reach_avoiding(n, succ, avoid):
    if avoid == 0:
        return set()
    seen, todo = {0}, [0]
    while todo:
        x = todo.pop()
        for y in succ[x]:
            if y != avoid and y not in seen:
                seen.add(y)
                todo.append(y)
    return seen


def spec(n, preds):
    """straight from the definitions (paths), independent of the implementation's algorithm"""
    succ = [[] for _ in range(n)]
    for i in range(n):
        for j in preds[i]:
            succ[j].append(i)
    dom = [set() for _ in range(n)]
    for d in range(n):
        r = reach_avoiding(n, succ, d)
        for i in range(n):
            if i == d or i not in r:
                dom[i].add(d)
    idom = []
    for i in range(n):
        sd = dom[i] - {i}
        c = [d for d in sd if all(e in dom[d] for e in sd)]
        idom.append(c[0] if len(c) == 1 else None)
    children = [sorted(i for i in range(n) if idom[i] == j) for j in range(n)]
    front = [sorted(i for i in range(n) if any(k in dom[j] for j in preds[i]) and not (k in dom[i] and k != i)) for k in range(n)]
    def csv(v):
        return ",".join(map(str, v)) or "-"
    return ";".join("D=%s I=%s C=%s F=%s" % (csv(sorted(dom[i])), "-" if idom[i] is None else idom[i], csv(children[i]), csv(front[i])) for i in range(n))


def rooted(n, preds):
    succ = [[] for _ in range(n)]
    for i in range(n):
        for j in preds[i]:
            succ[j].append(i)
    return len(reach_avoiding(n, succ, -1)) == n


def line(n, preds):
    return "%d %s" % (n, " ".join(",".join(map(str, sorted(p))) or "-" for p in preds))


def graphs(ctx):
    out = []
    maxn = 4 if ctx.tier == "quick" else 5
    for n in range(1, maxn + 1):
        subsets = [tuple(j for j in range(n) if m >> j & 1) for m in range(1 << n)]
        for combo in itertools.product(subsets, repeat=n - 1):
            preds = [()] + list(combo)
            if rooted(n, preds):
                out.append((n, preds))
    n_exh = len(out)
    rng = ctx.rng
    for _ in range(2000 if ctx.tier == "quick" else 20000):
        n = rng.below(10 if ctx.tier == "quick" else 14) + 2
        preds = [()]
        for i in range(1, n):
            k = rng.below(3) + 1
            ps = set()
            ps.add(rng.below(i))            # a forward edge keeps everything reachable
            for _ in range(k - 1):
                ps.add(rng.below(n))        # back edges, self loops, cross edges (irreducible loops)
            preds.append(tuple(sorted(ps)))
        out.append((n, preds))
    # sizes: every node count up to a bound (representation boundaries such as 8, 16, 32, 64, 128 nodes included, with more samples
    # around them), structured (chains with diamonds and loops) and random
    top = 140 if ctx.tier == "quick" else 300
    for n in range(2, top + 1):
        near = any(abs(n - b) <= 1 for b in (8, 16, 32, 64, 128, 256))
        for rep in range(4 if near else 1):
            preds = [()]
            for i in range(1, n):
                ps = {i - 1} if rep % 2 == 0 or i < 2 else {rng.below(i)}
                if i % 5 == 3 and i >= 3:
                    ps.add(i - 3)                       # a diamond closes
                if i % 7 == 2 and i + 3 < n:
                    ps.add(i + 3)                       # a loop back edge
                if rep >= 2 and rng.chance(1, 4):
                    ps.add(rng.below(n))
                preds.append(tuple(sorted(ps)))
            out.append((n, preds))
    return out, n_exh


def run(ctx):
    vlib.build_harness()
    ok, failing = vlib.theorem_gate(ctx, ["C15"])
    gs, n_exh = graphs(ctx)
    lines = [line(n, p) for n, p in gs]
    # termination is part of the property: a graph on which the constructor does not return within the
    # batch limit gets the reply `timeout`, a crash `abort rc=..`
    impl = []
    for a in range(0, len(lines), 400):
        impl += vlib.run_harness_robust("dom", lines[a:a + 400], timeout_per_batch=20, max_restarts=6)
    # the list-based Lean model is cubic: graphs beyond 15 nodes are compared with the path definitions only
    small = [k for k, (n, _) in enumerate(gs) if n <= 15]
    model_small = vlib.run_model(["dom " + lines[k] for k in small])
    model = [None] * len(lines)
    for k, m in zip(small, model_small):
        model[k] = m
    l1 = l2 = 0
    shapes = {"joins": 0, "self-loops": 0, "back-edges": 0}
    first = None
    for (n, p), l, i, m in zip(gs, lines, impl, model):
        s = spec(n, p)
        shapes["joins"] += any(len(x) > 1 for x in p)
        shapes["self-loops"] += any(k in x for k, x in enumerate(p))
        shapes["back-edges"] += any(j > k for k, x in enumerate(p) for j in x)
        if i == "not-run":
            continue
        if i != s:
            l1 += 1
            ctx.violation("dom-spec", {"stage": "L1 path definitions", "input": "dom " + l, "implementation": i, "specified": s, "model": m,
                                       "broken": None, "how_to_rerun": "echo '%s' | harness/target/debug/vharness dom" % l})
        elif m is not None and i != m:
            l2 += 1
            first = first or (l, i, m)
    if first and not l1:
        ctx.violation("dom-correspondence", {"stage": "L2", "input": "dom " + first[0], "implementation": first[1], "model": first[2],
                                             "broken": "correspondence Dominators.* <-> dominator_tree.rs", "divergences": l2}, no_input=True)
    if not ok:
        ctx.violation("theorem " + ";".join(failing)[:200], {"broken": "theorem", "failing": failing}, no_input=True)
    cov = ctx.coverage
    cov["evaluations"] = len(lines)
    cov["distinct_nontrivial"] = len(set(lines))
    cov["rule"] = ("all rooted digraphs (entry without predecessor, every node reachable, self loops allowed) with at most %d nodes: %d graphs, "
                   "exhaustive; plus random graphs up to %d nodes with back/cross/self edges; plus every node count from 2 to %d (chains with diamonds and "
                   "loops, random edges; four graphs each next to 8, 16, 32, 64, 128, 256 nodes), compared with the path definitions; distinct request lines counted"
                   % (4 if ctx.tier == "quick" else 5, n_exh, 11 if ctx.tier == "quick" else 15, 140 if ctx.tier == "quick" else 300))
    cov["exhaustive_small_graphs"] = True
    cov["shapes"] = shapes
    cov["l1_spec_failures"] = l1
    cov["l2_model_divergences"] = l2
    cov["samples"] = [{"graph": l, "impl": i} for l, i in list(zip(lines, impl))[n_exh - 2: n_exh + 2]]


def replay(ctx, path):
    r = json.load(open(path))
    vlib.build_harness()
    l = r["input"].split(" ", 1)[1]
    i = vlib.run_harness("dom", [l])[0]
    parts = l.split()
    n = int(parts[0])
    preds = [tuple(int(x) for x in p.split(",")) if p != "-" else () for p in parts[1:]]
    s = spec(n, preds)
    print("impl:", i, "\nspec:", s)
    ctx.coverage["evaluations"] = 1
    if i != s:
        ctx.violation("dom-spec", {"input": r["input"], "implementation": i, "specified": s})
