"""Shared by C06 / C07 / C20: flattening of the annotations of a real SSA dump in the order the
Lean driver prints them, and the call into the Lean propagation model."""
import json
import vlib

EXPR_TAGS = {"infix", "prefix", "switch", "var", "num", "call", "arr", "acc", "upd", "phi"}
DEG = {"c": "0", "l": "1", "q": "2", "n": "3"}


def show_ann(m):
    v, d = m[3], m[4]
    if v == "-":
        vs = "-"
    elif v[0] == "b":
        vs = "b" + v[1]
    else:
        vs = "f" + v[1]
    ds = "-" if d == "-" else DEG[d[0]] + DEG[d[1]]
    return vs + "/" + ds


def flatten_expr(e, out):
    if not isinstance(e, list) or not e:
        return
    if isinstance(e[0], list):
        for x in e:
            flatten_expr(x, out)
        return
    if e[0] in EXPR_TAGS:
        out.append(show_ann(e[1]))
        for x in e[2:]:
            flatten_expr(x, out)
    elif e[0] in ("idx", "exp"):
        flatten_expr(e[1], out)
    elif e[0] in ("m", "v", "cmp", "str"):
        return
    else:
        for x in e:
            flatten_expr(x, out)


def flatten_cfg(ssa):
    out = []
    for b in ssa[5]:
        for st in b[5]:
            body = st[1]
            if body[0] == "sub":
                out.append("S" + show_ann(body[1]))
                flatten_expr(body[4], out)
            elif body[0] == "decl":
                for d in body[4]:
                    flatten_expr(d, out)
            elif body[0] == "if":
                flatten_expr(body[2], out)
            elif body[0] == "log":
                for a in body[2]:
                    flatten_expr(a, out)
            else:
                for x in body[2:]:
                    flatten_expr(x, out)
    return out


def model_annotations_counts(ssa_list, primes, vk="-", dk="-"):
    """ssa_list: SSA dumps; returns list of (fixV, fixD, value passes, degree passes, [annotations])"""
    reqs = ["propagate (prop %s %s %s %s)" % (vlib.sexp(s), vk, dk, p) for s, p in zip(ssa_list, primes)]
    out = []
    for r in vlib.run_model(reqs):
        parts = r.split(" ")
        if len(parts) < 4 or not parts[2].isdigit():
            out.append((False, False, -1, -1, parts))
        else:
            out.append((parts[0] == "true", parts[1] == "true", int(parts[2]), int(parts[3]), parts[4:]))
    return out


def model_annotations(ssa_list, primes, vk="-", dk="-"):
    """ssa_list: SSA dumps; returns list of (fixV, fixD, [annotations])"""
    return [(a, b, e) for a, b, c, d, e in model_annotations_counts(ssa_list, primes, vk, dk)]
