"""Shared pieces of the C02 / C03 / C17 checks: project generation, observation of the real
runner (in-process and through the real binary), and the call into the Lean runner model."""
import hashlib
import json
import os
import re
import subprocess
from concurrent.futures import ThreadPoolExecutor

import gen
import vlib

LEVELS = {"info": 0, "warning": 1, "error": 2}
SARIF_LEVEL = {"info": "note", "warning": "warning", "error": "error"}


def make_project(rng, k, with_include=True):
    """files (rel path -> text), inputs, libs. Several definitions per file; optionally a second
    user file and an included-only file whose findings must never be displayed."""
    files = {}
    toks, defs, stats = gen.project(rng, n_templates=rng.below(3) + 1, n_functions=rng.below(2) + 1,
                                    shadow=rng.chance(1, 2), max_stmts=5)
    main = gen.render(toks)
    inputs = ["main.circom"]
    if with_include and rng.chance(1, 2):
        g = gen.Gen(rng, shadow=True, max_stmts=4)
        t1, n1, i1, o1 = g.template("LibT")
        f1, fn1 = g.function("libf")
        # the included-only file sometimes has no version pragma or one the tool does not support: reports about that file only
        pragma = rng.choice(["pragma circom 2.0.0;\n", "pragma circom 2.0.0;\n", "", "pragma circom 2.9.9;\n"])
        files["lib/inc.circom"] = pragma + gen.render(f1) + gen.render(t1)
        main = main.replace("pragma circom 2.0.0 ;\n", "pragma circom 2.0.0 ;\ninclude \"lib/inc.circom\";\n", 1)
    if rng.chance(1, 3):
        g = gen.Gen(rng, shadow=True, max_stmts=4)
        t2, n2, i2, o2 = g.template("Second")
        second = "second.circom"
        odd_name = rng.chance(1, 3)
        if odd_name:
            # a legal but unusual file name (it is only named on the command line, never included)
            second = rng.choice(['se"cond.circom', "sec ond.circom", "sec#ond%41.circom", 'a"b"c.circom'])
        files[second] = "pragma circom 2.0.0;\n" + gen.render(t2)
        inputs.append(second)
        if not odd_name and rng.chance(1, 2):
            # the second user file is also included by the first one, and the two are named in either order: a file that is
            # both included and named on the command line stays a user input (its findings are displayed once)
            main = main.replace("pragma circom 2.0.0 ;\n", "pragma circom 2.0.0 ;\ninclude \"second.circom\";\n", 1)
            if rng.chance(1, 2):
                inputs = ["second.circom", "main.circom"]
    if rng.chance(1, 3):
        # non-ASCII text in comments in front of code on the same line: displayed columns and SARIF columns count characters
        lines = main.split("\n")
        for i in range(2, len(lines)):
            if lines[i].strip() and rng.chance(1, 4):
                lines[i] = "/* naïve – ünïcödé µ */ " + lines[i]
        main = "\n".join(lines)
    if rng.chance(1, 4):
        # a template that instantiates itself and has a finding from CFG generation (a shadowing declaration): the passes look the
        # template up while its own CFG is taken out of the cache, so it is generated a second time and the findings of that second
        # generation must not be handed to the writer again (seeded change C03/m8)
        rec = ("template Rec%d(n) { signal input a; signal output b; var x = n; if (n > 0) { var x = 1; component r = Rec%d(n - x); r.a <== a; b <== r.b; } "
               "else { b <== a + x; } }\n" % (k, k))
        lines = main.split("\n")
        at = max(i for i, l in enumerate(lines) if "component main" in l) if any("component main" in l for l in lines) else len(lines)
        main = "\n".join(lines[:at] + [rec.rstrip("\n")] + lines[at:])
    curve = "BN254"
    if rng.chance(1, 2):
        # a main component (since 1121aa8 its instantiation is analysed: one more batch after the definitions), sometimes one the
        # curve-dependent passes flag, sometimes in the included-only file (nothing about it may be displayed)
        kind = rng.below(4)
        if kind == 0:
            extra = "template Num2Bits(n) { signal input in; signal output out[n]; for (var i = 0; i < n; i++) { out[i] <-- (in >> i) & 1; out[i] * (out[i] - 1) === 0; } }\ncomponent main = Num2Bits(%d);\n" % rng.choice([8, 253, 254, 300])
        elif kind == 1:
            curve = rng.choice(["BLS12_381", "GOLDILOCKS", "BN254"])
            extra = "template Sign() { signal input in[254]; signal output sign; sign <== in[0]; }\ncomponent main {public [in]} = Sign();\n"
        elif kind == 2:
            extra = "template Top(n) { signal input a; signal output b; b <== a * n; }\ncomponent main = Top(%s);\n" % rng.choice(["3", "2 + 1", "Top()(1)", "(1, 2)", "x"])
        else:
            curve = rng.choice(["BLS12_381", "BN254"])
            extra = "template Poseidon(n) { signal input a[n]; signal output b; b <== a[0]; }\ncomponent main = Poseidon(2);\n"
        # the generated project ends with its own main component (nothing may follow it): replaced
        main = "\n".join(l for l in main.split("\n") if "component main" not in l)
        if "lib/inc.circom" in files and rng.chance(1, 3):
            files["lib/inc.circom"] += extra
        else:
            main += "\n" + extra
    files["main.circom"] = main
    return {"files": files, "inputs": inputs, "libs": [], "stats": stats, "curve": curve}


def materialize(wd, tag, proj):
    paths = {}
    for rel, text in proj["files"].items():
        if rel.startswith("@symlink:"):
            link = os.path.join(wd.path, tag, rel[len("@symlink:"):])
            os.makedirs(os.path.dirname(link), exist_ok=True)
            os.symlink(text, link)
            continue
        paths[rel] = wd.write(os.path.join(tag, rel), text if isinstance(text, bytes) else text.encode("utf-8"))
    base = os.path.join(wd.path, tag)
    return {"inputs": [os.path.join(base, r) for r in proj["inputs"]],
            "libs": [os.path.join(base, r) for r in proj["libs"]], "curve": proj.get("curve", "BN254"), "base": base}


def rkey(r):
    """canonical identity of a report (everything a user can see), as a short hash"""
    def lab(l):
        return [os.path.basename(l["file"]), l["start"], l["end"], l["label"]]
    blob = json.dumps([r["id"], r["level"], r["message"], sorted(lab(l) for l in r["primary"]),
                       sorted(lab(l) for l in r["secondary"]), r["notes"]], sort_keys=True)
    return hashlib.sha1(blob.encode()).hexdigest()[:12]


def rtok(r):
    return "%s/%d/%d/%d/%s" % (r["id"], LEVELS[r["level"]], 1 if r["primary"] else 0, 1 if r["user_input"] else 0, rkey(r))


def rtoks(rs):
    return ";".join(rtok(r) for r in rs) or "-"


MAIN = "<main component>"


def split_main(batches):
    """(the batches of the definitions, the reports of the main component or None)"""
    ms = [b for b in batches if b[0] == "main"]
    return [b for b in batches if b[0] != "main"], (ms[0][2] if ms else None)


def real_batches(reply):
    """events -> (parse batch, [(kind, name, [reports])]) in the order the real runner produced them"""
    parse, batches, cur = [], [], None
    seen_done = False
    for e in reply["events"]:
        if "msg" in e:
            if e["msg"] == "--parse-done--":
                seen_done = True
                continue
            m = re.match(r"analyzing (template|function) '(.*)'$", e["msg"])
            if m:
                cur = (m.group(1), m.group(2), [])
                batches.append(cur)
            elif e["msg"] == "analyzing main component":
                cur = ("main", MAIN, [])
                batches.append(cur)
        else:
            if not seen_done:
                parse.append(e["report"])
            elif cur is not None:
                cur[2].append(e["report"])
    return parse, batches


def model_line(iso, order, level, allow):
    defs = []
    for d in iso["defs"]:
        defs.append("%s:%d:%s:%s:%s" % (d["name"], 1 if d["ok"] else 0, rtoks(d["gen"]),
                                        ",".join(d["lookups"]) or "-", rtoks(d["passes"])))
    if iso.get("main") is not None:
        defs.append("main=" + rtoks(iso["main"]))
    return "runner %d %s %s %s %s" % (level, ",".join(allow) or "-", ",".join(order) or "-", rtoks(iso["parse"]), " ".join(defs))


def parse_model(reply):
    parts = reply.split(" # ")
    def rl(t):
        return [] if t == "-" else t.split(";")
    return {"exit": int(parts[0].split()[1]), "written": int(parts[1].split()[1]), "summary": parts[2],
            "batches": [rl(b) for b in parts[3].split("|")], "displayed": rl(parts[4]), "sarif": rl(parts[5])}


def spec_keep(r, level, allow, inputs=None):
    """the filter clause of C03, straight from the property text. A report without a label that is about one file (the version
    pragma reports name it in their message) is located in that file: with `inputs` (the paths named on the command line) given, such
    a report about an only-included file is not displayed."""
    located_only_in_included = bool(r["primary"]) and not r["user_input"]
    if inputs is not None and not r["primary"]:
        m = re.match(r"The file `(.*?)` (?:does not include a version pragma|requires version)", r["message"])
        if m and os.path.realpath(m.group(1)) not in {os.path.realpath(i) for i in inputs}:
            located_only_in_included = True
    return LEVELS[r["level"]] >= level and r["id"] not in allow and not located_only_in_included


HDR = re.compile(r"^(error|warning|note|bug|help)(?:\[([A-Za-z0-9]+)\])?: (.*)$")


def run_cli(cli, req, level=None, allow=(), sarif=None, verbose=False, extra=None, timeout=60):
    argv = [cli] + list(req["inputs"])
    for l in req["libs"]:
        argv += ["-L", l]
    if level is not None:
        argv += ["--level", level]
    for a in allow:
        argv += ["--allow", a]
    if sarif:
        argv += ["--sarif-file", sarif]
    if verbose:
        argv += ["--verbose"]
    if req.get("curve") and req["curve"] != "BN254":
        argv += ["--curve", req["curve"]]
    argv += list(extra or [])
    try:
        p = subprocess.run(argv, stdout=subprocess.PIPE, stderr=subprocess.PIPE, timeout=timeout, preexec_fn=vlib.limit_memory)
        out = p.stdout.decode("utf-8", "replace")
        rc = p.returncode
        err = p.stderr.decode("utf-8", "replace")
    except subprocess.TimeoutExpired:
        return {"rc": "timeout", "diags": [], "summary": None, "stdout": "", "stderr": "", "argv": argv}
    diags, summary = [], None
    for line in out.split("\n"):
        m = HDR.match(line)
        if m:
            diags.append((m.group(1), m.group(2), m.group(3)))
        m = re.match(r"^circomspect: (No issues found\.|1 issue found\.|(\d+) issues found\.)$", line)
        if m:
            summary = line[len("circomspect: "):]
    positions = re.findall(r"┌─ (.*?):(\d+):(\d+)\s*$", out, re.M)
    return {"rc": rc, "diags": diags, "summary": summary, "stdout": out, "stderr": err[-2000:], "argv": argv,
            "positions": positions}


def line_col(src_bytes, off):
    """1-based line and column (in characters) of a byte offset, computed on the original file"""
    before = src_bytes[:off]
    line = before.count(b"\n") + 1
    start = before.rfind(b"\n") + 1
    col = len(before[start:].decode("utf-8", "replace")) + 1
    return line, col


def pmap(fn, items, workers=16):
    with ThreadPoolExecutor(max_workers=workers) as ex:
        return list(ex.map(fn, items))
