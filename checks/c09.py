"""C09 — `value never read` / `no side effect` claims about variables are true.
Theorems: Props/C09.lean on Model/Taint.lean (the closure loop returns a superset of everything
reachable; the sink set covers every observed read; a claimed variable reaches no sink; lock-step
non-interference of the machine for every program, every number of steps and every replacement of
the values assigned to the claimed variable).
Tie: generated functions and templates (locals, parameters, input/output/intermediate signals,
arrays, loops, branches, shadowing) through the real SSA construction and the real passes
(harness `taint`):
 L2: taint steps, constraint steps and the CS0006/CS0007/CS0008 claims of the real passes equal the
     Lean model's on the facts of the same CFG; the facts are well formed (one written variable per
     substitution, constraint variables are read).
 L1 (no model): the read/written sets of every statement equal an independent derivation from the IR
     tree; for every claim, the reference interpreter runs the SSA CFG under random valuations with
     the values assigned to the claimed variable (or the claimed parameter) replaced by random
     values: the observable trace (values assigned to input/output signals, constraints mentioning
     them, assertions, return values, array dimensions, branch decisions) must not change."""
import collections
import json
import re
import vlib
from checks import liftlib, interp

HAND = [
    # a constraint that mentions a single name (audit C09 f1): the local and what flows into it are used in constraint generation
    "template T(n) { signal input a; signal output out; var lc = n * a; lc === 6; out <== a; }",
    "template T() { signal input a; signal output out; var x = a; x * x === x; out <== a; }",
    "template T(n) { signal input a; signal output out; var t = a + n; var u = t * 2; u === 0; out <-- a; }",
    "template T(n) { signal input a; signal output out; signal m; m <-- a; var w = m * n; w === 1; out <== a; }",
    "template T() { signal input a; signal output out; out <-- a; }",
    "template T() { signal input a; signal output out; signal m; m <-- a; out <== a; }",
    "template T() { signal input a; signal output out; signal m; m <== a; out <== a; }",
    "template T() { signal input a; signal output out; var v = a; var w = v + 1; out <== a; }",
    "template T() { signal input a; signal output out; var v[2]; v[0] = a; v[1] = 2; out <== v[0]; }",
    "template T() { signal input a; signal output out; var v[2]; var i = 1; v[i] = a; out <== v[1]; }",
    "template T() { signal input a; signal output out; var v[2]; var i = 1; v[0] = a; out <== v[i]; }",
    "function f(x, y) { var z = y; var k = x + 1; return k; }",
    "function f(x) { var c = x; var r = 0; if (c == 1) { r = 1; } return r; }",
    "function f(x) { var c = x; var r = 0; while (c < 3) { c++; r += 2; } return r; }",
    "function f(x) { var n = x; var a[n]; return 1; }",
    "function f(x) { var k = x; assert(k == 1); return 1; }",
    "function f(x) { var k = 0; for (var i = 0; i < 3; i++) { k = k + i; } return x; }",
    "template T() { signal input a; signal output out; var k = 0; for (var i = 0; i < 2; i++) { if (a == 1) { k = k + 1; } } out <== a; }",
    "template T() { signal input a; signal output out; var t = a * 2; signal m; m <== t; out <== m; }",
    "template T() { signal input a; signal output out; var t = a * 2; signal m; m <-- t; m === a; out <== a; }",
    "template T() { signal input a; signal output out; var s = 0; var u = 5; s = u; u = a; out <== s; }",
    "function f(x) { var a[3]; a[0] = x; a[1] = 7; var b = a[1]; return b; }",
    "function f(x) { var p = x; var q = p; var r = q; return 1; }",
    "template T(n) { signal input a; signal output out; var k = n; out <== a; }",
    # values that only decide a branch whose condition is a known constant
    "template T() { signal input a; signal input b; signal output out; var mode = 1; if (mode == 1) { out <== a; } else { out <== b; } }",
    "function f(y, z) { var mode = 1; var r = z; if (mode == 1) { r = y; } return r; }",
    "function f(y) { var lim = 3; var r = 0; for (var i = 0; i < lim; i++) { r += y; } return r; }",
    "function f(y) { var t = 2; var u = t + 1; var r = 0; while (r < u) { r++; } return r; }",
    "template T() { signal input a; signal output out; var k = 0; var sel = 0; out <== (sel == 0) ? a : a * a; }",
    "function f(y) { var d = 2; var arr[d]; arr[0] = y; return arr[0]; }",
    "function f(y) { var e = 1; assert(e == 1); return y; }",
    # a local used only as an index *after* a component access (which port element is read / driven)
    "template T(n) { signal input in[n]; signal output out; component c = Inner(n); for (var i = 0; i < n; i++) { c.in[i] <== in[i]; } var last = n - 1; out <== c.out[last]; }",
    "template T() { signal input in; signal output out; component c = Inner(2); var hot = 0; var cold = 1 - hot; c.in[hot] <== in; c.in[cold] <== 0; out <== c.out[0] + c.out[1]; }",
    "template T(n) { signal input in; signal output out; component cs[2]; var k = 1; var j = 0; cs[0] = Inner(2); cs[1] = Inner(2); cs[k].in[j] <== in; out <== cs[k].out[j]; }",
    "template T() { signal input in; signal output out; component c = Inner(2); var sel = 1; var z = 0; c.in[0] <== in; c.in[1] <== in; out <-- c.out[sel] + z; out === c.out[sel]; }",
    # taint cycles of three and more variables whose exit is a later local (seeded C09 m8: a depth-first search with a cache of negative
    # answers that is wrong for such cycles, for some hash orders): variables updated twice per iteration, a Fibonacci rotation
    "template T(n) { signal input in; signal output out[12]; var acc0 = 1; var acc1 = 2; var acc2 = 3; var acc3 = 4; var acc4 = 5; var acc5 = 6; var acc6 = 7; var acc7 = 8; var acc8 = 9; var acc9 = 10; var acc10 = 11; var acc11 = 12; for (var i = 0; i < n; i++) { acc0 = acc0 + i; acc0 = acc0 * 3; acc1 = acc1 + i; acc1 = acc1 * 3; acc2 = acc2 + i; acc2 = acc2 * 3; acc3 = acc3 + i; acc3 = acc3 * 3; acc4 = acc4 + i; acc4 = acc4 * 3; acc5 = acc5 + i; acc5 = acc5 * 3; acc6 = acc6 + i; acc6 = acc6 * 3; acc7 = acc7 + i; acc7 = acc7 * 3; acc8 = acc8 + i; acc8 = acc8 * 3; acc9 = acc9 + i; acc9 = acc9 * 3; acc10 = acc10 + i; acc10 = acc10 * 3; acc11 = acc11 + i; acc11 = acc11 * 3; } var t0 = acc0 + 1; out[0] <== in * t0; var t1 = acc1 + 1; out[1] <== in * t1; var t2 = acc2 + 1; out[2] <== in * t2; var t3 = acc3 + 1; out[3] <== in * t3; var t4 = acc4 + 1; out[4] <== in * t4; var t5 = acc5 + 1; out[5] <== in * t5; var t6 = acc6 + 1; out[6] <== in * t6; var t7 = acc7 + 1; out[7] <== in * t7; var t8 = acc8 + 1; out[8] <== in * t8; var t9 = acc9 + 1; out[9] <== in * t9; var t10 = acc10 + 1; out[10] <== in * t10; var t11 = acc11 + 1; out[11] <== in * t11; }",
    "template T(n) { signal input in; signal output out; var a = 0; var b = 1; var tmp = 0; for (var i = 0; i < n; i++) { tmp = a + b; a = b; b = tmp; } var total = a + 1; out <== in * total; }",
    "function f(n) { var a = 0; var b = 1; var c = 2; var tmp = 0; for (var i = 0; i < n; i++) { tmp = a + b; a = b; b = c; c = tmp; } var total = a + 1; return total; }",
]


def ir_uses(body):
    """independent derivation of (read names, written names) from the IR tree of one statement"""
    reads, writes = set(), set()

    def name(v):
        return v[1] + ("" if v[2] == "-" else "~" + v[2]) + ("" if v[3] == "-" else "." + v[3])

    def ex(e):
        t = e[0]
        if t == "var":
            reads.add(name(e[2]))
        elif t in ("infix",):
            ex(e[3]); ex(e[4])
        elif t == "prefix":
            ex(e[3])
        elif t == "switch":
            ex(e[2]); ex(e[3]); ex(e[4])
        elif t == "call":
            for a in e[3]:
                ex(a)
        elif t == "arr":
            for a in e[2]:
                ex(a)
        elif t == "acc":
            reads.add(name(e[2]))
            for a in e[3]:
                if a[0] == "idx":
                    ex(a[1])
        elif t == "upd":
            reads.add(name(e[2]))
            for a in e[3]:
                if a[0] == "idx":
                    ex(a[1])
            ex(e[4])
        elif t == "phi":
            for a in e[2]:
                reads.add(name(a))
    k = body[0]
    if k == "sub":
        writes.add(name(body[2]))
        ex(body[4])
        if body[3] == "csig":
            # `x <== e` is also the constraint `x === e`: the assigned signal counts as read
            reads.add(name(body[2]))
    elif k == "decl":
        for d in body[4]:
            ex(d)
    elif k == "if":
        ex(body[2])
    elif k in ("ret", "assert"):
        ex(body[2])
    elif k == "ceq":
        ex(body[2]); ex(body[3])
    elif k == "log":
        for a in body[2]:
            if a[0] == "exp":
                ex(a[1])
    return reads, writes


def mentions_exported(body, exported_plain):
    found = [False]

    def walk(e):
        if isinstance(e, list):
            if e and e[0] == "v" and len(e) == 4 and e[1] in exported_plain:
                found[0] = True
            for x in e:
                walk(x)
    walk(body)
    return found[0]


def observable(it, ssa, exported_plain):
    out = []
    blocks = ssa[5]
    for ev in it.trace:
        if ev[0] == "signal":
            if ev[1] in ("input", "output"):
                out.append(("signal", ev[2], ev[3], ev[4]))
        elif ev[0] == "constraint":
            blk, si = ev[3]
            # the constraint mentions an input/output signal — in its text, or through the symbolic value of a local it reads
            # (`var lc = n * in; lc === 6;` is the constraint n*in = 6)
            if mentions_exported(blocks[blk][5][si][1], exported_plain) or (len(ev) > 4 and set(ev[4]) & set(exported_plain)):
                out.append(("constraint", ev[1], ev[2], blk, si))
        elif ev[0] in ("dimension", "return", "assert", "branch"):
            out.append(ev)
    return out


def run(ctx):
    vlib.build_harness()
    ok, failing = vlib.theorem_gate(ctx, ["C09"])
    p = 21888242871839275222246405745257275088548364400416034343698204186575808495617
    n = 250 if ctx.tier == "quick" else 3000
    nval = 5 if ctx.tier == "quick" else 12
    nrep = 4 if ctx.tier == "quick" else 8
    srcs = HAND + [d[0] for d in liftlib.gen_definitions(ctx.rng, n, max_stmts=7)]
    stats = collections.Counter()
    l1 = l2 = 0
    samples = []
    reqs = [json.dumps({"src": s, "curve": "BN254"}) for s in srcs]
    replies = vlib.run_harness_robust("taint", reqs)
    rlines, rkeys = [], []
    rlines, rkeys = [], []
    mlines, mkeys, infos = [], [], {}
    for k, (src, rep) in enumerate(zip(srcs, replies)):
        if not rep.startswith("{"):
            l1 += 1
            ctx.violation("taint-harness-crash", {"stage": "L1", "source": src, "observed": rep[:300], "broken": None})
            continue
        r = json.loads(rep)
        if "error" in r:
            stats["definitions without SSA CFG (skipped)"] += 1
            continue
        stats["definitions"] += 1
        ids = {}

        def vid(nm, ids=ids):
            return ids.setdefault(nm, len(ids))

        def lst(xs):
            return ".".join(str(vid(x)) for x in xs) or "-"
        toks = []
        problems = []
        for b in r["blocks"]:
            for si, st in enumerate(b["stmts"]):
                kind, ex = st["kind"], st["extra"]
                rd, wr = st["read"], st["written"]
                ir_r, ir_w = ir_uses(st["ir"][1])
                if set(rd) != ir_r or set(wr) != ir_w:
                    problems.append("statement %s: variables read %s / written %s, but the IR tree reads %s / writes %s" % (kind, rd, wr, sorted(ir_r), sorted(ir_w)))
                if kind == "sub":
                    if len(wr) != 1:
                        problems.append("substitution writes %s" % wr)
                        continue
                    toks.append("A:%d:%s:%d" % (vid(wr[0]), lst(rd), 1 if ex["phi"] else 0))
                    if ex["constraint"]:
                        toks.append("C:%s:-" % lst(sorted(set(rd) | set(wr))))
                elif kind == "decl":
                    toks.append("D:%s:%s" % (lst(ex["declared"]), lst(ex["dim_reads"])))
                elif kind == "branch":
                    toks.append("B:%s:%d:%s" % (lst(ex["cond_reads"]), 1 if ex["const"] else 0, lst(ex["region"])))
                elif kind in ("ret", "assert"):
                    toks.append("O:%s" % lst(rd))
                elif kind == "ceq":
                    toks.append("C:%s:%s" % (lst(sorted(set(rd) | set(wr))), lst(rd)))
                else:
                    toks.append("X:%s" % lst(rd))
        if problems:
            l1 += 1
            ctx.violation("variable-use-sets " + problems[0][:40], {"stage": "L1 read/written sets vs IR tree", "source": src, "problems": problems[:5], "broken": None})
            continue
        under = [d["name"] for d in r["definitions"] if d["display"] == "_"]
        fuel = len(ids) + len(r["params"]) + len(r["exported"]) + 5
        for x in r["params"] + r["exported"] + under:
            vid(x)
        fuel = len(ids) + 3
        mlines.append("taint %d %s %s %s %s" % (fuel, lst(r["params"]), lst(r["exported"]), lst(under), " ".join(toks)))
        mkeys.append(k)
        # the sides of every if statement from the edges of the CFG alone (Model/CfgReach.lean)
        nb = len(r["blocks"])
        edges = sorted((b["index"], t) for b in r["blocks"] for t in b["succ"])
        brs = [(b["index"], st["extra"]) for b in r["blocks"] for st in b["stmts"] if st["kind"] == "branch"]
        if brs and nb <= 24:
            rlines.append("regions %d %s %s" % (nb, ",".join("%d>%d" % e for e in edges) or "-",
                                                ",".join("%d:%d:%s" % (h, ex["true_index"], "-" if ex["false_index"] is None else ex["false_index"]) for h, ex in brs)))
            rkeys.append((k, brs))
        elif brs:
            stats["definitions too large for the region model"] += 1
        infos[k] = (r, dict(ids))
    rout = vlib.run_model(rlines) if rlines else []
    for (k, brs), ml in zip(rkeys, rout):
        want = " ".join("%d:T=%s:F=%s" % (h, ",".join(map(str, ex["true_blocks"])) or "-", ",".join(map(str, ex["false_blocks"])) or "-") for h, ex in brs)
        stats["branch regions compared"] += len(brs)
        if ml.strip() != want:
            l2 += 1
            ctx.violation("branch-region-correspondence", {"stage": "L2 get_true_branch / get_false_branch vs CfgReach.trueBranch / falseBranch", "source": srcs[k],
                                                           "model": ml[:400], "implementation": want[:400],
                                                           "broken": "correspondence CfgReach.branch <-> Cfg::get_true_branch / get_false_branch"})
    mout = vlib.run_model(mlines)
    for k, ml in zip(mkeys, mout):
        src = srcs[k]
        r, ids = infos[k]
        rev = {v: n for n, v in ids.items()}
        d = dict(t.split("=", 1) for t in ml.split())
        # ---- L2 ---------------------------------------------------------------------------------------
        def pairs(s):
            return set() if s == "-" else {(rev[int(a)], rev[int(b)]) for a, b in (x.split(">") for x in s.split(","))}
        real_t = {(a, b) for a, bs in r["taint_map"].items() for b in bs}
        real_c = {(a, b) for a, bs in r["constraint_map"].items() for b in bs}
        # the closures of the real passes against reachability in the real single-step maps (what C09_closure says the model's loop returns)
        def reach(edges, start, reflexive):
            succ = collections.defaultdict(set)
            for a, b in edges:
                succ[a].add(b)
            seen, todo = set(), ([start] if reflexive else list(succ[start]))
            while todo:
                x = todo.pop()
                if x not in seen:
                    seen.add(x)
                    todo += succ[x]
            return seen
        closure_bad = []
        for vn, got in r.get("taint_closure", {}).items():
            stats["closures compared"] += 1
            if set(got) != reach(real_t, vn, True):
                closure_bad.append(("multi_step_taint", vn, sorted(got), sorted(reach(real_t, vn, True))))
        for vn, got in r.get("constraint_closure", {}).items():
            stats["closures compared"] += 1
            if set(got) != reach(real_c, vn, False):
                closure_bad.append(("multi_step_constraint", vn, sorted(got), sorted(reach(real_c, vn, False))))
        if closure_bad:
            l2 += 1
            ctx.violation("closure-not-reachability " + closure_bad[0][0], {"stage": "L2 closure = reachability (C09_closure)", "source": src, "differences (function, start, returned, reachable)": closure_bad[:4],
                                                                               "broken": "correspondence Taint.multiStepTaint / multiStepCons <-> multi_step_taint / multi_step_constraint"})
        model_claims = {}
        bad_fuel = False
        if d["claims"] != "-":
            for t in d["claims"].split(","):
                x, c = t.split(":")
                if c == "fuel":
                    bad_fuel = True
                if c in ("U", "N"):
                    model_claims[rev[int(x)]] = c
        real_claims = {}
        unmapped = []
        for rp in r["reports"]:
            msg = rp["message"]
            m = re.match(r"The (?:variable|parameter) `(.*)` (?:is assigned a value, but this value is never read|is never read)\.$", msg)
            cat = "U" if m else None
            if not m:
                m = re.match(r"The (?:value assigned to|parameter) `(.*)` (?:is not used in witness or constraint generation|is not used to compute the return value(?: of the function)?)\.$", msg)
                cat = "N" if m else None
            if not m:
                continue
            disp = m.group(1)
            loc = (rp["primary"][0]["start"], rp["primary"][0]["end"]) if rp["primary"] else None
            if msg.startswith("The parameter"):
                cands = [dd["name"] for dd in r["definitions"] if dd["display"] == disp and dd["name"] in r["params"]]
            else:
                cands = [dd["name"] for dd in r["definitions"] if dd["display"] == disp and (dd["start"], dd["end"]) == loc]
            if len(cands) != 1:
                unmapped.append((msg, loc, cands))
            else:
                real_claims[cands[0]] = cat
        stats["claims"] += len(real_claims)
        if d.get("wf") != "1":
            l2 += 1
            ctx.violation("taint-facts-not-well-formed", {"stage": "L2 hypothesis of C09_noninterference: constraint variables are read", "source": src, "model": ml[:300],
                                                          "broken": "hypothesis consWfB of the C09 theorems"}, no_input=True)
            continue
        if bad_fuel or d["sinks"] == "none":
            ctx.violation("taint-model-fuel", {"stage": "L2", "source": src, "model": ml[:300], "broken": "harness: iteration budget too small"}, no_input=True)
            continue
        l2_bad = None
        if pairs(d["edges"]) != real_t or pairs(d["cons"]) != real_c or model_claims != real_claims or unmapped:
            l2 += 1
            l2_bad = ("taint-correspondence", {"stage": "L2", "source": src,
                                                   "taint_only_model": sorted(pairs(d["edges"]) - real_t)[:6], "taint_only_implementation": sorted(real_t - pairs(d["edges"]))[:6],
                                                   "constraint_only_model": sorted(pairs(d["cons"]) - real_c)[:6], "constraint_only_implementation": sorted(real_c - pairs(d["cons"]))[:6],
                                                   "claims_model": model_claims, "claims_implementation": real_claims, "unmapped_reports": unmapped[:3],
                                                   "broken": "correspondence Taint.Def.classify <-> run_side_effect_analysis"})
        # ---- L1: perturbation (also the search for a failing input when the correspondence is broken) ------------------------------------------------------------------------
        ssa = r["ssa"]
        exported_plain = {x.split(".")[0].split("~")[0] for x in r["exported"]}
        for name, cat in sorted(real_claims.items()):
            is_param = name in r["params"]
            sites = [(b["index"], si) for b in r["blocks"] for si, st in enumerate(b["stmts"])
                     if st["kind"] == "sub" and not st["extra"]["phi"] and st["written"] == [name]]
            if not is_param and not sites:
                continue
            stats["claims perturbed"] += 1
            found = None
            for v in range(nval):
                cache = {}
                rng = ctx.rng

                def inputs(key, cache=cache, rng=rng):
                    if key not in cache:
                        m = rng.below(6)
                        cache[key] = [0, 1, 2, 3][m] if m < 4 else rng.bits(8)
                    return cache[key]
                base, babort = interp.run(ssa, p, inputs, max_steps=300)
                if babort is not None and not babort.startswith("invalid"):
                    stats["runs the oracle cannot execute (calls, components, ...)"] += 1
                    continue
                bobs = observable(base, ssa, exported_plain)
                for rep_i in range(nrep):
                    stats["perturbed runs"] += 1
                    if is_param:
                        plain = name.split(".")[0].split("~")[0]
                        newv = [0, 1, 2, 3, 5, p - 1][rng.below(6)] if rng.chance(2, 3) else rng.bits(16)

                        def inputs2(key, cache=cache, plain=plain, newv=newv, inputs=inputs):
                            if key == ("param", plain):
                                return newv
                            return inputs(key)
                        pert, pabort = interp.run(ssa, p, inputs2, max_steps=300)
                    else:
                        ov = {s: ([0, 1, 2, 3, 5, p - 1][rng.below(6)] if rng.chance(2, 3) else rng.bits(16)) for s in sites}
                        pert, pabort = interp.run(ssa, p, inputs, max_steps=300, override=ov)
                    if pabort is not None and not pabort.startswith("invalid"):
                        continue
                    pobs = observable(pert, ssa, exported_plain)
                    ncommon = min(len(bobs), len(pobs)) if (babort or pabort) else max(len(bobs), len(pobs))
                    if bobs[:ncommon] != pobs[:ncommon] or (not babort and not pabort and len(bobs) != len(pobs)):
                        found = {"inputs": {str(a): str(b) for a, b in cache.items()}, "replacement": "parameter value %s" % (newv if is_param else None) if is_param else {str(s): str(x) for s, x in ov.items()},
                                 "observable_base": [str(x) for x in bobs][:12], "observable_perturbed": [str(x) for x in pobs][:12]}
                        break
                if found:
                    break
            if found:
                l1 += 1
                ctx.violation("false-side-effect-claim " + ("unread" if cat == "U" else "no-side-effect"),
                              dict(found, stage="L1 perturbation of the claimed variable", source=src, variable=name, claim=cat,
                                   broken=(l2_bad[1]["broken"] if l2_bad else None)))
                l2_bad = None
            elif len(samples) < 3:
                samples.append({"source": src[:220], "variable": name, "claim": cat})
        if l2_bad:
            ctx.violation(l2_bad[0], l2_bad[1], no_input=True)
    if not ok:
        ctx.violation("theorem " + ";".join(failing)[:200], {"broken": "theorem", "failing": failing}, no_input=True)
    cov = ctx.coverage
    cov["evaluations"] = stats["perturbed runs"] + stats["definitions"]
    cov["distinct_nontrivial"] = stats["definitions"]
    cov["rule"] = ("%d hand-written definitions (unread output, intermediate signals with <-- / <==, arrays indexed by variables, values reaching only a "
                   "condition / a dimension / an assert, loops, shadowed chains) plus %d generated functions and templates; for every CS0006/7/8 claim "
                   "%d random valuations x %d random replacements of the claimed value (every assignment to that SSA name, or the parameter)" % (len(HAND), n, nval, nrep))
    cov["distribution"] = dict(stats)
    cov["l1_failures"] = l1
    cov["l2_divergences"] = l2
    cov["samples"] = samples or [{"note": "none"}]
    ctx.assumptions += ["the interpreter is a search oracle; runs that need function calls, component outputs or inline arrays are not executed",
                        "invalid executions (division by zero, failed assertion, double assignment) are compared up to the point where either run stops"]


def replay(ctx, path):
    r = json.load(open(path))
    print(json.dumps(r, indent=1)[:3000])
    ctx.coverage["evaluations"] = 1
