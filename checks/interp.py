"""Reference semantics used as *search oracles* (never as proofs):

* `run(ssa, prime, inputs, ...)`: a concrete interpreter for an SSA CFG dump under Circom's field
  semantics (the Python transcription of lean/Circomspect/Spec/Field.lean); it records every value
  each annotated node takes and the observable trace (C06, C09, C20);
* `degree_lfp(ssa)`: the least fixpoint of Circom's expression algebra over the SSA CFG — an
  independent (optimistic) degree analysis (C07).
"""


class Abort(Exception):
    pass


def bits(n):
    return max(1, n.bit_length())


def sval(p, z):
    return z - p if z >= p // 2 + 1 else z


def field_op(op, a, b, p):
    a %= p
    b %= p
    if op == "add":
        return (a + b) % p
    if op == "sub":
        return (a - b) % p
    if op == "mul":
        return (a * b) % p
    if op == "div":
        if b == 0:
            raise Abort("invalid: division by zero")
        return (a * pow(b, -1, p)) % p
    if op == "idiv":
        if b == 0:
            raise Abort("invalid: integer division by zero")
        return a // b
    if op == "mod":
        if b == 0:
            raise Abort("invalid: remainder by zero")
        return a % b
    if op == "pow":
        return pow(a, b, p)
    if op in ("shl", "shr"):
        left = (op == "shl")
        k = b
        if k > p // 2:
            k = p - k
            left = not left
        if k >= bits(p):
            raise Abort("invalid: over-large shift")
        if left:
            return ((a << k) & ((1 << bits(p)) - 1)) % p
        return a >> k
    if op == "and":
        return (a & b) % p
    if op == "or":
        return (a | b) % p
    if op == "xor":
        return (a ^ b) % p
    if op == "eq":
        return int(a == b)
    if op == "ne":
        return int(a != b)
    if op == "lt":
        return int(sval(p, a) < sval(p, b))
    if op == "le":
        return int(sval(p, a) <= sval(p, b))
    if op == "gt":
        return int(sval(p, a) > sval(p, b))
    if op == "ge":
        return int(sval(p, a) >= sval(p, b))
    if op == "band":
        return int(a != 0 and b != 0)
    if op == "bor":
        return int(a != 0 or b != 0)
    raise Abort("unknown operator " + op)


def prefix_op(op, a, p):
    a %= p
    if op == "neg":
        return (-a) % p
    if op == "compl":
        return ((1 << 256) - 1 - a % (1 << 256)) % p
    if op == "not":
        return int(a == 0)
    raise Abort("unknown prefix " + op)


def vkey(v):
    return (v[1], v[2], v[3])


class Interp:
    """Executes an SSA CFG. `inputs(name)` supplies parameter / signal / unknown values.
    `override`: {(block, stmt index): value} replaces the value assigned by that substitution
    (C09 perturbation)."""

    def __init__(self, ssa, prime, inputs, max_steps=2000, override=None, free_signals=False):
        # free_signals: every signal and component port is an independent indeterminate (C07): a read asks `inputs`, whatever was assigned
        self.free_signals = free_signals
        self.node_seq = {}         # (start, end, tag) -> values in evaluation order
        self.deps = {}             # local variable -> the signals its current (symbolic) value is built from
        self.ssa = ssa
        self.p = prime
        self.inputs = inputs
        self.max_steps = max_steps
        self.override = override or {}
        self.store = {}
        self.arrays = {}
        self.node_values = {}      # (start, end, tag) -> set of values seen
        self.trace = []            # observable events
        self.decisions = []
        self.kind = ssa[2]
        self.types = {(d[1][1], d[1][2]): d[2][0] for d in ssa[4]}
        self.sigtype = {(d[1][1], d[1][2]): (d[2][1] if d[2][0] == "signal" else None) for d in ssa[4]}
        for v in ssa[3]:
            self.store[vkey(v)] = inputs(("param", v[1])) % prime

    # values of scalars are ints; arrays are dicts index-tuple -> int (default 0)
    def read_var(self, v):
        k = vkey(v)
        ty = self.types.get((v[1], v[2]))
        if self.free_signals and ty == "signal":
            return self.inputs(("signal", v[1], v[2], ())) % self.p
        if self.free_signals and ty in ("component", "anoncomponent"):
            return ("component", v[1], v[2])
        if k in self.store:
            return self.store[k]
        if ty == "signal":
            if self.sigtype.get((v[1], v[2])) == "input":
                self.store[k] = self.inputs(("signal", v[1])) % self.p
                return self.store[k]
            # an intermediate or output signal that no statement has assigned on this path: the witness holds 0 there (the compiler
            # does not reject the read when the assignment sits under a condition it cannot decide)
            return 0
        if ty in ("component", "anoncomponent"):
            raise Abort("component value")
        if ty == "local":
            # a version without a defining statement executed so far: Circom's default (0) for a
            # declared local; for arrays an empty (all-zero) array
            return 0
        raise Abort("undeclared variable " + v[1])

    def dep_eval(self, e):
        """the signals the value of `e` is built from, looking through local variables (a signal is an atom)"""
        out = set()

        def walk(x):
            if not isinstance(x, list) or not x:
                return
            if x[0] in ("var", "acc", "upd") and isinstance(x[2], list) and x[2] and x[2][0] == "v":
                v = x[2]
                ty = self.types.get((v[1], v[2]))
                if ty == "signal":
                    out.add(v[1])
                elif ty == "local" or ty is None:
                    out.update(self.deps.get(vkey(v), ()))
            if x[0] == "phi":
                return
            for y in x[1:]:
                if isinstance(y, list):
                    if y and isinstance(y[0], list):
                        for z in y:
                            walk(z)
                    else:
                        walk(y)
        walk(e)
        return frozenset(out)

    def note(self, e, val):
        m = e[1]
        self.node_values.setdefault((m[1], m[2], e[0]), set()).add(val)
        self.node_seq.setdefault((m[1], m[2], e[0]), []).append(val)
        return val

    def eval(self, e):
        tag = e[0]
        if tag == "num":
            return self.note(e, int(e[2]) % self.p)
        if tag == "var":
            v = self.read_var(e[2])
            if isinstance(v, dict):
                raise Abort("array used as a value")
            return self.note(e, v)
        if tag == "infix":
            a = self.eval(e[3])
            b = self.eval(e[4])
            return self.note(e, field_op(e[2], a, b, self.p))
        if tag == "prefix":
            return self.note(e, prefix_op(e[2], self.eval(e[3]), self.p))
        if tag == "switch":
            c = self.eval(e[2])
            self.decisions.append(("switch", e[1][1], c != 0))
            return self.note(e, self.eval(e[3]) if c != 0 else self.eval(e[4]))
        if tag == "acc":
            idx = []
            for a in e[3]:
                if a[0] == "idx":
                    idx.append(self.eval(a[1]))
                elif self.free_signals:
                    idx.append(str(a[1]))
                else:
                    raise Abort("component port read")
            if self.free_signals and self.types.get((e[2][1], e[2][2])) in ("signal", "component", "anoncomponent"):
                return self.note(e, self.inputs(("signal", e[2][1], e[2][2], tuple(idx))) % self.p)
            base = self.read_var(e[2])
            if isinstance(base, dict):
                return self.note(e, base.get(tuple(idx), 0))
            if base == 0:
                return self.note(e, 0)
            raise Abort("indexing a scalar")
        if tag == "call":
            raise Abort("function call")
        if tag == "arr":
            raise Abort("inline array")
        if tag == "upd":
            raise Abort("update outside a substitution")
        raise Abort("expression " + tag)

    def run(self):
        cur, prev = 0, None
        steps = 0
        blocks = self.ssa[5]
        while True:
            steps += 1
            if steps > self.max_steps:
                raise Abort("step budget")
            b = blocks[cur]
            nxt = None
            for si, st in enumerate(b[5]):
                body = st[1]
                kind = body[0]
                if kind == "decl":
                    if body[3][0] == "local":
                        # a (re-)executed declaration: the variable starts afresh (default 0)
                        for v in body[2]:
                            self.store.pop(vkey(v), None)
                            self.when.pop(vkey(v), None)
                    for d in body[4]:
                        self.trace.append(("dimension", body[2][0][1], self.eval(d)))
                elif kind == "sub":
                    var, op, rhe = body[2], body[3], body[4]
                    if rhe[0] == "phi":
                        # the argument defined on the path taken: the most recently assigned version
                        cands = [a for a in rhe[2] if vkey(a) in self.store]
                        if cands:
                            best = max(cands, key=lambda a: self.when.get(vkey(a), -1))
                            val = self.store[vkey(best)]
                            self.deps[vkey(var)] = self.deps.get(vkey(best), frozenset())
                        else:
                            val = 0
                        self.assign(var, val, steps, si, cur)
                        continue
                    if rhe[0] == "upd":
                        val = self.eval(rhe[4])
                        rhs_val = val
                        if (cur, si) in self.override:
                            val = self.override[(cur, si)] % self.p
                        idx = []
                        comp = False
                        for a in rhe[3]:
                            if a[0] == "idx":
                                idx.append(self.eval(a[1]))
                            else:
                                comp = True
                        if comp:
                            self.trace.append(("component-input", var[1], tuple(idx), val))
                            continue
                        base = self.store.get(vkey(rhe[2]))
                        arr = dict(base) if isinstance(base, dict) else {}
                        arr[tuple(idx)] = val
                        self.note(rhe, ("array",))
                        ty = self.types.get((var[1], var[2]))
                        if ty == "signal":
                            self.sig_assign(var, tuple(idx), val, op)
                            if op == "csig":
                                self.trace.append(("constraint", val, rhs_val, (cur, si)))
                            old = self.store.get(vkey(var))
                            arr2 = dict(old) if isinstance(old, dict) else {}
                            arr2[tuple(idx)] = val
                            self.store[vkey(var)] = arr2
                        else:
                            self.deps[vkey(var)] = self.deps.get(vkey(rhe[2]), frozenset()) | self.dep_eval(rhe[4]) | self.dep_eval(rhe[3])
                            self.assign(var, arr, steps, si, cur)
                        continue
                    val = self.eval(rhe)
                    rhs_val = val
                    ty = self.types.get((var[1], var[2]))
                    if ty == "signal":
                        if (cur, si) in self.override:
                            val = self.override[(cur, si)] % self.p
                        self.sig_assign(var, (), val, op)
                        if op == "csig":
                            self.trace.append(("constraint", val, rhs_val, (cur, si)))
                        self.store[vkey(var)] = val
                    elif ty in ("component", "anoncomponent"):
                        pass
                    else:
                        self.deps[vkey(var)] = self.dep_eval(rhe)
                        self.assign(var, val, steps, si, cur)
                elif kind == "if":
                    c = self.eval(body[2])
                    self.decisions.append(("branch", body[1][1], c != 0))
                    self.trace.append(("branch", body[1][1], c != 0))
                    if c != 0:
                        nxt = int(body[3])
                    elif body[4] != "-":
                        nxt = int(body[4])
                    else:
                        others = [int(x) for x in b[4] if int(x) != int(body[3])]
                        nxt = others[0] if others else "stop"
                elif kind == "ret":
                    self.trace.append(("return", self.eval(body[2])))
                    return
                elif kind == "ceq":
                    self.trace.append(("constraint", self.eval(body[2]), self.eval(body[3]), (cur, si), self.dep_eval(body[2]) | self.dep_eval(body[3])))
                elif kind == "assert":
                    v = self.eval(body[2])
                    self.trace.append(("assert", v != 0))
                    if v == 0:
                        raise Abort("invalid: assertion failed")
                elif kind == "log":
                    pass
            if nxt == "stop":
                return
            if nxt is None:
                succ = [int(x) for x in b[4]]
                if len(succ) != 1:
                    return
                nxt = succ[0]
            prev, cur = cur, nxt

    when = None

    def assign(self, var, val, step, si, blk):
        if self.when is None:
            self.when = {}
        if (blk, si) in self.override and not isinstance(val, dict):
            val = self.override[(blk, si)] % self.p
        self.store[vkey(var)] = val
        self.counter = getattr(self, "counter", 0) + 1
        self.when[vkey(var)] = self.counter

    def sig_assign(self, var, idx, val, op):
        done = getattr(self, "sig_done", None)
        if done is None:
            done = self.sig_done = set()
        if (var[1], var[2], idx) in done and not self.free_signals:
            raise Abort("invalid: signal assigned twice")
        done.add((var[1], var[2], idx))
        st = self.sigtype.get((var[1], var[2]))
        self.trace.append(("signal", st, var[1], idx, val, op))


def run(ssa, prime, inputs, max_steps=2000, override=None, free_signals=False):
    it = Interp(ssa, prime, inputs, max_steps, override, free_signals)
    it.when = {}
    try:
        it.run()
        return it, None
    except Abort as e:
        return it, str(e)
    except RecursionError:
        return it, "recursion"


# ------------------------------------------------------------------------------------------ degrees

def alg(op, a, b):
    if op in ("add", "sub"):
        # Circom's algebra: the sum of two quadratic expressions is not of the form a*b + c
        return 3 if (a == 2 and b == 2) else max(a, b)
    if op == "mul":
        return min(3, a + b)
    if op == "div":
        return a if b == 0 else 3
    return 0 if (a == 0 and b == 0) else 3


def alg_prefix(op, a):
    return a if op == "neg" else (0 if a == 0 else 3)


def degree_lfp(ssa):
    """least fixpoint of the algebra over the SSA CFG: var key -> degree; and a function giving the
    degree of any expression node under that fixpoint"""
    types = {(d[1][1], d[1][2]): d[2][0] for d in ssa[4]}
    is_fn = ssa[2] == "fn"
    env = {}
    for v in ssa[3]:
        env[vkey(v)] = 1 if is_fn else 0

    def var_deg(v):
        ty = types.get((v[1], v[2]))
        if ty in ("signal", "component", "anoncomponent"):
            return 1
        return env.get(vkey(v), 0)

    def ev(e):
        tag = e[0]
        if tag == "num":
            return 0
        if tag == "var":
            return var_deg(e[2])
        if tag == "infix":
            return alg(e[2], ev(e[3]), ev(e[4]))
        if tag == "prefix":
            return alg_prefix(e[2], ev(e[3]))
        if tag == "switch":
            return max(ev(e[3]), ev(e[4])) if ev(e[2]) == 0 else 3
        if tag == "call":
            return 0 if all(ev(a) == 0 for a in e[3]) else 3
        if tag == "arr":
            return max([ev(a) for a in e[2]] or [0])
        if tag == "acc":
            if any(a[0] == "idx" and ev(a[1]) > 0 for a in e[3]):
                return 3
            return var_deg(e[2])
        if tag == "upd":
            if any(a[0] == "idx" and ev(a[1]) > 0 for a in e[3]):
                return 3
            return max(var_deg(e[2]), ev(e[4]))
        if tag == "phi":
            return max([var_deg(a) for a in e[2]] or [0])
        return 3

    changed = True
    rounds = 0
    while changed and rounds < 200:
        changed = False
        rounds += 1
        for b in ssa[5]:
            for st in b[5]:
                body = st[1]
                if body[0] == "sub" and types.get((body[2][1], body[2][2])) == "local":
                    d = ev(body[4])
                    k = vkey(body[2])
                    if d > env.get(k, 0):
                        env[k] = d
                        changed = True
    return env, ev
