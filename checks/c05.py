"""C05 — comments are transparent. Theorems: Props/C05.lean (stripper = reference lexer for all
inputs; comments end where the property says; unclosed => error; blanking is idempotent).
Tie (i): the real `preprocess` (hook `verif`) against model and spec on all short strings over
a 7-letter alphabet plus random longer ones. Tie (ii): findings of generated programs are the
same with comments blanked and with comments of every shape spliced between tokens."""
import itertools
import json
import os
import re
import vlib
import gen

ALPHA = ["/", "*", "\n", "a", "\"", "é", " "]


def hexs(s):
    b = s.encode("utf-8")
    return b.hex() if b else "-"


def stripper_inputs(ctx):
    n = 6 if ctx.tier == "quick" else 8
    lines = []
    for k in range(0, n + 1):
        for tup in itertools.product(ALPHA, repeat=k):
            lines.append("".join(tup))
    n_exh = len(lines)
    rng = ctx.rng
    frag = ["/*", "*/", "//", "\n", "**", "/", "*", "var x = 1;", "é", "\"", " ", "a/b", "\r\n", "𝔸", "/**/", "*/*"]
    for _ in range(3000 if ctx.tier == "quick" else 40000):
        lines.append("".join(rng.choice(frag) for _ in range(rng.below(14) + 1)))
    return lines, n_exh


def blank_comments(text):
    """independent Python re-implementation of 'replace every comment by blanks' (oracle input)"""
    out = []
    i, n = 0, len(text)
    while i < n:
        if text.startswith("//", i):
            j = text.find("\n", i)
            j = n if j < 0 else j
            out.append(" " * len(text[i:j].encode("utf-8")))
            i = j
        elif text.startswith("/*", i):
            j = text.find("*/", i + 2)
            if j < 0:
                return None
            out.append(" " * len(text[i:j + 2].encode("utf-8")))
            i = j + 2
        else:
            out.append(text[i])
            i += 1
    return "".join(out)


def run(ctx):
    vlib.build_harness()
    ok, failing = vlib.theorem_gate(ctx, ["C05"])
    corpus = []
    cdir = os.path.join(vlib.VERIF, "corpus", "C05")
    if os.path.isdir(cdir):
        for fn in sorted(os.listdir(cdir)):
            if fn.endswith(".txt"):
                corpus.append(open(os.path.join(cdir, fn), encoding="utf-8").read())
    texts, n_exh = stripper_inputs(ctx)
    texts = corpus + texts
    reqs = [hexs(t) for t in texts]
    impl = vlib.run_harness("strip", reqs)
    model = vlib.run_model(["strip " + r for r in reqs])
    spec = vlib.run_model(["stripspec " + r for r in reqs])
    l1 = l2 = 0
    kinds = {"ok": 0, "err": 0}
    first_div = None
    for t, r, i, m, s in zip(texts, reqs, impl, model, spec):
        kinds[i.split()[0]] = kinds.get(i.split()[0], 0) + 1
        if i != s:
            l1 += 1
            ctx.violation("strip-spec", {"stage": "L1 reference lexer", "input_text": t, "input": "strip " + r,
                                         "implementation": i, "model": m, "spec": s, "broken": None,
                                         "how_to_rerun": "echo %s | harness/target/debug/vharness strip" % r})
        elif i != m:
            l2 += 1
            first_div = first_div or (t, r, i, m, s)
    if first_div and not l1:
        t, r, i, m, s = first_div
        ctx.violation("strip-correspondence", {"stage": "L2", "input_text": t, "input": "strip " + r, "implementation": i,
                                               "model": m, "spec": s,
                                               "broken": "correspondence Strip.preprocess <-> parser_logic::preprocess"},
                      no_input=True)
    # --- finding level ---------------------------------------------------------------------
    nprog = 40 if ctx.tier == "quick" else 400
    fl_fail = 0
    fl_cases = 0
    samples = []
    with vlib.Workdir("c05") as wd:
        reqs2 = []
        meta = []
        for k in range(nprog):
            toks, defs, stats = gen.project(ctx.rng, n_templates=2, n_functions=1)
            plain = gen.render(toks)
            commented = gen.render(toks, ctx.rng, gen.COMMENT_SHAPES)
            if k % 4 == 1:
                # a header comment in front of everything, and (every other time) no version pragma at all: the reports about the version
                # are findings too (seeded C05 m5: the place of the missing-pragma warning was computed on the text with its comments)
                if k % 8 == 1 and toks[:1] == ["pragma circom"]:
                    toks = toks[3:]
                    plain = gen.render(toks)
                    commented = gen.render(toks, ctx.rng, gen.COMMENT_SHAPES)
                commented = "/* licence\n * header é\n */\n// 𝔸 second header\n" + commented
            blanked = blank_comments(commented)
            files = {"plain": plain, "commented": commented, "blanked": blanked}
            for kind, text in files.items():
                p = wd.write("p%d/%s/main.circom" % (k, kind), text)
                reqs2.append({"inputs": [p], "libs": [], "curve": "BN254"})
                meta.append((k, kind, text))
        replies = vlib.analyze(reqs2)
        for k in range(nprog):
            trip = {meta[3 * k + j][1]: (meta[3 * k + j][2], replies[3 * k + j]) for j in range(3)}
            fl_cases += 1
            def findings(kind, with_pos):
                text, rep = trip[kind]
                if "crash" in rep:
                    return ("crash", rep["crash"][:80])
                res = []
                for r in vlib.reports_of(rep):
                    # the scratch directory of the variant is taken out of the messages that quote the path of the file
                    r = dict(r, message=re.sub(r"/var/tmp/verif-c05-[^/]+/p\d+/\w+/", "", r["message"] or ""))
                    src = text.encode("utf-8")
                    under = tuple(" ".join((blank_comments(src[l["start"]:l["end"]].decode("utf-8", "replace")) or "?").split())
                                  for l in r["primary"])
                    if with_pos:
                        res.append((r["id"], r["level"], r["message"], tuple((l["start"], l["end"]) for l in r["primary"])))
                    else:
                        res.append((r["id"], r["level"], r["message"], under))
                return sorted(res)
            a, b = findings("commented", True), findings("blanked", True)
            c, d = findings("commented", False), findings("plain", False)
            if a != b or c != d:
                fl_fail += 1
                ctx.violation("comment-changes-findings",
                              {"stage": "L1 findings with/without comments", "files": {k_: v[0] for k_, v in trip.items()},
                               "commented_vs_blanked_equal": a == b, "commented_vs_plain_equal": c == d,
                               "commented": c[:20], "plain": d[:20], "broken": None})
            elif len(samples) < 2:
                samples.append({"commented_source": trip["commented"][0][:400], "findings": [list(x) for x in c[:5]]})
    if not ok:
        ctx.violation("theorem " + ";".join(failing)[:200], {"broken": "theorem", "failing": failing}, no_input=True)
    cov = ctx.coverage
    cov["evaluations"] = len(texts) + 3 * nprog
    cov["distinct_nontrivial"] = len(set(texts)) + fl_cases
    cov["rule"] = ("stripper: every string of length <= %d over the alphabet %r (%d strings, exhaustive) plus random "
                   "concatenations of comment fragments, each compared with the Lean model and the Lean reference lexer; "
                   "findings: %d generated one-file projects, each analysed plain / with comments of %d shapes spliced "
                   "between tokens / with those comments blanked" % (6 if ctx.tier == "quick" else 8, ALPHA, n_exh, nprog, len(gen.COMMENT_SHAPES)))
    cov["exhaustive_short_strings"] = True
    cov["stripper_outcomes"] = kinds
    cov["l1_spec_failures"] = l1
    cov["l2_model_divergences"] = l2
    cov["finding_level_cases"] = fl_cases
    cov["finding_level_failures"] = fl_fail
    cov["samples"] = [{"text": t, "impl": i, "spec": s} for t, i, s in list(zip(texts, impl, spec))[5000:5004]] + samples
    ctx.assumptions += ["the LALRPOP lexer/parser downstream of the stripper is exercised (finding-level tie), not modelled",
                        "inputs are valid UTF-8 (the function takes &str); invalid UTF-8 is rejected earlier by read_to_string (C01/C02)"]


def replay(ctx, path):
    r = json.load(open(path))
    vlib.build_harness()
    req = r["input"].split(" ", 1)[1]
    i = vlib.run_harness("strip", [req])[0]
    s = vlib.run_model(["stripspec " + req])[0]
    print("impl:", i, "spec:", s)
    ctx.coverage["evaluations"] = 1
    if i != s:
        ctx.violation("strip-spec", {"input": r["input"], "implementation": i, "spec": s})
