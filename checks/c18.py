"""C18 — tuples and anonymous components are desugared completely and faithfully.
Theorems: Props/C18.lean on Model/Desugar.lean (no sugar survives a successful removal; the
function-side rejection is exactly `contains sugar or an assignment to a non-variable`; tuple
assignment = element-wise assignments in order skipping `_`; shape of the expansion of an
anonymous component).
Tie: generated files with sugar in every position of the property's list (valid and invalid forms),
run through the real parse_files (harness `desugar`):
 L2: for every definition, model(pre-desugar AST) == real post-desugar AST node for node (ranges
     included), or the model's error == the real report (message and range) and the definition is
     dropped; functions: kept/rejected with the same reports.
 L1 (no model): no Tuple/AnonymousComponent/MultiSubstitution node in any surviving definition; every
     dropped definition has an error located inside it; the whole pipeline never panics on these
     inputs; the findings of a sugared template equal those of its hand-written expansion."""
import collections
import json
import os
import re
import vlib

HELPERS = """template U() { signal input in; signal output out; out <== in; }
template V() { signal output o1; signal input b; signal input a; signal output o2; o1 <== a; o2 <== b * a; }
template Z() { signal input in; in === 0; }
template W() { signal input in; signal output row[2]; row[0] <== in; row[1] <== in + 1; }
template P(n) { signal input in; signal output out; out <== in * n; }
function g(x) { return x + 1; }
"""
SIGS = {"U": (["in"], ["out"]), "V": (["b", "a"], ["o1", "o2"]), "Z": (["in"], []), "P": (["in"], ["out"])}


class G:
    """generator of one template (sugared text + hand-written expansion) or one function"""

    def __init__(self, rng, k):
        self.rng = rng
        self.k = k
        self.nsig = 0
        self.ncomp = 0
        self.decls = []       # extra declarations for both versions
        self.hand_decls = []  # component declarations of the expansion

    def simple(self):
        return self.rng.choice(["a", "b", "a + b", "a * 2", "1", "b * b", "a - 1"])

    def fresh(self):
        self.nsig += 1
        n = "s%d" % self.nsig
        self.decls.append("signal output %s;" % n)
        return n

    def anon(self, depth, want_outputs=None, loop=None):
        """returns (sugared expression text, hand pre-statements, [hand output expressions])"""
        rng = self.rng
        names = [n for n, (i, o) in SIGS.items() if want_outputs is None or len(o) == want_outputs]
        t = rng.choice(names)
        ins, outs = SIGS[t]
        params = "(3)" if t == "P" else "()"
        par = rng.chance(1, 6)
        self.ncomp += 1
        c = "hc%d" % self.ncomp
        idx = "[%s]" % loop if loop else ""
        self.hand_decls.append("component %s%s;" % (c, "[2]" if loop else ""))
        pre = ["%s%s = %s%s%s;" % (c, idx, "parallel " if par else "", t, params)]
        args = []
        for inp in ins:
            if depth > 0 and rng.chance(1, 4):
                e, p2, o2 = self.anon(depth - 1, want_outputs=1, loop=loop)
                pre_in, val = p2, o2[0]
            else:
                e = self.simple()
                pre_in, val = [], e
            args.append((inp, e, pre_in, val))
        named = rng.chance(1, 2) and ins
        if named:
            order = rng.shuffle(list(range(len(args))))
            ops = [rng.choice(["<==", "<--"]) for _ in args]
            text = ", ".join("%s %s %s" % (args[i][0], ops[i], args[i][1]) for i in order)
            for i, (inp, e, pre_in, val) in enumerate(args):      # declaration order
                pre += pre_in + ["%s%s.%s %s %s;" % (c, idx, inp, ops[i], val)]
        else:
            text = ", ".join(a[1] for a in args)
            for inp, e, pre_in, val in args:
                pre += pre_in + ["%s%s.%s <== %s;" % (c, idx, inp, val)]
        sug = "%s%s%s(%s)" % ("parallel " if par else "", t, params, text)
        return sug, pre, ["%s%s.%s" % (c, idx, o) for o in outs]

    def valid_stmt(self, loop=None):
        """(sugared statement, hand statements)"""
        rng = self.rng
        r = rng.below(10)
        if r == 0:   # flat / nested tuple assignment
            n = rng.below(3) + 2
            lhs, rhs, hand = [], [], []
            for i in range(n):
                under = rng.chance(1, 4)
                e = self.simple()
                l = "_" if under else self.fresh()
                lhs.append(l)
                rhs.append(e)
                if not under:
                    hand.append("%s <== %s;" % (l, e))
            def nest(xs):
                if len(xs) >= 3 and rng.chance(1, 2):
                    return "(%s, (%s))" % (xs[0], ", ".join(xs[1:]))
                return "(%s)" % ", ".join(xs)
            if rng.chance(1, 4):
                return "%s ==> %s;" % (nest(rhs), nest(lhs)), hand
            return "%s <== %s;" % (nest(lhs), nest(rhs)), hand
        if r == 1:   # multi-output component into a tuple
            sug, pre, outs = self.anon(1, want_outputs=2, loop=loop)
            l1 = "_" if rng.chance(1, 4) else self.fresh()
            l2 = self.fresh()
            hand = pre + ["%s <== %s;" % (l, o) for l, o in zip([l1, l2], outs) if l != "_"]
            return "(%s, %s) <== %s;" % (l1, l2, sug), hand
        if r in (2, 3):   # single output
            sug, pre, outs = self.anon(1, want_outputs=1, loop=loop)
            l = self.fresh()
            op = rng.choice(["<==", "<--"])
            return "%s %s %s;" % (l, op, sug), pre + ["%s %s %s;" % (l, op, outs[0])]
        if r == 4:   # ignored output
            sug, pre, outs = self.anon(0, want_outputs=1, loop=loop)
            return "_ <== %s;" % sug, pre
        if r == 5:   # no outputs: statement form
            sug, pre, outs = self.anon(0, want_outputs=0, loop=loop)
            return "%s;" % sug, pre
        if r == 6:   # tuple of components
            s1, p1, o1 = self.anon(0, want_outputs=1, loop=loop)
            s2, p2, o2 = self.anon(0, want_outputs=1, loop=loop)
            l1, l2 = self.fresh(), self.fresh()
            return "(%s, %s) <== (%s, %s);" % (l1, l2, s1, s2), p1 + p2 + ["%s <== %s;" % (l1, o1[0]), "%s <== %s;" % (l2, o2[0])]
        if r == 7:   # declarations with a tuple initialiser
            self.nsig += 2
            p, q = "s%d" % (self.nsig - 1), "s%d" % self.nsig
            if rng.chance(1, 2):
                sug, pre, outs = self.anon(0, want_outputs=2, loop=loop)
                return "signal (%s, %s) <== %s;" % (p, q, sug), ["signal %s;" % p, "signal %s;" % q] + pre + ["%s <== %s;" % (p, outs[0]), "%s <== %s;" % (q, outs[1])]
            return "var (%s, %s) = (1, a);" % (p, q), ["var %s;" % p, "var %s;" % q, "%s = 1;" % p, "%s = a;" % q]
        if r == 8:   # log with tuples
            return 'log((a, b), "x", (a, (b, 1)));', ['log("(", a, b, ")", "x", "(", a, "(", b, 1, ")", ")");']
        sug, pre, outs = self.anon(0, want_outputs=1, loop=loop)
        l = self.fresh()
        return "if (a == 1) { %s <== %s; }" % (l, sug), ["if (a == 1) { %s %s <== %s; }" % (" ".join(pre), l, outs[0])]

    def invalid_stmt(self):
        rng = self.rng
        sugar = rng.choice(["(a, b)", "U()(a)", "V()(a, b)", "Z()(a)", "(a, U()(b))", "(a, b + (a, b))", "(a, (b, -(a, b)))", "(a, o[(0, 1)])",
                             # sugar below the top of an expression: inside arithmetic, an inline array, a call, a ternary, an index
                             "U()(a) + 1", "[a, U()(b)]", "g(U()(a))", "(a == 1 ? U()(a) : b)", "-U()(b)", "o[U()(a)]", "2 * (a, b)", "g((a, b))",
                             "P(U()(a) + 1)(b)", "P([a, U()(b)])(a)"])
        forms = ["if (%s == 1) { }", "while (%s) { }", "assert(%s);", "log(1 + %s);", "log(%s);", "return %s;", "var x[%s];",
                 "sx <== o[%s];", "o[%s] <== a;", "sx <== g(%s);", "sx <== a ? %s : b;", "sx <== a + %s;", "sx <== -%s;",
                 "var arr[2] = [%s, 1];", "%s === a;", "sx <== parallel (%s);", "sx <== P(%s)(a);", "sx <== U()(a + %s);",
                 "(sx, g(1)) <== (a, %s);", "(sx, sy) <== (a, b, %s);", "sx <== (a, %s);", "1 + 2 <== %s;", "sx <== W(%s);",
                 "%s <== a;", "(sx, %s) <== (a, b);", "sx <== P(1)(%s);", "sx <== parallel P(%s)(a);", "sx <== U()(P(%s)(a));", "_ <== P(%s)(b);", "for (var i = 0; i < %s; i++) { }", "var arr[1] = [%s]; sx <== arr[0];"]
        extra = ["sx <== Nope()(a);", "sx <== V()(a);", "(sx, sy) <== V()(a <== a);", "(sx, sy) <== V()(a <== a, b <== b, a <== b);",
                 "(sx, sy) <== V()(a <== a, c <== b);", "sx <== V()(a, b);", "(sx, sy) <== U()(a);", "U()(a);", "sx <== U()(a, b);", "sx <== U()();"]
        if rng.chance(1, 4):
            return rng.choice(extra)
        return rng.choice(forms) % sugar

    def template(self):
        rng = self.rng
        name = "T%d" % self.k
        sug, hand = [], []
        nvalid = rng.below(4)
        for _ in range(nvalid):
            if rng.chance(1, 5):
                s, h = self.valid_stmt(loop="i")
                sug.append("for (var i = 0; i < 2; i++) { %s }" % s)
                hand.append("for (var i = 0; i < 2; i++) { %s }" % " ".join(h))
            else:
                s, h = self.valid_stmt()
                sug.append(s)
                hand += h
        invalid = rng.chance(1, 2)
        if invalid:
            pos = rng.below(len(sug) + 1)
            st = self.invalid_stmt()
            w = rng.below(8)
            if not st.startswith(("var ", "return", "for (")):
                if w == 0:
                    st = "if (a == 1) { %s } else { var q0 = 1; }" % st
                elif w == 1:
                    st = "if (a == 1) { var q1 = 1; } else { %s }" % st
                elif w == 2:
                    st = "for (var j = 0; j < 2; j++) { %s }" % st
                elif w == 3:
                    st = "{ { %s } }" % st
            sug.insert(pos, st)
        head = "signal input a; signal input b; signal output o[4]; signal output sx; signal output sy; "
        text = "template %s() { %s%s %s }" % (name, head, " ".join(self.decls), " ".join(sug))
        htext = "template %s() { %s%s %s %s }" % (name, head, " ".join(self.decls), " ".join(self.hand_decls), " ".join(hand))
        return name, text, (None if invalid else htext)

    def function(self):
        rng = self.rng
        name = "f%d" % self.k
        body = ["var y = x + 1;"]
        opts = ["var (p, q) = (1, 2);", "var z = U()(x);", "var p; var q; (p, q) = (1, 2);", "1 + 2 = 3;", "g(x);", "assert((x, x));", "log((x, x));",
                "if ((x, x)) { }", "var w[(1, 2)];", "var w[2]; w[(0, 1)] = 1;", "if (x) { g(x) = 2; } else { y = 2; }", "while (x) { x + 1 = 2; }",
                "y = g((1, 2));", "y = x ? U()(x) : 1;", "assert(U()(x));", "log(V()(x, x));", "var w[2]; w[U()(x)] = 1;", "y = g(x);", "y += 2;",
                # in the condition of a loop, in the parts of a `for`, in an `else if` (a mechanical mutant of the walk over `while` survived)
                "while ((x, x)) { y = 1; }", "while (U()(x)) { y = 1; }", "for (var i = 0; i < (1, 2); i++) { y = 1; }", "for (var i = U()(x); i < 2; i++) { y = 1; }",
                "for (var i = 0; i < 2; i += (1, 2)) { y = 1; }", "if (U()(x)) { y = 1; }", "if (x) { y = 1; } else if ((x, x)) { y = 2; }",
                "while (x) { if ((x, x)) { y = 1; } x = 0; }", "y = -(x, x);", "y = (x, x) + 1;", "y = x ? (1, 2) : 1;", "y = (x, x) ? 1 : 2;", "var w[2] = [(1, 2), 3];"]
        for _ in range(rng.below(3)):
            st = rng.choice(opts)
            w = rng.below(8)
            # the same statement inside nested control flow (then / else / loop / block), next to clean siblings
            if w == 0:
                st = "if (x) { %s } else { y = 1; }" % st
            elif w == 1:
                st = "if (x) { y = 1; } else { %s }" % st
            elif w == 2:
                st = "while (x) { %s }" % st
            elif w == 3:
                st = "{ y = 3; { %s } }" % st
            body.append(st)
        ret = rng.choice(["return y;", "return (y, y);", "return U()(y);", "return y + 1;", "return y;"])
        return name, "function %s(x) { %s %s }" % (name, " ".join(body), ret), None


HAND = [
    "template H0() { signal input a; assert((a,a)); }",
    "template H1() { signal input a; assert(U()(a)); }",
    "template H2() { signal input a; log(1 + (a,a)); }",
    "template H3() { signal input a; signal output x[2]; x[U()(a)] <== 1; }",
    "function h4() { 1 + 2 = 3; return 1; }",
    "template H5() { signal input a; signal output o[2]; for (var i = 0; i < 2; i++) { o[i] <== U()(a); } }",
    "template H6() { signal input a; signal output o; o <== U()(in <-- a * a * a); }",
    "template H7() { signal input a; signal output o; signal output p; (o, p) <== V()(b <== a, a <-- a + 1); }",
    "template H8() { signal input a; signal output o; signal output p; signal output q; ((o, p), q) <== (a, (a, a)); }",
    "template H9() { signal input a; signal output o; o <== U()(U()(U()(a))); }",
    "template H10() { signal input a; signal output o[2][2]; for (var i = 0; i < 2; i++) { for (var j = 0; j < 2; j++) { o[i][j] <== U()(a); } } }",
    "template H11() { signal input a; signal output o; o <== parallel U()(a); }",
    "template H12() { signal input a; signal output o; var k = 0; while (k < 2) { if (k == 1) { o <== U()(a); } k++; } }",
    "function h13(x) { if (x) { return (x, x); } return 1; }",
    "template H15() { signal input a; signal input b; log(\"values\", (a, b + (a, b))); }",
    "template H16() { signal input a; signal input b; log((a, (b, -(a, b)))); }",
    "template H17() { signal input a; signal output o; signal output p; (o, p) <== (a, a + (a, a)); }",
    "function h18(x) { var r = 0; if (x) { r = U()(x); } else { r = 2; } return r; }",
    "function h19(x) { var r = 0; if (x) { r = 2; } else { r = (x, 1); } return r; }",
    "function h20(x) { var r = 0; while (x) { if (x) { r = (x, 1); } else { r = 1; } } return r; }",
    "template H21() { signal input a; signal output o; if (a == 1) { assert((a, a)); } else { o <== a; } }",
    "template H14() { signal input a; Z()(a); _ <== V()(a, a); (_, _) <== V()(a, a); }",
    # named inputs written in another order than the template declares them, with different operators (seeded C18 m3)
    "template H22() { signal input a; signal output o; signal output p; (o, p) <== V()(a <-- a + 1, b <== a); }",
    "template H23() { signal input a; signal output o; signal output p; (o, p) <== V()(a <== a, b <-- a * a * a); }",
    # tuples nested three levels deep, literally and through an anonymous component with two outputs (seeded C18 m4)
    "template H24() { signal input a; signal output o; signal output p; signal output q; ((o, (_, p)), q) <-- ((a, (a, a * a)), a); }",
    "template H25() { signal input a; signal output o; signal output p; signal output q; ((o, p, _), q) <== ((a, V()(a, a)), a); }",
    "template H26() { signal input a; signal output o; signal output p; signal output q; (o, p, q) <== ((a, (a, a)), a); }",
    # an array index that follows a component access (seeded C18 m7: the walk over the accesses stopped at the first component access)
    "template H27() { signal input a; signal output o; component t = W(); t.in <== a; o <== t.row[U()(a)]; }",
    "template H28() { signal input a; signal output o; component t = W(); t.in <== a; o <== t.row[(0, 1)]; }",
    "function h29(x) { var t[2][2]; var r = t[0][(0, 1)]; return r; }",
    "template H30() { signal input a; signal output o; component t[2]; t[0] = W(); t[0].in <== a; o <== t[0].row[1 + U()(a)]; }",
]

# (sugared, hand-written expansion): the findings must coincide (component names normalised)
HAND_PAIRS = [
    ("template HP0() { signal input x; signal input y; signal output u; signal output v; (u, v) <== V()(a <-- x * x * x, b <== y); }",
     "template HP0() { signal input x; signal input y; signal output u; signal output v; component hc1; hc1 = V(); hc1.b <== y; hc1.a <-- x * x * x; u <== hc1.o1; v <== hc1.o2; }"),
    ("template HP1() { signal input x; signal input y; signal output u; signal output v; (u, v) <== V()(a <== y, b <-- x * x * x); }",
     "template HP1() { signal input x; signal input y; signal output u; signal output v; component hc1; hc1 = V(); hc1.b <-- x * x * x; hc1.a <== y; u <== hc1.o1; v <== hc1.o2; }"),
    ("template HP2() { signal input x; signal input y; signal input z; signal output u; signal output v; signal output w; ((u, v, _), w) <== ((x, V()(y, z)), z); }",
     "template HP2() { signal input x; signal input y; signal input z; signal output u; signal output v; signal output w; component hc1; hc1 = V(); hc1.b <== y; hc1.a <== z; u <== x; v <== hc1.o1; w <== z; }"),
    ("template HP3() { signal input x; signal input y; signal input z; signal output s; signal output t; ((s, (_, t)), _) <-- ((x, (y, z * z)), z); }",
     "template HP3() { signal input x; signal input y; signal input z; signal output s; signal output t; s <-- x; t <-- z * z; }"),
]


def add_labels(node, text):
    if isinstance(node, list):
        out = [add_labels(x, text) for x in node]
        if node and node[0] in ("anon", "while") and isinstance(node[1], list) and node[1] and node[1][0] == "m":
            start = int(node[1][1])
            out.insert(2, "%d_%d" % (text[:start].count("\n") + 1, start))
        return out
    return node


def has_sugar(node):
    if isinstance(node, list):
        if node and node[0] in ("tuple", "anon", "msub"):
            return node[0]
        for x in node:
            r = has_sugar(x)
            if r:
                return r
    return None


def norm_findings(reply, names):
    out = []
    for e in reply.get("events", []):
        if "report" in e:
            r = e["report"]
            msg = re.sub(r"\b(?:[UVZPW][_@#]\d+_\d+|hc\d+)\b", "COMP", r["message"])
            msg = re.sub(r"\[(?:i|anon_var[_@]\d+_\d+)\]", "[IDX]", msg)
            out.append((r["id"], msg))
    return sorted(out)


def run(ctx):
    vlib.build_harness()
    ok, failing = vlib.theorem_gate(ctx, ["C18"])
    nfiles = 40 if ctx.tier == "quick" else 500
    per_file = 8
    stats = collections.Counter()
    samples = []
    l1 = l2 = 0
    with vlib.Workdir("c18") as wd:
        reqs, metas = [], []
        for fidx in range(nfiles + 1):
            defs = []
            if fidx == 0:
                for h in HAND:
                    nm = re.search(r"(?:template|function)\s+(\w+)", h).group(1)
                    defs.append((nm, h, None))
                for sug, hand in HAND_PAIRS:
                    nm = re.search(r"(?:template|function)\s+(\w+)", sug).group(1)
                    defs.append((nm, sug, hand))
            else:
                for j in range(per_file):
                    g = G(ctx.rng, fidx * 100 + j)
                    defs.append(g.function() if ctx.rng.chance(1, 4) else g.template())
            text = "pragma circom 2.0.0;\n" + HELPERS
            spans = []
            for nm, src, hand in defs:
                a = len(text)
                text += src + "\n"
                spans.append({"name": nm, "start": a, "end": a + len(src)})
            p = wd.write("f%d/main.circom" % fidx, text)
            reqs.append(json.dumps({"input": p, "defs": spans}))
            metas.append((text, defs, spans, p))
        replies = vlib.run_harness_robust("desugar", reqs)
        mreqs, mkeys = [], []
        for fidx, (rep, (text, defs, spans, p)) in enumerate(zip(replies, metas)):
            try:
                r = json.loads(rep)
            except Exception:
                r = {"crash": rep[:300]}
            metas[fidx] = (text, defs, spans, p, r)
            if "crash" in r or "pre" not in r:
                l1 += 1
                ctx.violation("desugar-panic " + re.sub(r"[\d/]+", "", str(r.get("crash", rep))[:60]),
                              {"stage": "L1 no panic", "file": text, "observed": str(r)[:400], "broken": None})
                continue
            tbl = ["tbl"] + [[n, s["inputs"], s["outputs"]] for n, s in sorted(r["sigs"].items())]
            for nm, src, hand in defs:
                pre = r["pre"].get(nm)
                if not isinstance(pre, list):
                    stats["definitions that do not parse (skipped)"] += 1
                    continue
                kind = "fn" if pre[1] == "fn" else "tmpl"
                body = add_labels(pre[5], text)
                mreqs.append("desugar " + vlib.sexp(["req", kind, tbl, body]))
                mkeys.append((fidx, nm, kind))
        mout = vlib.run_model(mreqs)
        model = {k: v for k, v in zip(mkeys, mout)}
        l2_pending = {}
        for fidx, meta in enumerate(metas):
            if len(meta) < 5:
                continue
            text, defs, spans, p, r = meta
            if "pre" not in r:
                continue
            if any(rp["id"].startswith("P") for rp in r["reports"]):
                # the generated file as a whole does not parse (nothing was desugared): not an observation about desugaring
                stats["files that do not parse (skipped)"] += 1
                continue
            real_reports = collections.Counter()
            for rp in r["reports"]:
                if rp["id"] in ("TAC01", "TAC02"):
                    l = rp["primary"][0] if rp["primary"] else {"start": -1, "end": -1}
                    real_reports[(rp["message"], l["start"], l["end"])] += 1
            model_reports = collections.Counter()
            for (nm, src, hand), sp in zip(defs, spans):
                key = (fidx, nm, "fn" if src.startswith("function") else "tmpl")
                if key not in model:
                    continue
                stats["definitions"] += 1
                m = model[key]
                kind = key[2]
                survived = nm in (r["functions"] if kind == "fn" else r["post"])
                post = (r["functions"] if kind == "fn" else r["post"]).get(nm)
                rpl = {"source": src, "definition": nm, "broken": None}
                # ---- L1 ---------------------------------------------------------------------------
                if survived:
                    s = has_sugar(post)
                    if s:
                        l1 += 1
                        ctx.violation("sugar-survives " + s, dict(rpl, stage="L1 no tuple/anonymous component/multi-substitution after desugaring", node=s))
                        continue
                else:
                    inside = [rp for rp in r["reports"] if rp["level"] == "error" and rp["primary"] and sp["start"] <= rp["primary"][0]["start"] < sp["end"]]
                    if not inside:
                        l1 += 1
                        ctx.violation("dropped-silently", dict(rpl, stage="L1 a dropped definition has an error located inside it"))
                        continue
                # ---- L2 ---------------------------------------------------------------------------
                if kind == "tmpl":
                    if m.startswith("ok "):
                        stats["templates desugared"] += 1
                        if not survived or m[3:] != vlib.sexp(post):
                            l2 += 1
                            l2_pending[(fidx, nm)] = dict(rpl, stage="L2", model=m[:1500], implementation=(vlib.sexp(post) if survived else "dropped")[:1500],
                                                          broken="correspondence Desugar.desugarTemplate <-> remove_syntactic_sugar")
                            continue
                    elif m.startswith("err "):
                        stats["templates rejected"] += 1
                        _, a, b, hx = m.split(" ", 3)
                        msg = bytes.fromhex(hx).decode()
                        stats["error: " + msg[:60]] += 1
                        model_reports[(msg, int(a), int(b))] += 1
                        if survived:
                            l2 += 1
                            ctx.violation("desugar-correspondence", dict(rpl, stage="L2", model="rejected: " + msg, implementation="kept",
                                                                         broken="correspondence Desugar.desugarTemplate <-> remove_syntactic_sugar"), no_input=True)
                            continue
                    else:
                        ctx.violation("desugar-model-bad-reply", dict(rpl, stage="L2", model=m[:200], broken="driver"), no_input=True)
                        continue
                else:
                    if m == "kept":
                        stats["functions kept"] += 1
                        if not survived:
                            l2 += 1
                            ctx.violation("desugar-correspondence", dict(rpl, stage="L2", model="kept", implementation="rejected", broken="correspondence functionReports"), no_input=True)
                            continue
                    else:
                        stats["functions rejected"] += 1
                        for tok in m.split()[1:]:
                            rng_, hx = tok.split(":")
                            a, b = rng_.split("-")
                            model_reports[(bytes.fromhex(hx).decode(), int(a), int(b))] += 1
                        if survived:
                            l2 += 1
                            ctx.violation("desugar-correspondence", dict(rpl, stage="L2", model=m[:300], implementation="kept", broken="correspondence functionReports"), no_input=True)
                            continue
            if model_reports != real_reports:
                l2 += 1
                ctx.violation("desugar-reports-correspondence", {"stage": "L2 error reports (message, range)", "file": text,
                                                                 "only_model": [list(k) for k in (model_reports - real_reports)][:5],
                                                                 "only_implementation": [list(k) for k in (real_reports - model_reports)][:5],
                                                                 "broken": "correspondence of the desugaring error reports"}, no_input=True)
        # ---- L1: whole pipeline on every file (no panic) and sugared vs hand-written findings ---------
        areqs, akeys = [], []
        for fidx, meta in enumerate(metas):
            text, defs, spans, p = meta[:4]
            areqs.append({"inputs": [p], "libs": [], "curve": "BN254"})
            akeys.append(("file", fidx, None))
        npairs = 0
        for fidx, meta in enumerate(metas):
            text, defs, spans, p = meta[:4]
            for nm, src, hand in defs:
                if hand is None or (ctx.tier == "quick" and npairs >= 120 and (fidx, nm) not in l2_pending):
                    continue
                npairs += 1
                for tag, body in (("sugar", src), ("hand", hand)):
                    q = wd.write("pair%d_%s/%s.circom" % (fidx, nm, tag), "pragma circom 2.0.0;\n" + HELPERS + body + "\n")
                    areqs.append({"inputs": [q], "libs": [], "curve": "BN254"})
                    akeys.append((tag, fidx, nm))
        areplies = vlib.analyze(areqs)
        pairs = collections.defaultdict(dict)
        for key, rep in zip(akeys, areplies):
            if "crash" in rep:
                l1 += 1
                tag, fidx, nm = key
                src = metas[fidx][0] if tag == "file" else [d for d in metas[fidx][1] if d[0] == nm][0][1 if tag == "sugar" else 2]
                ctx.violation("pipeline-panic " + re.sub(r"[\d/]+", "", rep["crash"][:60]), {"stage": "L1 no panic in the whole pipeline", "source": src, "observed": rep["crash"][:300], "broken": None})
                continue
            stats["pipeline runs"] += 1
            if key[0] != "file":
                pairs[(key[1], key[2])][key[0]] = rep
        for (fidx, nm), d in pairs.items():
            if "sugar" not in d or "hand" not in d:
                continue
            stats["sugared/hand-written pairs"] += 1
            fs, fh = norm_findings(d["sugar"], None), norm_findings(d["hand"], None)
            if fs != fh:
                src, hand = [(x[1], x[2]) for x in metas[fidx][1] if x[0] == nm][0]
                l1 += 1
                only_s = collections.Counter(fs) - collections.Counter(fh)
                only_h = collections.Counter(fh) - collections.Counter(fs)
                counter_artefact = (not only_h and "for (" in src and all(
                    (i == "CS0004") or (i == "CS0008" and re.search(r"`anon_var[_@]\d+_\d+`", m)) for (i, m) in only_s))
                sig = ("loop-counter-artefact: extra CS0004/CS0008 for the generated anon_var of an anonymous component inside a loop"
                       if counter_artefact else "expansion-findings-differ " + str(sorted(set(fs) ^ set(fh))[:1])[:60])
                l2_pending.pop((fidx, nm), None)
                ctx.violation(sig,
                              {"stage": "L1 findings of the sugared template = findings of its hand-written expansion", "sugared": src, "hand_written": hand,
                               "only_sugared": [list(x) for x in (collections.Counter(fs) - collections.Counter(fh))][:6],
                               "only_hand_written": [list(x) for x in (collections.Counter(fh) - collections.Counter(fs))][:6], "broken": None})
            elif len(samples) < 3 and fs:
                samples.append({"sugared": [x[1] for x in metas[fidx][1] if x[0] == nm][0][:300], "findings": fs[:4]})
    for payload in l2_pending.values():
        ctx.violation("desugar-correspondence", payload, no_input=True)
    if not ok:
        ctx.violation("theorem " + ";".join(failing)[:200], {"broken": "theorem", "failing": failing}, no_input=True)
    cov = ctx.coverage
    cov["evaluations"] = stats["definitions"] + stats["pipeline runs"]
    cov["distinct_nontrivial"] = stats["definitions"]
    cov["rule"] = ("%d hand-written definitions (the positions the remover used to forget, loops, nesting, named inputs, parallel) + %d files x %d "
                   "generated definitions: templates with 0-3 valid sugar statements (10 forms, nested components, named/positional inputs in any order, "
                   "in loops and branches) and, in half of them, one invalid statement (28 position forms x 8 sugar kinds + 10 arity/name errors); functions "
                   "with 19 statement forms; a case = one definition through parse_files (L2, L1 walk) or one file/pair through the whole pipeline (L1)"
                   % (len(HAND), nfiles, per_file))
    cov["distribution"] = dict(stats)
    cov["l1_failures"] = l1
    cov["l2_divergences"] = l2
    cov["samples"] = samples or [{"note": "none"}]


def replay(ctx, path):
    r = json.load(open(path))
    print(json.dumps(r, indent=1)[:3000])
    ctx.coverage["evaluations"] = 1
