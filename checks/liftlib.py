"""Shared by the checks that work on single definitions (C12, C13, C10, C14, C06, C07, C20...):
generation of definitions and the `lift` observation (AST, pre-SSA CFG, SSA CFG)."""
import json
import gen
import vlib


def gen_definitions(rng, n, shadow_every=3, max_depth=3, max_stmts=8):
    out = []
    for k in range(n):
        g = gen.Gen(rng, shadow=(shadow_every and k % shadow_every == 0), max_depth=max_depth, max_stmts=max_stmts)
        g.funcs = [("ext", 2)] if k % 4 == 0 else []
        if k % 2 == 0:
            toks, _ = g.function("f%d" % k)
        else:
            toks, _, _, _ = g.template("T%d" % k)
        out.append((gen.render(toks), dict(g.stats)))
    return out


HAND = [
    "function f(n) { return n; }",
    "function f(n) { if (n) { return 1; } return 2; }",
    "function f(n) { if (n) return 1; else return 2; }",
    "function f(n) { while (n < 3) n++; return n; }",
    "function f(n) { while (n < 3) { } return n; }",
    "function f(n) { while (n < 3) { if (n == 1) { n = 5; } } return n; }",
    "function f(n) { while (n < 3) { if (n == 1) { n = 5; } else { n = 6; } } return n; }",
    "function f(n) { while (n < 3) while (n < 2) n++; return n; }",
    "function f(n) { if (n) if (n == 2) n = 3; else n = 4; return n; }",
    "function f(n) { { { n = 1; } } { } return n; }",
    "function f(n) { for (var i = 0; i < n; i++) { for (var j = 0; j < i; j++) { n += j; } } return n; }",
    "function f(n) { if (n) { } else { } return n; }",
    "function f(n) { if (n) { while (n < 3) { n++; } } else { while (n < 4) { n++; } } return n; }",
    "function f(n) { while (n < 3) { n++; if (n == 2) { n = 7; } } while (n < 9) { n++; } return n; }",
    "function f(n) { var x; x = 1; if (n) { x = 2; } else { if (n == 3) { x = 3; } } return x; }",
    "template T(n) { signal input a; signal output b; var s = 0; for (var i = 0; i < n; i++) { s += a; } b <== s; }",
    "template T(n) { signal input a; signal output b; if (n == 1) { b <== a; } else { b <== a * a; } }",
    # declarations with several symbols (one initialization block: declarations and substitutions interleaved in source order)
    "function f(n) { var a = n + 1, b = a * 2; return b; }",
    "function f(n) { var a = 1, b, c = a + n; b = c; return b; }",
    "function f(n) { for (var i = 0, j = 1; i < n; i++) { n += j; } return n; }",
    "template T(n) { signal input x; signal output s <== x, t <== x * x; }",
    "template T(n) { signal input x; signal output o; component c = U(), d = U(); c.a <== x; d.a <== c.b; o <== d.b; }",
    # an else branch that itself ends in control flow, with code after the join
    "function f(a, b) { var r = 0; if (a == 1) { r = 1; } else if (b == 1) { r = 2; } r += 10; return r; }",
    "function f(a, b) { var r = 0; while (a < 3) { if (a == 1) { r = 1; } else { while (b < 2) { b++; } } a++; } return r; }",
]


def observe(srcs, curve="BN254"):
    reqs = [json.dumps({"src": s, "curve": curve}) for s in srcs]
    out = []
    for rep in vlib.run_harness_robust("lift", reqs):
        if rep.startswith("{"):
            out.append(json.loads(rep))
        else:
            out.append({"crash": rep})
    return out


def stmt_key(m, kind, name):
    """the Lean driver's `stmtKey`: the source range refined by the statement kind and the declared / assigned name"""
    tag = 0 if kind == 0 else sum(ord(c) for c in name) % 1000
    return "%s-%d" % (m[1], int(m[2]) * 10000 + kind * 1000 + tag)


def canon_blocks(cfg):
    """the same canonical string as the Lean driver's `showBlocks`, from the real CFG dump"""
    parts = []
    for b in cfg[5]:
        sts = []
        for st in b[5]:
            body = st[1]
            m = body[1]
            if body[0] == "if":
                sts.append("i%s:%s:%s" % (stmt_key(m, 0, ""), body[3], body[4]))
            elif body[0] == "decl" and body[2]:
                sts.append("s" + stmt_key(m, 1, body[2][0][1]))
            elif body[0] == "sub":
                sts.append("s" + stmt_key(m, 2, body[2][1]))
            else:
                sts.append("s" + stmt_key(m, 0, ""))
        parts.append("%s;%s;%s;%s" % (b[2], ",".join(b[3]) or "-", ",".join(b[4]) or "-", ",".join(sts)))
    return "|".join(parts)
