"""C08 — every `<--` signal assignment is reported exactly once. Theorems: Props/C08.lean (bijection
between `<--` statements and reports, kinds, secondaries, nothing for functions/custom templates).
Tie: findings CS0005/CS0013 of the real pipeline on generated templates (scalars, array elements in
loops, component ports, branches) and hand-written tuple / anonymous-component forms, against
(L1) an independent count on the source text (one finding per `<--`/`-->` statement, anchored in
it; secondaries = the constraint statements mentioning the assigned signal) and (L2) the Lean
model run on the statements of the real SSA CFG."""
import collections
import hashlib
import json
import re
import vlib
from checks import liftlib

BN254 = 21888242871839275222246405745257275088548364400416034343698204186575808495617
HELPERS = ("template U() { signal input in; signal output out; out <== in; }\n"
           "template V2() { signal input in; signal output o1; signal output o2; o1 <== in; o2 <== in + 1; }\n"
           "template V(n) { signal input a; signal input b; signal output c; c <== a * b; }\n")

# (template source, expected number of findings) for forms the token count cannot handle
HAND = [
    ("template T() { signal input x; signal input y; signal output a; signal output b; (a, b) <-- (x, y); a === x; }", 2),
    ("template T() { signal input x; signal output a; signal output b; (a, _, b) <-- (x, x, x * x); }", 2),
    ("template T() { signal input x; signal output a[2]; (a[0], a[1]) <-- (x, x + 1); a[0] === x; a[1] === x + 1; }", 2),
    ("template T() { signal input x; signal output o; o <== V(1)(a <-- x, b <== x); }", 1),
    ("template T() { signal input x; signal output o; o <== U()(in <-- x * x * x); }", 1),
    ("template T() { signal input x; signal output o; x * x --> o; o === x * x; }", 1),
    ("template T() { signal input x; signal output o; component c = U(); c.in <-- x * x * x; c.in === x; o <== c.out; }", 1),
    ("template T() { signal input x; signal output o[3]; for (var i = 0; i < 3; i++) { o[i] <-- x; } o[0] === x; }", 1),
    ("template T(n) { signal input x; signal output o; if (n == 1) { o <-- x; } else { o <-- x * x * x; } o * o === x; }", 2),
    ("template T() { signal input x; signal output o; signal t; t <-- x; o <-- t * t * t; o === t; t === x; }", 2),
    ("template T() { signal input x; signal input y; signal output c; signal output d; (x >> 1, y >> 1) --> (c, d); c === x; }", 2),
    ("template T() { signal input x; signal input y; signal output c; signal output d; (x + 1, y) ==> (c, d); }", 0),
    ("template T() { signal input x; signal output e; signal output f; V2()(x) --> (e, f); }", 2),
    ("template T() { signal input x; signal output o; component d = U(); d.in <-- x >> 2; x === d.in * 4; o <== d.out; }", 1),
    ("template T() { signal input x; signal output o; signal t; t <-- x >> 1; x === t * 2; o <== t; }", 1),
    ("function f(x) { var y = x; return y; }", 0),
    ("template custom T() { signal input x; signal output o; o <-- x * x * x; }", 0),
    # several `<--` assignments that share one source range (seeded C08 m4): all inputs of an anonymous call carry the call's
    # range, all symbols of one declaration the declaration's
    ("template T() { signal input x; signal output o; o <== V(1)(a <-- x, b <-- x * x * x); }", 2),
    ("template T() { signal input x; signal output o; o <== V(1)(b <-- x >> 1, a <-- x); }", 2),
    ("template T() { signal input x; signal u <-- x * x * x, v <-- x >> 1; signal output o; o <== u + v; }", 2),
    ("template T() { signal input x; signal output u <-- x, v <-- x * x * x, w <== x; }", 2),
    # several *constraints* that share one source range (seeded C08 m5: the records were identified by their location, so only the first one
    # at a location was kept): the inputs of an anonymous call, the symbols of one declaration — the assigned signal is mentioned by the
    # second one
    ("template T() { signal input x; signal output o; signal t; t <-- x >> 1; o <== V(1)(x, t); }", 1),
    ("template T() { signal input x; signal output o; signal t; t <-- x >> 1; o <== V(1)(b <== t, a <== x); }", 1),
    ("template T() { signal input x; signal output o; signal t; t <-- x >> 1; o <== V(1)(a <== x, b <== t); }", 1),
    ("template T() { signal input x; signal output o; signal h; h <-- x >> 1; signal d <== 2 * x, c <== h * (h - 1); o <== d + c; }", 1),
    # an index literal that is not smaller than the prime denotes the element of its residue (review of d5ed6fe)
    ("template T() { signal input a; signal output o[2]; o[0] <-- a \\ 2; o[%d] * 2 === a; }" % BN254, None),
    ("template T() { signal input a; signal output o[2]; o[1] <-- a \\ 2; o[%d] * 2 === a; o[0] <== a; }" % BN254, None),
    # a parallel template is not a custom template (seeded C08 m3 concerns files without a main component)
    ("template parallel T() { signal input x; signal output o; o <-- x * x * x; }", 1),
]


def gen_template(rng, k):
    nsig = rng.below(3) + 1
    lines = ["signal input in[3];", "signal output out[3];"]
    for i in range(nsig):
        lines.append("signal s%d;" % i)
    lines.append("component c = U();")
    lines.append("component d = V(2);")
    targets = ["out[0]", "out[1]", "out[2]", "c.in", "d.a", "d.b"] + ["s%d" % i for i in range(nsig)]
    rhs = ["in[0]", "in[1] * in[1]", "in[0] * in[1] * in[2]", "in[2] + 1", "in[0] / in[1]", "~in[0]", "in[0] * (in[1] + 3)", "5"]
    used = set()
    body = []
    n = rng.below(6) + 1
    for _ in range(n):
        t = rng.choice(targets)
        if t in used:
            continue
        used.add(t)
        e = rng.choice(rhs)
        m = rng.below(6)
        if m == 0:
            body.append("%s --> %s;" % (e, t))
        elif m == 1:
            body.append("%s <== %s;" % (t, rng.choice(rhs[:2] + ["in[1] + 2"])))
        elif m == 2 and t.startswith("out["):
            body.append("for (var i = 0; i < 1; i++) { %s <-- %s; }" % (t, e))
        elif m == 3:
            body.append("if (n == %d) { %s <-- %s; }" % (rng.below(3), t, e))
        else:
            body.append("%s <-- %s;" % (t, e))
        if rng.chance(1, 2):
            if rng.chance(1, 2):
                body.append("%s === %s;" % (t, rng.choice(rhs[:4])))
            else:
                body.append("%s === %s * 2;" % (rng.choice(rhs[:2]), t))
        if rng.chance(1, 4):
            body.append("%s * %s === in[0];" % (rng.choice(sorted(used)), rng.choice(["in[1]", "2"])))
    # the same signal assigned with `<--` on one branch and constrained with `<==` on the other (a component port as well), a whole array
    # assigned at once and constrained element by element, elements assigned in one loop and constrained in another (audit C08 round 2)
    extra_decl = []
    form = rng.below(5)
    cand = [t for t in targets if t not in used]
    if form == 0 and cand:
        t = rng.choice(cand)
        used.add(t)
        body.append("if (n == %d) { %s <-- %s; } else { %s <== %s; }" % (rng.below(3), t, rng.choice(rhs), t, rng.choice(rhs[:2] + ["in[1] + 2"])))
    elif form == 1:
        extra_decl.append("signal r[2];")
        body.append("r <-- [%s, %s];" % (rng.choice(rhs), rng.choice(rhs)))
        for k2 in range(2):
            if rng.chance(2, 3):
                body.append("r[%d] * 2 === %s;" % (k2, rng.choice(rhs[:2])))
    elif form == 2:
        extra_decl.append("signal q[3];")
        body.append("for (var i = 0; i < 3; i++) { q[i] <-- in[i] * in[i] * in[i]; }")
        if rng.chance(2, 3):
            body.append("for (var %s = 0; %s < 3; %s++) { q[%s] * 2 === in[%s]; }" % (("j",) * 5 if rng.chance(1, 2) else ("i",) * 5))
        if rng.chance(1, 3):
            body.append("q[1] === in[0];")
    lines += extra_decl
    free = [t for t in ["out[0]", "out[1]", "out[2]"] + ["s%d" % i for i in range(nsig)] if t not in used]
    if len(free) >= 2 and rng.chance(1, 3):
        a, b = free[0], free[1]
        form = rng.below(3)
        if form == 0:
            body.append("(%s, %s) --> (%s, %s);" % (rng.choice(rhs), rng.choice(rhs), a, b))
        elif form == 1:
            body.append("(%s, %s) <-- (%s, %s);" % (a, b, rng.choice(rhs), rng.choice(rhs)))
        else:
            body.append("V2()(%s) --> (%s, %s);" % (rng.choice(rhs[:2]), a, b))
    return "template T%d(n) { %s %s }" % (k, " ".join(lines), " ".join(body))


def statements(src):
    """(start, end, text) of the simple statements of a template body (split at ';' outside parentheses)"""
    out = []
    depth = 0
    start = None
    i = src.index("{") + 1
    start = i
    while i < len(src):
        ch = src[i]
        if ch in "([":
            depth += 1
        elif ch in ")]":
            depth -= 1
        elif ch in "{}" and depth == 0:
            start = i + 1
        elif ch == ";" and depth == 0:
            text = src[start:i]
            lead = len(text) - len(text.lstrip())
            out.append((start + lead, i, text.strip()))
            start = i + 1
        i += 1
    return out


def dest_count(t):
    """number of assigned destinations of a `<--` / `-->` statement (tuple elements other than `_`)"""
    dst = (t.split("<--")[0] if "<--" in t else t.split("-->")[1]).strip()
    if dst.startswith("(") and dst.endswith(")"):
        return len([x for x in dst[1:-1].split(",") if x.strip() != "_"])
    return 1


def norm(t):
    return re.sub(r"\s+", "", t)


def parse_chain(s, i):
    """the access chain that follows position i of the (blank-free) text: [("idx", text) | ("port", name)], end position"""
    chain = []
    while i < len(s):
        if s[i] == "[":
            depth, j = 0, i
            while j < len(s):
                depth += s[j] == "["
                depth -= s[j] == "]"
                j += 1
                if depth == 0:
                    break
            chain.append(("idx", s[i + 1:j - 1]))
            i = j
        elif s[i] == "." and i + 1 < len(s) and (s[i + 1].isalpha() or s[i + 1] in "_$"):
            m = re.match(r"[A-Za-z_$][\w$]*", s[i + 1:])
            chain.append(("port", m.group(0)))
            i += 1 + len(m.group(0))
        else:
            break
    return chain, i


def may_alias(a, b):
    """two access chains may denote the same signal, or one a part of the other: equal port names, and no position where both
    indices are literals with different values (the reading of `mentions the assigned signal` that does not depend on how an index
    is spelled: `r[i]` in one loop and `r[j]` in another, the whole array `r` and its element `r[0]`)"""
    for (ka, xa), (kb, xb) in zip(a, b):
        if ka != kb:
            return False
        if ka == "port" and xa != xb:
            return False
        if ka == "idx" and re.fullmatch(r"\d+", xa) and re.fullmatch(r"\d+", xb) and int(xa) % BN254 != int(xb) % BN254:
            return False       # literals are read modulo the prime (the runs use BN254)
    return True


def mentions(stmt_text, target):
    t = norm(target)
    m0 = re.match(r"[A-Za-z_$][\w$]*", t)
    if not m0:
        return False
    tchain, _ = parse_chain(t, m0.end())
    s = norm(stmt_text)
    for m in re.finditer(r"[A-Za-z_$][\w$]*", s):
        if m.group(0) != m0.group(0):
            continue
        before = s[m.start() - 1] if m.start() > 0 else " "
        if before.isalnum() or before in "_$.":
            continue
        chain, _ = parse_chain(s, m.end())
        if may_alias(chain, tchain):
            return True
    return False


def abstract_stmts(ssa):
    """the statements of the real SSA CFG as the Lean model sees them"""
    toks = []

    def erase(v):
        if isinstance(v, list):
            if v and v[0] == "m":
                return "m"
            return [erase(x) for x in v]
        return v

    def key(var, access):
        """<id>~<name>~<acc;…>: the identity of the use (signal and exact access), and what the comparison of accesses looks at: the name
        (with the suffix of the renaming) and per step the port name or the value constant propagation knows for the index"""
        blob = json.dumps([var[1], var[2], erase(access)])
        accs = []
        for a in access:
            if a[0] == "cmp":
                accs.append("P" + a[1])
            else:
                v = a[1][1][3] if isinstance(a[1], list) and len(a[1]) > 1 and isinstance(a[1][1], list) and a[1][1][:1] == ["m"] else "-"
                accs.append("I" + ("-" if v == "-" else "%s%s" % (v[0], v[1])))
        return "k%s~%s.%s~%s" % (hashlib.sha1(blob.encode()).hexdigest()[:10], var[1], var[2], ";".join(accs) or "-")

    def reads(e, acc):
        if isinstance(e, list) and e:
            if e[0] == "var" and e[1][5] != "-" and e[1][5][0] in ("signal", "component", "anoncomponent"):
                acc.append(key(e[2], []))
            elif e[0] in ("acc",) and e[1][5] != "-" and e[1][5][0] in ("signal", "component", "anoncomponent"):
                acc.append(key(e[2], e[3]))
            elif e[0] == "upd" and e[1][5] != "-" and e[1][5][0] in ("signal", "component", "anoncomponent"):
                acc.append(key(e[2], []))
            for x in e:
                if isinstance(x, list):
                    reads(x, acc)
    for b in ssa[5]:
        for st in b[5]:
            body = st[1]
            m = body[1]
            loc = "%s-%s" % (m[1], m[2])
            if body[0] == "sub" and body[3] == "sig":
                access = body[4][3] if body[4][0] == "upd" else []
                d = body[4][1][4]
                q = d != "-" and d[1] in ("c", "l", "q")
                toks.append("A:%s:%s:%d" % (loc, key(body[2], access), 1 if q else 0))
            elif body[0] == "sub" and body[3] == "csig":
                # `target <== value`: the constraint records the value and the target, not the update expression (which also reads the
                # previous value of the whole variable)
                acc = []
                reads(body[4][4] if body[4][0] == "upd" else body[4], acc)
                access = body[4][3] if body[4][0] == "upd" else []
                toks.append("C:%s:%s:%s" % (loc, ",".join(sorted(set(acc))) or "-", key(body[2], access)))
            elif body[0] == "ceq":
                acc = []
                reads(body[2], acc)
                reads(body[3], acc)
                toks.append("C:%s:%s:-" % (loc, ",".join(sorted(set(acc))) or "-"))
            else:
                toks.append("O")
    return toks


def run(ctx):
    vlib.build_harness()
    ok, failing = vlib.theorem_gate(ctx, ["C08"])
    n = 120 if ctx.tier == "quick" else 1500
    cases = [(s, exp) for s, exp in HAND] + [(gen_template(ctx.rng, k), None) for k in range(n)]
    stats = collections.Counter()
    l1 = l2 = 0
    samples = []
    with vlib.Workdir("c08") as wd:
        reqs = []
        prefix = "pragma circom 2.0.0;\n" + HELPERS
        for i, (src, exp) in enumerate(cases):
            name = re.search(r"(?:template(?: custom)?|function)\s+(\w+)", src).group(1)
            main = "" if src.startswith("function") or "custom" in src else "component main = %s(%s);\n" % (name, "1" if "(n)" in src else "")
            extra = "pragma custom_templates;\n" if "custom" in src else ""
            text = "pragma circom 2.0.0;\n" + extra + HELPERS + src + "\n" + main
            p = wd.write("c%d/main.circom" % i, text)
            reqs.append({"inputs": [p], "libs": [], "curve": "BN254"})
        replies = vlib.analyze(reqs)
        obs = liftlib.observe([c[0] for c in cases])
        for i, ((src, exp), rep, o) in enumerate(zip(cases, replies, obs)):
            if "crash" in rep:
                stats["crashed"] += 1
                continue
            extra = "pragma custom_templates;\n" if "custom" in src else ""
            off = len(("pragma circom 2.0.0;\n" + extra + HELPERS).encode())
            name = re.search(r"(?:template(?: custom)?|function)\s+(\w+)", src).group(1)
            parse, batches = __import__("checks.runnerlib", fromlist=["x"]).real_batches(rep)
            mine = [r for kind, nm, rs in batches if nm == name for r in rs if r["id"] in ("CS0005", "CS0013")]
            others = [r for kind, nm, rs in batches if nm != name for r in rs if r["id"] in ("CS0005", "CS0013")]
            if any(r["id"].startswith("P") for r in parse):
                stats["parse errors (skipped)"] += 1
                continue
            stats["definitions"] += 1
            stats["findings"] += len(mine)
            findings = [(r["id"], r["primary"][0]["start"] - off, r["primary"][0]["end"] - off,
                         sorted((l["start"] - off, l["end"] - off) for l in r["secondary"])) for r in mine if r["primary"]]
            problems = []
            if others:
                problems.append("findings attached to helper templates")
            if exp is not None:
                if len(findings) != exp:
                    problems.append("%d findings, expected %d" % (len(findings), exp))
            else:
                stmts = statements(src)
                arrow = [(a, b, t) for a, b, t in stmts if "<--" in t or "-->" in t]
                if len(findings) != sum(dest_count(t) for a, b, t in arrow):
                    problems.append("%d findings for %d assigned destinations" % (len(findings), sum(dest_count(t) for a, b, t in arrow)))
                for a, b, t in arrow:
                    hits = [f for f in findings if f[1] <= a + 2 and b - 2 <= f[2] <= b + 1 or (f[1] >= a and f[2] <= b + 1)]
                    if len(hits) != dest_count(t):
                        problems.append("statement `%s` has %d findings anchored in it, expected %d" % (t, len(hits), dest_count(t)))
                        continue
                    for f in hits:
                      target = (t.split("<--")[0] if "<--" in t else t.split("-->")[1]) if dest_count(t) == 1 and "(" not in (t.split("<--")[0] if "<--" in t else t.split("-->")[1]) else src[f[1]:f[2]]
                      if f[0] == "CS0005":
                        want = sorted((a2, b2) for a2, b2, t2 in stmts if (a2, b2) != (a, b) and ("===" in t2 or "<==" in t2 or "==>" in t2) and mentions(t2, target))
                        got = [tuple(x) for x in f[3]]
                        # label ranges may or may not include surrounding blanks: compare by containment
                        okk = len(want) == len(got) and all(any(g[0] >= w[0] - 1 and g[1] <= w[1] + 1 for g in got) for w in want)
                        if not okk:
                            problems.append("secondaries of `%s` (%s): got %s, expected constraints at %s" % (t, target.strip(), got, want))
            if problems:
                l1 += 1
                ctx.violation("signal-assignment-reports " + problems[0][:50], {"stage": "L1 one finding per `<--` statement, secondaries = mentioning constraints",
                                                                              "source": src, "problems": problems[:5], "findings": findings, "broken": None})
                continue
            # ---- L2 -------------------------------------------------------------------------------
            if "ssa" in o:
                kind = o["ssa"][2]
                toks = abstract_stmts(o["ssa"])
                m = vlib.run_model(["sigassign %s %s" % (kind, " ".join(toks))])[0]
                model = sorted((t.split(":")[0], t.split(":")[1], len([x for x in t.split(":")[3].split(",") if x])) for t in m.split()) if m != "-" else []
                real = sorted((f[0], "%d-%d" % (f[1], f[2]), len(f[3])) for f in findings)
                if model != real:
                    l2 += 1
                    ctx.violation("sigassign-correspondence", {"stage": "L2", "source": src, "model": model, "implementation": real,
                                                               "broken": "correspondence SignalAssign.findSignalAssignments <-> find_signal_assignments"}, no_input=True)
                elif len(samples) < 3 and findings:
                    samples.append({"source": src[:260], "findings": findings[:4]})
    if not ok:
        ctx.violation("theorem " + ";".join(failing)[:200], {"broken": "theorem", "failing": failing}, no_input=True)
    cov = ctx.coverage
    cov["evaluations"] = len(cases)
    cov["distinct_nontrivial"] = stats["definitions"]
    cov["rule"] = ("%d hand-written forms (tuples with `_`, anonymous components with named `<--` inputs, `-->`, component ports, loops, branches, a "
                   "function, a custom template) plus %d generated templates mixing `<--`, `-->`, `<==`, `===` on scalars, array elements, "
                   "component ports, inside loops and branches" % (len(HAND), n))
    cov["distribution"] = dict(stats)
    cov["l1_failures"] = l1
    cov["l2_divergences"] = l2
    cov["samples"] = samples or [{"note": "none"}]


def replay(ctx, path):
    r = json.load(open(path))
    print(json.dumps(r, indent=1)[:2500])
    ctx.coverage["evaluations"] = 1
