"""C20 — early stop. Theorems: Props/C20.lean (the early-stop states are the prefixes of one
deterministic sequence; the fixpoint is stable). Tie, using the `verif` pass-budget hook (H2): for
every definition and every budget k = 0, 1, 2, ... up to the fixpoint, for value and degree
propagation independently, the real annotations after k passes equal the Lean model's (L2); every
prefix claim satisfies the C06 interpreter oracle and the C07 fixpoint oracle, and claims are
monotone in k (L1)."""
import collections
import json
import re
import vlib
from checks import liftlib, proplib, interp, c06, c07

P = 21888242871839275222246405745257275088548364400416034343698204186575808495617
HAND = [
    "template T(n) { signal input in; signal output out; var a[2]; a[0] = in * in * in; for (var i = 0; i < 2; i++) { a[1] = 1; out <-- a[0]; } }",
    "function f(c) { var x = 3; var y = x * 2 + 1; if (y == 7) { return 1; } return 2; }",
    "template T(n) { signal input in; signal output out; var x = in; var y = x * x; if (n) { y = y * x; } out <-- y; }",
    "function f(c) { var x = 1; while (c < 3) { x = 1; c++; } if (x == 1) { return c; } return 2; }",
    # shapes of the seeded changes C20 m1/m2: a second element assignment while the first is still resolving; a signal assigned in both
    # branches, one right-hand side folding in more passes than the other, read after the join
    "template T(n) { signal input in; signal output out; var a[2]; a[0] = in * in * in; a[1] = in; out <-- a[0]; }",
    "template T(n) { signal input in; signal output out; signal s; if (n) { s <-- (1 + 1) * (1 + 1) - 3; } else { s <-- 2; } if (s == 2) { out <== in; } else { out <== 0; } }",
    "template T(n) { signal input in; signal output out; signal s; if (n) { s <-- 2; } else { s <-- (1 + 1) * (1 + 1) - 3; } if (s == 2) { out <== in; } else { out <== 0; } }",
    # what the pre-pass of bc8ef3c must not seed (seeded changes C20 m4/m5, C17 m8): a loop-carried local that is read before it is assigned an
    # element of a parameter table selected by a signal, or a local that aliases a signal — a wrong seed is overwritten later, so the false claim
    # exists at intermediate budgets only
    "template T(table, n) { signal input in; signal output out[n]; var t = 1; for (var i = 0; i < n; i++) { out[i] <-- t * in; t = table[i][in]; } }",
    "template T(table, n) { signal input in; signal output out[n]; var t = 1; for (var i = 0; i < n; i++) { out[i] <-- t * in; t = table[in][i]; } }",
    "template T(n) { signal input in; signal output out[2]; var v = in; var c = 1; for (var i = 0; i < 2; i++) { out[i] <-- c * in; c = v * v; } }",
    "template T(n) { signal input in; signal output out; var step = in; var acc = 0; for (var i = 0; i < n; i++) { acc = acc + step; } out <-- acc * in; }",
    "template T(n) { signal input in; signal output out[2]; var a = in; var b = 1; var c = 1; var d = 1; for (var i = 0; i < 2; i++) { out[i] <-- d * in; d = c * c; c = b * b; b = a + 1; } }",
]


PASS_CAP = 600       # more passes than any generated definition needs (the evidence records the maximum seen)


def run(ctx):
    vlib.build_harness()
    ok, failing = vlib.theorem_gate(ctx, ["C20"])
    n = 40 if ctx.tier == "quick" else 400
    srcs = HAND + [d[0] for d in liftlib.gen_definitions(ctx.rng, n, max_stmts=5)]
    # templates with signal arrays assigned element by element in loops, component ports and tuple forms (the generator of C08): the shapes
    # the statement generator above does not produce
    from checks import c08 as _c08
    srcs += [_c08.gen_template(ctx.rng, k) for k in range(n // 8)]
    stats = collections.Counter()
    l1 = l2 = 0
    samples = []
    budgets = list(range(0, 14)) + [18, 25, 40, 70, 120] if ctx.tier == "quick" else list(range(0, 40)) + [50, 70, 100, 150, 250, 400]
    count_bad = 0
    for which in ("value_passes", "degree_passes"):
        done = set()
        broken = {}        # definition -> first correspondence failure; the definition stays in the sweep so that the oracles search all budgets
        for k in budgets:
            todo = [i for i in range(len(srcs)) if i not in done]
            if not todo or count_bad >= 10:
                break
            # the other loop gets a budget it never needs, so that a loop which does not reach its fixpoint shows up as a different pass
            # count (below) and not as a 10 s time box per definition
            other = "degree_passes" if which == "value_passes" else "value_passes"
            reqs = [json.dumps({"src": srcs[i], "curve": "BN254", which: k, other: PASS_CAP}) for i in todo]
            obs = [json.loads(r) if r.startswith("{") else {} for r in vlib.run_harness_robust("lift", reqs)]
            idx = [i for i, o in zip(todo, obs) if "ssa" in o]
            ssas = {i: o["ssa"] for i, o in zip(todo, obs) if "ssa" in o}
            for i in todo:
                if i not in ssas:
                    done.add(i)
            res5 = proplib.model_annotations_counts([ssas[i] for i in idx], [P] * len(idx),
                                                    vk=(k if which == "value_passes" else PASS_CAP), dk=(k if which == "degree_passes" else PASS_CAP))
            res = [(a, b, e) for a, b, c, d, e in res5]
            runs = {i: (o.get("value_passes_run"), o.get("degree_passes_run")) for i, o in zip(todo, obs)}
            for i, (fv5, fd5, nv, nd, _) in zip(idx, res5):
                # the number of passes each loop performed: the real loops and the model's (valLoopN / degLoopN)
                stats["pass counts compared"] += 1
                if runs[i] != (nv, nd) and runs[i][0] is not None:
                    l2 += 1
                    count_bad += 1
                    done.add(i)      # one report per definition; a loop that does not converge costs PASS_CAP passes per run
                    ctx.violation("pass-count-differs", {"stage": "L2 number of passes of the propagation loops: real vs Lean model", "source": srcs[i], "loop": which, "k": k,
                                                         "implementation_passes (value, degree)": list(runs[i]), "model_passes (value, degree)": [nv, nd],
                                                         "broken": "correspondence Propagate.valLoopN / degLoopN <-> the `while rerun` loops of cfg.rs"}, no_input=True)
            for i, (fv, fd, anns) in zip(idx, res):
                stats["prefix states compared"] += 1
                ssa = ssas[i]
                real = proplib.flatten_cfg(ssa)
                l2_bad = None
                nviol = len(ctx.violations) + len(ctx.known_hits)
                if real != anns and i in broken:
                    l2_bad = broken[i]
                elif real != anns:
                    l2 += 1
                    diffs = [(j, a, b) for j, (a, b) in enumerate(zip(real, anns)) if a != b][:5]
                    # the correspondence is broken: the oracles below search this prefix state for a concrete false claim
                    l2_bad = {"stage": "L2 annotations after k passes: real vs Lean model", "source": srcs[i], "loop": which,
                              "k": k, "first_differences": diffs, "broken": "correspondence Propagate.%s <-> cfg.rs loop with pass budget" %
                              ("valLoop" if which == "value_passes" else "degLoop")}
                    broken[i] = l2_bad
                # (monotonicity in k is checked below on one fixed statement order: the order of phi statements
                # differs from run to run (hash order), so node positions of different runs are not comparable)
                # soundness of the prefix state
                if which == "degree_passes":
                    bad, nclaims = c07.degree_audit(ssa)
                    stats["prefix degree claims audited"] += nclaims
                    if bad:
                        l1 += 1
                        ctx.violation("prefix-degree-claim-too-low", {"stage": "L1 C07 oracle on the state after k passes", "source": srcs[i], "k": k,
                                                                      "claims_below_fixpoint": bad[:5], "broken": None})
                else:
                    cl = c06.claims(ssa)
                    phic = vlib.run_model(["phicomplete " + vlib.sexp(ssa)])[0] if cl and (k in (1, 3, 6, 12) or l2_bad) else "complete"
                    incomplete = phic.startswith("incomplete")
                    for _rep in range(4 if l2_bad else 1):
                        if not (cl and not incomplete and (k in (1, 3, 6, 12) or l2_bad)):
                            break
                        cache = {}
                        rng = ctx.rng

                        def inputs(key, cache=cache, rng=rng):
                            if key not in cache:
                                m = rng.below(5)
                                cache[key] = [0, 1, 2, P - 1][m] if m < 4 else rng.bits(254) % P
                            return cache[key]
                        it, abort = interp.run(ssa, P, inputs, max_steps=300)
                        if not (abort and abort.startswith("invalid")):
                            for key, vals in it.node_values.items():
                                if key in cl:
                                    for v in vals:
                                        if isinstance(v, tuple):
                                            continue
                                        stats["prefix value claims compared"] += 1
                                        if not c06.matches(cl[key][0], v, P):
                                            l1 += 1
                                            ctx.violation("prefix-false-constant", {"stage": "L1 C06 oracle on the state after k passes", "source": srcs[i], "k": k,
                                                                                    "node": list(key), "claimed": cl[key][0], "observed": str(v), "broken": None})
                if l2_bad:
                    if len(ctx.violations) + len(ctx.known_hits) > nviol:
                        broken[i]["found"] = True
                    continue
                fix = fv if which == "value_passes" else fd
                if fix:
                    done.add(i)
                    stats["fixpoints reached (%s)" % which] += 1
                    stats["max passes to fixpoint"] = max(stats["max passes to fixpoint"], k)
        for i, b in broken.items():
            if not b.pop("found", False):
                ctx.violation("prefix-correspondence", b, no_input=True)
        if len(samples) < 2:
            samples.append({"loop": which, "budgets": budgets[:8], "definitions": len(srcs)})
        # monotonicity: on the SSA CFG of one run (fixed statement order) the model's states for k = 0, 1, 2, ... must only
        # ever add claims (the model equals the real state at every k by the comparison above)
        obs = liftlib.observe(srcs)
        for i, o in enumerate(obs):
            if "ssa" not in o:
                continue
            prev = {}
            for k in budgets:
                fv, fd, anns = proplib.model_annotations([o["ssa"]], [P], vk=(k if which == "value_passes" else "-"),
                                                         dk=(k if which == "degree_passes" else "-"))[0]
                col = 0 if which == "value_passes" else 1
                cur = {j: a.lstrip("S").split("/")[col] for j, a in enumerate(anns) if a.lstrip("S").split("/")[col] != "-"}
                stats["monotonicity steps checked"] += 1
                for j, v in prev.items():
                    if cur.get(j) != v:
                        l1 += 1
                        ctx.violation("claim-retracted", {"stage": "L1 claims are monotone in the number of passes", "source": srcs[i], "loop": which, "k": k,
                                                          "node_index": j, "before": v, "after": cur.get(j), "broken": None})
                        break
                prev = cur
                if (fv if which == "value_passes" else fd):
                    break
    # ---- what the passes say under a budget (audit C20 round 2 f1): a claim made after k passes is made at the fixpoint as well ----------
    #      claims: `always true/false` (CS0009), `is quadratic` (CS0013), `the signal is constrained here` (a secondary label of CS0005);
    #      the absence of CS0010 / CS0014 (`size is safe`, `input is range checked`) is a claim too, so those may only disappear with more passes
    from checks import c08
    psrcs = [
        "template T() { signal input a; signal output o[2]; o[1] <-- a * a * a; o[0] <== a; }",
        "template T() { signal input a; signal output o[3]; o[2] <-- a * a * a; o[0] <== a; o[1] === a; }",
        "template T(n) { signal input a; signal output o[2]; component c[2]; c[0] = U(); c[1] = U(); c[1].in <-- a * a * a; c[0].in <== a; o[0] <== c[0].out; o[1] <== c[1].out; }",
        "template T(n) { signal input a; signal input b; signal output o; component lt = LessThan(8); component nb[2]; nb[0] = Num2Bits(8); nb[1] = Num2Bits(254); "
        "nb[0].in <== a; nb[1].in <== b; lt.in[0] <== a; lt.in[1] <== b; o <== lt.out; }",
        # a literal index that is not reduced: `r[p]` is `r[0]` (review 'latest2' f2: the literal was compared as written when propagation had not reached it)
        "template T() { signal input a; signal output r[2]; r[21888242871839275222246405745257275088548364400416034343698204186575808495617] <-- a >> 1; r[0] === a; r[1] <== a; }",
        "template T() { signal input a; signal output r[2]; r[0] <-- a >> 1; r[21888242871839275222246405745257275088548364400416034343698204186575808495617 + 0] === a; r[1] <== a; }",
    ] + [c08.gen_template(ctx.rng, k) for k in range(40 if ctx.tier == "quick" else 400)]

    def claims_of(rep):
        pos, neg = set(), set()
        for r in vlib.reports_of(rep):
            loc = (r["primary"][0]["start"], r["primary"][0]["end"]) if r["primary"] else None
            if r["id"] in ("CS0009", "CS0013"):
                pos.add((r["id"], loc, r["message"][:60]))
            if r["id"] == "CS0005":
                for l in r["secondary"]:
                    pos.add(("CS0005-constrained-here", loc, (l["start"], l["end"])))
            if r["id"] in ("CS0010", "CS0014"):
                neg.add((r["id"], loc))
        return pos, neg
    with vlib.Workdir("c20p") as wdp:
        base = []
        for j, s2 in enumerate(psrcs):
            name = re.search(r"template\s+(\w+)", s2).group(1)
            text = "pragma circom 2.0.0;\n" + c08.HELPERS + "template LessThan(n) { signal input in[2]; signal output out; out <== in[0] - in[1] + n; }\n" \
                   "template Num2Bits(n) { signal input in; signal output out[n]; for (var i = 0; i < n; i++) { out[i] <== in; } }\n" + s2 + "\n"
            pth = wdp.write("p%d/main.circom" % j, text.encode())
            base.append({"inputs": [pth], "libs": [], "curve": "BN254"})
        if count_bad:
            base = []       # the loops do not behave like the model's: this stage would run into the time box for every definition
        full = vlib.analyze(base) if base else []
        # which constraints mention which assigned signal does not depend on degrees: with complete values and no degree pass every `<--` is
        # a CS0005 finding with all its `constrained here` labels — the reference for those labels
        labels = [{x for x in claims_of(r)[0] if x[0] == "CS0005-constrained-here"} if "crash" not in r else set()
                  for r in (vlib.analyze([dict(b, degree_passes=0, value_passes=PASS_CAP) for b in base]) if base else [])]
        for which in ("value_passes", "degree_passes"):
            for k in (0, 1, 2, 3, 5, 8):
                if not base:
                    break
                cut = vlib.analyze([dict(b, **{which: k, ("degree_passes" if which == "value_passes" else "value_passes"): PASS_CAP}) for b in base])
                for s2, f, c, lab in zip(psrcs, full, cut, labels):
                    if "crash" in f or "crash" in c:
                        continue
                    stats["pass reports under a budget compared"] += 1
                    fp, fn = claims_of(f)
                    cp, cn = claims_of(c)
                    gained = sorted(cp - fp - lab, key=str)
                    lost_alarm = sorted(fn - cn, key=str)
                    # a constraint that mentions the assigned signal is listed at every stopping point (C08: *all* constraint statements): an index
                    # whose value is not known yet is identified with every other one, so stopping early can only add labels to a CS0005 finding
                    cut_assign = {r["primary"][0]["start"] for r in vlib.reports_of(c) if r["id"] == "CS0005" and r["primary"]}
                    lost_label = sorted((x for x in lab if x[1] is not None and x[1][0] in cut_assign and x not in cp), key=str)
                    if lost_label:
                        l1 += 1
                        ctx.violation("constraint-label-lost-by-stopping-early",
                                      {"stage": "L1 every constraint mentioning the assigned signal is listed at every stopping point", "source": s2, "loop": which, "k": k,
                                       "labels_only_at_the_fixpoint": [list(map(str, x)) for x in lost_label][:5], "broken": None})
                    if gained or lost_alarm:
                        l1 += 1
                        ctx.violation("claim-gained-by-stopping-early %s" % (gained or lost_alarm)[0][0],
                                      {"stage": "L1 a claim made after k passes is made at the fixpoint", "source": s2, "loop": which, "k": k,
                                       "claims_only_in_the_cut_run": [list(map(str, x)) for x in gained][:5], "alarms_only_at_the_fixpoint": [list(map(str, x)) for x in lost_alarm][:5], "broken": None})
    if not ok:
        ctx.violation("theorem " + ";".join(failing)[:200], {"broken": "theorem", "failing": failing}, no_input=True)
    cov = ctx.coverage
    cov["evaluations"] = stats["prefix states compared"]
    cov["distinct_nontrivial"] = stats["prefix states compared"]
    cov["rule"] = ("%d definitions x every pass budget k in %s... (until the model reports the fixpoint), for the value loop and the degree loop "
                   "independently; a case = the annotated SSA CFG after k passes" % (len(srcs), budgets[:6]))
    cov["distribution"] = dict(stats)
    cov["l1_failures"] = l1
    cov["l2_divergences"] = l2
    cov["samples"] = samples
    ctx.assumptions += ["the wall-clock trigger itself is not modelled: the hook substitutes a deterministic pass budget (a pass is never interrupted half-way in the real code either)"]


def replay(ctx, path):
    r = json.load(open(path))
    print(json.dumps(r, indent=1)[:2500])
    ctx.coverage["evaluations"] = 1
