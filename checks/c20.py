"""C20 — early stop. Theorems: Props/C20.lean (the early-stop states are the prefixes of one
deterministic sequence; the fixpoint is stable). Tie, using the `verif` pass-budget hook (H2): for
every definition and every budget k = 0, 1, 2, ... up to the fixpoint, for value and degree
propagation independently, the real annotations after k passes equal the Lean model's (L2); every
prefix claim satisfies the C06 interpreter oracle and the C07 fixpoint oracle, and claims are
monotone in k (L1)."""
import collections
import json
import vlib
from checks import liftlib, proplib, interp, c06, c07

P = 21888242871839275222246405745257275088548364400416034343698204186575808495617
HAND = [
    "template T(n) { signal input in; signal output out; var a[2]; a[0] = in * in * in; for (var i = 0; i < 2; i++) { a[1] = 1; out <-- a[0]; } }",
    "function f(c) { var x = 3; var y = x * 2 + 1; if (y == 7) { return 1; } return 2; }",
    "template T(n) { signal input in; signal output out; var x = in; var y = x * x; if (n) { y = y * x; } out <-- y; }",
    "function f(c) { var x = 1; while (c < 3) { x = 1; c++; } if (x == 1) { return c; } return 2; }",
    # shapes of the seeded changes C20 m1/m2: a second element assignment while the first is still resolving; a signal assigned in both
    # branches, one right-hand side folding in more passes than the other, read after the join
    "template T(n) { signal input in; signal output out; var a[2]; a[0] = in * in * in; a[1] = in; out <-- a[0]; }",
    "template T(n) { signal input in; signal output out; signal s; if (n) { s <-- (1 + 1) * (1 + 1) - 3; } else { s <-- 2; } if (s == 2) { out <== in; } else { out <== 0; } }",
    "template T(n) { signal input in; signal output out; signal s; if (n) { s <-- 2; } else { s <-- (1 + 1) * (1 + 1) - 3; } if (s == 2) { out <== in; } else { out <== 0; } }",
]


def run(ctx):
    vlib.build_harness()
    ok, failing = vlib.theorem_gate(ctx, ["C20"])
    n = 40 if ctx.tier == "quick" else 400
    srcs = HAND + [d[0] for d in liftlib.gen_definitions(ctx.rng, n, max_stmts=5)]
    stats = collections.Counter()
    l1 = l2 = 0
    samples = []
    budgets = list(range(0, 14)) + [18, 25, 40, 70, 120] if ctx.tier == "quick" else list(range(0, 40)) + [50, 70, 100, 150, 250, 400]
    for which in ("value_passes", "degree_passes"):
        done = set()
        broken = {}        # definition -> first correspondence failure; the definition stays in the sweep so that the oracles search all budgets
        for k in budgets:
            todo = [i for i in range(len(srcs)) if i not in done]
            if not todo:
                break
            reqs = [json.dumps({"src": srcs[i], "curve": "BN254", which: k}) for i in todo]
            obs = [json.loads(r) if r.startswith("{") else {} for r in vlib.run_harness_robust("lift", reqs)]
            idx = [i for i, o in zip(todo, obs) if "ssa" in o]
            ssas = {i: o["ssa"] for i, o in zip(todo, obs) if "ssa" in o}
            for i in todo:
                if i not in ssas:
                    done.add(i)
            res = proplib.model_annotations([ssas[i] for i in idx], [P] * len(idx),
                                            vk=(k if which == "value_passes" else "-"), dk=(k if which == "degree_passes" else "-"))
            for i, (fv, fd, anns) in zip(idx, res):
                stats["prefix states compared"] += 1
                ssa = ssas[i]
                real = proplib.flatten_cfg(ssa)
                l2_bad = None
                nviol = len(ctx.violations) + len(ctx.known_hits)
                if real != anns and i in broken:
                    l2_bad = broken[i]
                elif real != anns:
                    l2 += 1
                    diffs = [(j, a, b) for j, (a, b) in enumerate(zip(real, anns)) if a != b][:5]
                    # the correspondence is broken: the oracles below search this prefix state for a concrete false claim
                    l2_bad = {"stage": "L2 annotations after k passes: real vs Lean model", "source": srcs[i], "loop": which,
                              "k": k, "first_differences": diffs, "broken": "correspondence Propagate.%s <-> cfg.rs loop with pass budget" %
                              ("valLoop" if which == "value_passes" else "degLoop")}
                    broken[i] = l2_bad
                # (monotonicity in k is checked below on one fixed statement order: the order of phi statements
                # differs from run to run (hash order), so node positions of different runs are not comparable)
                # soundness of the prefix state
                if which == "degree_passes":
                    bad, nclaims = c07.degree_audit(ssa)
                    stats["prefix degree claims audited"] += nclaims
                    if bad:
                        l1 += 1
                        ctx.violation("prefix-degree-claim-too-low", {"stage": "L1 C07 oracle on the state after k passes", "source": srcs[i], "k": k,
                                                                      "claims_below_fixpoint": bad[:5], "broken": None})
                else:
                    cl = c06.claims(ssa)
                    phic = vlib.run_model(["phicomplete " + vlib.sexp(ssa)])[0] if cl and (k in (1, 3, 6, 12) or l2_bad) else "complete"
                    incomplete = phic.startswith("incomplete")
                    for _rep in range(4 if l2_bad else 1):
                        if not (cl and not incomplete and (k in (1, 3, 6, 12) or l2_bad)):
                            break
                        cache = {}
                        rng = ctx.rng

                        def inputs(key, cache=cache, rng=rng):
                            if key not in cache:
                                m = rng.below(5)
                                cache[key] = [0, 1, 2, P - 1][m] if m < 4 else rng.bits(254) % P
                            return cache[key]
                        it, abort = interp.run(ssa, P, inputs, max_steps=300)
                        if not (abort and abort.startswith("invalid")):
                            for key, vals in it.node_values.items():
                                if key in cl:
                                    for v in vals:
                                        if isinstance(v, tuple):
                                            continue
                                        stats["prefix value claims compared"] += 1
                                        if not c06.matches(cl[key][0], v, P):
                                            l1 += 1
                                            ctx.violation("prefix-false-constant", {"stage": "L1 C06 oracle on the state after k passes", "source": srcs[i], "k": k,
                                                                                    "node": list(key), "claimed": cl[key][0], "observed": str(v), "broken": None})
                if l2_bad:
                    if len(ctx.violations) + len(ctx.known_hits) > nviol:
                        broken[i]["found"] = True
                    continue
                fix = fv if which == "value_passes" else fd
                if fix:
                    done.add(i)
                    stats["fixpoints reached (%s)" % which] += 1
                    stats["max passes to fixpoint"] = max(stats["max passes to fixpoint"], k)
        for i, b in broken.items():
            if not b.pop("found", False):
                ctx.violation("prefix-correspondence", b, no_input=True)
        if len(samples) < 2:
            samples.append({"loop": which, "budgets": budgets[:8], "definitions": len(srcs)})
        # monotonicity: on the SSA CFG of one run (fixed statement order) the model's states for k = 0, 1, 2, ... must only
        # ever add claims (the model equals the real state at every k by the comparison above)
        obs = liftlib.observe(srcs)
        for i, o in enumerate(obs):
            if "ssa" not in o:
                continue
            prev = {}
            for k in budgets:
                fv, fd, anns = proplib.model_annotations([o["ssa"]], [P], vk=(k if which == "value_passes" else "-"),
                                                         dk=(k if which == "degree_passes" else "-"))[0]
                col = 0 if which == "value_passes" else 1
                cur = {j: a.lstrip("S").split("/")[col] for j, a in enumerate(anns) if a.lstrip("S").split("/")[col] != "-"}
                stats["monotonicity steps checked"] += 1
                for j, v in prev.items():
                    if cur.get(j) != v:
                        l1 += 1
                        ctx.violation("claim-retracted", {"stage": "L1 claims are monotone in the number of passes", "source": srcs[i], "loop": which, "k": k,
                                                          "node_index": j, "before": v, "after": cur.get(j), "broken": None})
                        break
                prev = cur
                if (fv if which == "value_passes" else fd):
                    break
    if not ok:
        ctx.violation("theorem " + ";".join(failing)[:200], {"broken": "theorem", "failing": failing}, no_input=True)
    cov = ctx.coverage
    cov["evaluations"] = stats["prefix states compared"]
    cov["distinct_nontrivial"] = stats["prefix states compared"]
    cov["rule"] = ("%d definitions x every pass budget k in %s... (until the model reports the fixpoint), for the value loop and the degree loop "
                   "independently; a case = the annotated SSA CFG after k passes" % (len(srcs), budgets[:6]))
    cov["distribution"] = dict(stats)
    cov["l1_failures"] = l1
    cov["l2_divergences"] = l2
    cov["samples"] = samples
    ctx.assumptions += ["the wall-clock trigger itself is not modelled: the hook substitutes a deterministic pass budget (a pass is never interrupted half-way in the real code either)"]


def replay(ctx, path):
    r = json.load(open(path))
    print(json.dumps(r, indent=1)[:2500])
    ctx.coverage["evaluations"] = 1
