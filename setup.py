#!/usr/bin/env python3
"""Offline build of the verification machinery: harness (with the repo crates), the real CLI,
all Lean modules and the model driver."""
import os
import sys
sys.path.insert(0, os.path.dirname(os.path.abspath(__file__)))
import vlib

def main():
    vlib.build_harness()
    vlib.build_cli()
    rc, log = vlib.lake_build(["Circomspect", "csmodel"])
    if rc != 0:
        sys.stdout.write(log[-5000:])
        sys.exit(1)
    print("setup ok")

if __name__ == "__main__":
    main()
