#!/usr/bin/env bash
# C20 / f1: a value propagation which is cut short makes the signal assignment pass
# state that `o[1]` "is constrained here" at the unrelated statement `o[0] <== a`
# (and drop the advice to use `<==`). The complete run makes no such statement.
#
# usage: run.sh <repository root>
# exit 0 iff the property holds (no run with a bounded number of value passes makes a
# statement about a constraint on `o[1]` which the complete run does not make).
#
# Set C20_REAL=1 to also reproduce with the unmodified CLI binary and the real 10 s
# time box (generates a 9000 statement template; takes 20 s or more, and needs a
# machine on which value propagation of that template takes more than 10 s).
set -u
ROOT="$(cd "${1:?usage: run.sh <repository root>}" && pwd)"
HERE="$(cd "$(dirname "$0")" && pwd)"
WORK="$ROOT/target/c20_f1"
mkdir -p "$WORK/crate/src" || exit 2
cp "$HERE/harness/src/main.rs" "$WORK/crate/src/main.rs"
cp "$ROOT/Cargo.lock" "$WORK/crate/Cargo.lock" 2>/dev/null
cat > "$WORK/crate/Cargo.toml" <<TOML
[package]
name = "c20_f1"
version = "0.1.0"
edition = "2021"

[workspace]

[dependencies]
parser = { package = "circomspect-parser", path = "$ROOT/parser" }
program_structure = { package = "circomspect-program-structure", path = "$ROOT/program_structure", features = ["verif"] }
program_analysis = { package = "circomspect-program-analysis", path = "$ROOT/program_analysis" }
serde = { version = "1.0", features = ["derive"] }
TOML
(cd "$WORK/crate" && CARGO_TARGET_DIR="$WORK/target" cargo build --offline -q 2>"$WORK/build.log") || {
    echo "harness build failed, see $WORK/build.log"; exit 2; }
BIN="$WORK/target/debug/c20_f1"
INPUT="$HERE/input.circom"
BAD='SEC L[0-9]* The signal `o\[1\]` is constrained here'

status=0
"$BIN" "$INPUT" inf inf > "$WORK/fix.txt" || { echo "abnormal exit at the fixpoint"; exit 1; }
if grep -q "$BAD" "$WORK/fix.txt"; then
    echo "note: the complete run also lists a constraint for o[1]"
fi
for k in 0 1 2 3 4 5 6 7 8; do
    "$BIN" "$INPUT" "$k" inf > "$WORK/cut_$k.txt" || { echo "abnormal exit with $k value passes"; status=1; }
    if grep -q "$BAD" "$WORK/cut_$k.txt" && ! grep -q "$BAD" "$WORK/fix.txt"; then
        echo "VIOLATION with $k value passes:"
        grep "$BAD" "$WORK/cut_$k.txt"
        status=1
    fi
done

if [ "${C20_REAL:-0}" = "1" ]; then
    CLI="$ROOT/target/debug/circomspect"
    [ -x "$CLI" ] || (cd "$ROOT" && cargo build --offline -q -p circomspect) || exit 2
    {
        echo "pragma circom 2.1.0;"
        echo "template Slow() {"
        echo "    signal input a;"
        echo "    signal output o[2];"
        echo "    var x = 0;"
        for i in $(seq 1 9000); do echo "    x = $i;"; done
        echo "    o[1] <-- a * a * a + x;"
        echo "    o[0] <== a;"
        echo "}"
        echo "component main = Slow();"
    } > "$WORK/slow.circom"
    "$CLI" "$WORK/slow.circom" > "$WORK/slow.out" 2>&1
    if grep -q 'The signal `o\[1\]` is constrained here' "$WORK/slow.out"; then
        echo "VIOLATION with the CLI binary and the real time box:"
        grep -B6 'The signal `o\[1\]` is constrained here' "$WORK/slow.out" | head -12
        status=1
    fi
fi
[ $status -eq 0 ] && echo "property holds on this input"
exit $status
