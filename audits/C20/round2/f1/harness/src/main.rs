// Prints every report (code, message, primary and secondary labels, notes) for the
// given file, with value propagation limited to the given number of passes
// (the deterministic stand-in for the time box, feature `verif`).
use std::fmt::Display;
use std::path::PathBuf;

use program_analysis::analysis_runner::AnalysisRunner;
use program_structure::cfg::verif::{DEGREE_PASSES, VALUE_PASSES};
use program_structure::constants::Curve;
use program_structure::file_definition::FileLibrary;
use program_structure::report::Report;
use program_structure::writers::{LogWriter, ReportWriter};

struct W(usize);
impl LogWriter for W {
    fn write_messages<D: Display>(&mut self, _m: &[D]) {}
}
impl ReportWriter for W {
    fn write_reports(&mut self, reports: &[Report], lib: &FileLibrary) -> usize {
        for r in reports {
            let line = |file_id, start: usize| {
                lib.to_storage()
                    .get(file_id)
                    .map(|f| f.source()[..start.min(f.source().len())].matches('\n').count() + 1)
                    .unwrap_or(0)
            };
            let mut s = format!("{} | {}", r.id(), r.message());
            for l in r.primary() {
                s += &format!(" | PRI L{} {}", line(l.file_id, l.range.start), l.message);
            }
            for l in r.secondary() {
                s += &format!(" | SEC L{} {}", line(l.file_id, l.range.start), l.message);
            }
            for n in r.notes() {
                if !n.starts_with("For more details") {
                    s += &format!(" | NOTE {n}");
                }
            }
            println!("{s}");
            self.0 += 1;
        }
        reports.len()
    }
    fn reports_written(&self) -> usize {
        self.0
    }
}

fn budget(s: &str) -> Option<usize> {
    if s == "inf" {
        None
    } else {
        Some(s.parse().expect("a number of passes, or inf"))
    }
}

fn main() {
    let args: Vec<String> = std::env::args().collect();
    VALUE_PASSES.with(|b| b.set(budget(&args[2])));
    DEGREE_PASSES.with(|b| b.set(budget(&args[3])));
    let (mut runner, reports) =
        AnalysisRunner::new(Curve::default()).with_files(&[PathBuf::from(&args[1])]);
    let mut w = W(0);
    w.write_reports(&reports, runner.file_library());
    runner.analyze_templates(&mut w, true);
    runner.analyze_functions(&mut w, true);
}
