pragma circom 2.1.0;
template Slow() {
    signal input a;
    signal output o[2];
    o[1] <-- a * a * a;
    o[0] <== a;
}
component main = Slow();
