#!/bin/sh
# C02 / f2: a directory named on the command line that cannot be read is skipped silently.
# usage: run.sh <repository root>; exits 0 iff the property holds.
ROOT=${1:?usage: run.sh REPO_ROOT}
DIR=$(cd "$(dirname "$0")" && pwd)
BIN="$ROOT/target/debug/circomspect"
[ -x "$BIN" ] || (cd "$ROOT" && cargo build --offline -p circomspect >/dev/null 2>&1) || exit 99
W=$(mktemp -d) || exit 99
trap 'chmod -R u+rwx "$W" 2>/dev/null; rm -rf "$W"' EXIT
chmod 755 "$W"
cp "$BIN" "$W/circomspect" && chmod 755 "$W/circomspect"
mkdir "$W/project" && cp "$DIR/broken.circom" "$W/project/" && chmod 000 "$W/project"
if [ "$(id -u)" -eq 0 ]; then
    # root ignores permission bits: run the tool as an unprivileged user.
    command -v setpriv >/dev/null 2>&1 || { echo "cannot drop privileges (setpriv missing)"; exit 99; }
    RUN="setpriv --reuid=65534 --regid=65534 --clear-groups"
else
    RUN=""
fi
OUT=$($RUN "$W/circomspect" "$W/project" 2>&1); STATUS=$?
echo "$OUT"; echo "exit status: $STATUS"
if [ "$STATUS" -ne 0 ] && echo "$OUT" | grep -q '^error' && ! echo "$OUT" | grep -q 'No issues found'; then
    exit 0
fi
echo "VIOLATION: unreadable user-specified directory reported as clean"
exit 1
