#!/bin/sh
# Borderline (NOT counted as a genuine finding): exits 0 iff property C02 holds literally
# on `--allow P1000` runs, non-zero on the pinned tree.
ROOT="$1"; HERE="$(cd "$(dirname "$0")" && pwd)"
BIN="$ROOT/target/debug/circomspect"
[ -x "$BIN" ] || (cd "$ROOT" && cargo build --offline -p circomspect >/dev/null 2>&1)
fail=0
out=$("$BIN" --allow P1000 "$HERE/bad.circom" 2>&1); code=$?
if [ $code -eq 0 ] || echo "$out" | grep -q "No issues found"; then echo "unparsable file reported clean: [$code] $out"; fail=1; fi
out=$("$BIN" --allow P1000 "$HERE/does_not_exist.circom" 2>&1); code=$?
if [ $code -eq 0 ] || echo "$out" | grep -q "No issues found"; then echo "missing file reported clean: [$code] $out"; fail=1; fi
exit $fail
