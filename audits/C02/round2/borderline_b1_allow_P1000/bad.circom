pragma circom 2.0.0;
template B( { }
