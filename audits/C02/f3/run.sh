#!/bin/sh
# C02 / f3: `--allow P1000` hides parse failures and unopenable files; the run is reported clean.
# usage: run.sh <repository root>; exits 0 iff the property holds.
ROOT=${1:?usage: run.sh REPO_ROOT}
DIR=$(cd "$(dirname "$0")" && pwd)
BIN="$ROOT/target/debug/circomspect"
[ -x "$BIN" ] || (cd "$ROOT" && cargo build --offline -p circomspect >/dev/null 2>&1) || exit 99
FAIL=0
for INPUT in "$DIR/broken.circom" "$DIR/does-not-exist.circom"; do
    OUT=$("$BIN" --allow P1000 "$INPUT" 2>&1); STATUS=$?
    echo "\$ circomspect --allow P1000 $INPUT"; echo "$OUT"; echo "exit status: $STATUS"
    if [ "$STATUS" -ne 0 ] && echo "$OUT" | grep -q '^error' && ! echo "$OUT" | grep -q 'No issues found'; then
        :
    else
        echo "VIOLATION: unanalysable input reported as clean"
        FAIL=1
    fi
done
exit $FAIL
