#!/bin/sh
# C02 / f4: an input file named `.circom` (Path::extension() is None for it) is skipped silently.
# usage: run.sh <repository root>; exits 0 iff the property holds.
ROOT=${1:?usage: run.sh REPO_ROOT}
DIR=$(cd "$(dirname "$0")" && pwd)
BIN="$ROOT/target/debug/circomspect"
[ -x "$BIN" ] || (cd "$ROOT" && cargo build --offline -p circomspect >/dev/null 2>&1) || exit 99
OUT=$("$BIN" "$DIR/.circom" 2>&1); STATUS=$?
echo "$OUT"; echo "exit status: $STATUS"
if [ "$STATUS" -ne 0 ] && echo "$OUT" | grep -q '^error' && ! echo "$OUT" | grep -q 'No issues found'; then
    exit 0
fi
echo "VIOLATION: unparsable user-specified file reported as clean"
exit 1
