#!/bin/sh
# C02 / f1: an existing input file whose name does not end in ".circom" is skipped silently.
# usage: run.sh <repository root>; exits 0 iff the property holds.
ROOT=${1:?usage: run.sh REPO_ROOT}
DIR=$(cd "$(dirname "$0")" && pwd)
BIN="$ROOT/target/debug/circomspect"
[ -x "$BIN" ] || (cd "$ROOT" && cargo build --offline -p circomspect >/dev/null 2>&1) || exit 99
OUT=$("$BIN" "$DIR/broken.txt" 2>&1); STATUS=$?
echo "$OUT"; echo "exit status: $STATUS"
# The file is not valid Circom (it cannot be parsed) and it was named on the command line:
# the property demands an error-level report and a non-zero exit status.
if [ "$STATUS" -ne 0 ] && echo "$OUT" | grep -q '^error' && ! echo "$OUT" | grep -q 'No issues found'; then
    exit 0
fi
echo "VIOLATION: unparsable user-specified file reported as clean"
exit 1
