#!/bin/sh
# usage: run.sh <repository root>
# Exits 0 iff property C13 holds on input.circom: for every decision string of
# up to 8 bits, the statements executed by the structured program are met in the
# same order when the control-flow graph is walked from the entry block along
# the true_index / false_index edges of each IfThenElse node.
set -u
unset C13_LENIENT C13_SSA
ROOT=$(cd "${1:?usage: run.sh <repository root>}" && pwd) || exit 2
HERE=$(cd "$(dirname "$0")" && pwd)
WORK="$ROOT/target/c13-harness-src"
mkdir -p "$WORK/src" || exit 2
cp "$HERE/harness/src/main.rs" "$WORK/src/main.rs" || exit 2
sed "s|@ROOT@|$ROOT|g" "$HERE/harness/Cargo.toml.in" > "$WORK/Cargo.toml" || exit 2
cp "$ROOT/Cargo.lock" "$WORK/Cargo.lock" 2>/dev/null
( cd "$WORK" && CARGO_TARGET_DIR="$ROOT/target/c13-harness" cargo build --offline -q ) >&2 || { echo "harness build failed" >&2; exit 2; }
"$ROOT/target/c13-harness/debug/c13-harness" --bits 8 --dump "$HERE/input.circom"
rc=$?
if [ $rc -eq 0 ]; then echo "C13 holds on input.circom"; else echo "C13 VIOLATED on input.circom (rc=$rc)"; fi
exit $rc
