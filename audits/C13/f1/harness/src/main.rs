// Differential harness for property C13.
//
// usage: c13-harness [--raw] [--dump] [--bits N] file.circom
//
// Default mode: the file is parsed with `parser::parse_files` (the same entry
// point the CLI uses, so tuples and anonymous components are desugared), and
// each template/function body (as stored in the library) is taken as the
// structured source program.
// --raw: the file holds exactly one definition; `parser::parse_definition` is
// used and the definition is lifted directly (no desugaring).
//
// For every decision string of up to N bits the structured program is executed
// (up to and including its first `return`), and the graph is walked from the
// entry block with the same decisions. The event sequences must agree.
//
// Exit status: 0 = all walks agree, 1 = at least one mismatch, 2 = error.
use std::collections::BTreeSet;
use std::path::PathBuf;

use program_structure::ast;
use program_structure::cfg::{Cfg, IntoCfg};
use program_structure::constants::Curve;
use program_structure::ir;
use program_structure::report::ReportCollection;

#[derive(Clone, PartialEq, Eq, Debug)]
struct Event {
    kind: &'static str,
    start: usize,
    end: usize,
    extra: String,
}

fn base(name: &str) -> String {
    name.split('.').next().unwrap().to_string()
}

fn ast_access(access: &[ast::Access]) -> String {
    access
        .iter()
        .map(|a| match a {
            ast::Access::ArrayAccess(_) => "[]".to_string(),
            ast::Access::ComponentAccess(s) => format!(".{s}"),
        })
        .collect()
}

fn ir_access(access: &[ir::AccessType]) -> String {
    access
        .iter()
        .map(|a| match a {
            ir::AccessType::ArrayAccess(_) => "[]".to_string(),
            ir::AccessType::ComponentAccess(s) => format!(".{s}"),
        })
        .collect()
}

#[derive(PartialEq, Eq, Clone, Copy, Debug)]
enum Status {
    Running,
    Returned,
    Exhausted,
}

struct Interp<'a> {
    bits: &'a [bool],
    pos: usize,
    events: Vec<Event>,
    status: Status,
}

impl<'a> Interp<'a> {
    fn decide(&mut self) -> Option<bool> {
        if self.pos < self.bits.len() {
            self.pos += 1;
            Some(self.bits[self.pos - 1])
        } else {
            self.status = Status::Exhausted;
            None
        }
    }

    fn exec(&mut self, stmt: &ast::Statement) {
        use ast::Statement::*;
        if self.status != Status::Running {
            return;
        }
        match stmt {
            Block { stmts, .. } | InitializationBlock { initializations: stmts, .. } => {
                for s in stmts {
                    self.exec(s);
                    if self.status != Status::Running {
                        return;
                    }
                }
            }
            IfThenElse { meta, if_case, else_case, .. } => {
                self.events.push(Event {
                    kind: "branch",
                    start: meta.start,
                    end: meta.end,
                    extra: String::new(),
                });
                match self.decide() {
                    None => {}
                    Some(true) => self.exec(if_case),
                    Some(false) => {
                        if let Some(else_case) = else_case {
                            self.exec(else_case)
                        }
                    }
                }
            }
            While { meta, stmt: body, .. } => loop {
                self.events.push(Event {
                    kind: "branch",
                    start: meta.start,
                    end: meta.end,
                    extra: String::new(),
                });
                match self.decide() {
                    None | Some(false) => break,
                    Some(true) => {
                        self.exec(body);
                        if self.status != Status::Running {
                            return;
                        }
                    }
                }
            },
            Return { meta, .. } => {
                self.events.push(Event {
                    kind: "return",
                    start: meta.start,
                    end: meta.end,
                    extra: String::new(),
                });
                self.status = Status::Returned;
            }
            Declaration { meta, name, .. } => self.events.push(Event {
                kind: "decl",
                start: meta.start,
                end: meta.end,
                extra: base(name),
            }),
            Substitution { meta, var, access, op, .. } => self.events.push(Event {
                kind: "subst",
                start: meta.start,
                end: meta.end,
                extra: format!("{}{} {}", base(var), ast_access(access), op),
            }),
            MultiSubstitution { meta, .. } => self.events.push(Event {
                kind: "multisubst",
                start: meta.start,
                end: meta.end,
                extra: String::new(),
            }),
            ConstraintEquality { meta, .. } => self.events.push(Event {
                kind: "constraint",
                start: meta.start,
                end: meta.end,
                extra: String::new(),
            }),
            LogCall { meta, .. } => self.events.push(Event {
                kind: "log",
                start: meta.start,
                end: meta.end,
                extra: String::new(),
            }),
            Assert { meta, .. } => self.events.push(Event {
                kind: "assert",
                start: meta.start,
                end: meta.end,
                extra: String::new(),
            }),
        }
    }
}

fn ir_event(stmt: &ir::Statement) -> Event {
    use ir::Statement::*;
    match stmt {
        Declaration { meta, names, .. } => Event {
            kind: "decl",
            start: meta.start(),
            end: meta.end(),
            extra: names.iter().map(|n| n.name().clone()).collect::<BTreeSet<_>>().into_iter().collect::<Vec<_>>().join(","),
        },
        IfThenElse { meta, .. } => {
            Event { kind: "branch", start: meta.start(), end: meta.end(), extra: String::new() }
        }
        Return { meta, .. } => {
            Event { kind: "return", start: meta.start(), end: meta.end(), extra: String::new() }
        }
        Substitution { meta, var, op, rhe } => {
            let access = match rhe {
                ir::Expression::Update { access, .. } => ir_access(access),
                _ => String::new(),
            };
            Event {
                kind: "subst",
                start: meta.start(),
                end: meta.end(),
                extra: format!("{}{} {}", var.name(), access, op),
            }
        }
        ConstraintEquality { meta, .. } => {
            Event { kind: "constraint", start: meta.start(), end: meta.end(), extra: String::new() }
        }
        LogCall { meta, .. } => {
            Event { kind: "log", start: meta.start(), end: meta.end(), extra: String::new() }
        }
        Assert { meta, .. } => {
            Event { kind: "assert", start: meta.start(), end: meta.end(), extra: String::new() }
        }
    }
}

struct Walk {
    events: Vec<Event>,
    // Set if the walk had to stop because a branch had no edge for the decision.
    stuck: Option<String>,
    exhausted: bool,
}

fn walk(cfg: &Cfg, bits: &[bool], max_events: usize, lenient: bool) -> Walk {
    let mut pos = 0;
    let mut events = Vec::new();
    let mut block = cfg.entry_block();
    loop {
        let mut next = None;
        let n = block.statements().len();
        for (k, stmt) in block.statements().iter().enumerate() {
            if let ir::Statement::Substitution { rhe: ir::Expression::Phi { .. }, .. } = stmt {
                continue;
            }
            events.push(ir_event(stmt));
            if let ir::Statement::IfThenElse { true_index, false_index, .. } = stmt {
                if k + 1 != n {
                    return Walk {
                        events,
                        stuck: Some(format!(
                            "branch is not the last statement of block {}",
                            block.index()
                        )),
                        exhausted: false,
                    };
                }
                if pos >= bits.len() {
                    return Walk { events, stuck: None, exhausted: true };
                }
                let bit = bits[pos];
                pos += 1;
                let target = if bit { Some(*true_index) } else { *false_index };
                match target {
                    Some(t) => {
                        if !block.successors().contains(&t) {
                            return Walk {
                                events,
                                stuck: Some(format!(
                                    "block {}: branch target {} is not a successor",
                                    block.index(),
                                    t
                                )),
                                exhausted: false,
                            };
                        }
                        next = Some(t);
                    }
                    None => {
                        // No false target is recorded on the statement.
                        let others: BTreeSet<_> = block
                            .successors()
                            .iter()
                            .filter(|s| **s != *true_index)
                            .cloned()
                            .collect();
                        if others.is_empty() {
                            // The false edge leaves the definition.
                            return Walk { events, stuck: None, exhausted: false };
                        }
                        if lenient && others.len() == 1 {
                            next = others.iter().next().cloned();
                            continue;
                        }
                        return Walk {
                            events,
                            stuck: Some(format!(
                                "block {}: false_index is None but the block has other successors {:?}",
                                block.index(),
                                others
                            )),
                            exhausted: false,
                        };
                    }
                }
            }
        }
        if next.is_none() {
            let succ: Vec<_> = block.successors().iter().cloned().collect();
            match succ.len() {
                0 => return Walk { events, stuck: None, exhausted: false },
                1 => next = Some(succ[0]),
                _ => {
                    return Walk {
                        events,
                        stuck: Some(format!(
                            "block {} has several successors {:?} but no branch",
                            block.index(),
                            succ
                        )),
                        exhausted: false,
                    }
                }
            }
        }
        if events.len() > max_events {
            return Walk { events, stuck: Some("too long".into()), exhausted: false };
        }
        block = cfg.get_basic_block(next.unwrap()).expect("block");
    }
}

fn dump(cfg: &Cfg) {
    for block in cfg.iter() {
        let mut p: Vec<_> = block.predecessors().iter().collect();
        p.sort();
        let mut s: Vec<_> = block.successors().iter().collect();
        s.sort();
        println!("  block {} (depth {}) preds {:?} succs {:?}", block.index(), block.loop_depth(), p, s);
        for stmt in block.statements() {
            println!("    {:?}    @{}..{}", stmt, ir_event(stmt).start, ir_event(stmt).end);
        }
    }
}

fn fmt_events(ev: &[Event]) -> String {
    ev.iter()
        .map(|e| format!("{}@{}..{}{}", e.kind, e.start, e.end, if e.extra.is_empty() { String::new() } else { format!("[{}]", e.extra) }))
        .collect::<Vec<_>>()
        .join(" ; ")
}

fn check(name: &str, body: &ast::Statement, cfg: &Cfg, nbits: usize, do_dump: bool) -> bool {
    let lenient = std::env::var("C13_LENIENT").is_ok();
    println!("== definition `{name}`: {} blocks", cfg.len());
    if do_dump {
        dump(cfg);
    }
    let mut ok = true;
    let mut shown = 0;
    for len in 0..=nbits {
        for code in 0..(1u64 << len) {
            let bits: Vec<bool> = (0..len).map(|i| (code >> i) & 1 == 1).collect();
            let mut interp = Interp { bits: &bits, pos: 0, events: Vec::new(), status: Status::Running };
            interp.exec(body);
            // Only complete executions (those that consumed exactly the bits given).
            if interp.pos != bits.len() {
                continue;
            }
            let w = walk(cfg, &bits, interp.events.len() + 10_000, lenient);
            let src = &interp.events;
            let g = &w.events;
            let agree = match interp.status {
                // The graph may go on past a return.
                Status::Returned => g.len() >= src.len() && g[..src.len()] == src[..],
                Status::Exhausted => g == src,
                Status::Running => g == src && w.stuck.is_none() && !w.exhausted,
            };
            if !agree {
                ok = false;
                if shown < 3 {
                    shown += 1;
                    let d: String = bits.iter().map(|b| if *b { 'T' } else { 'F' }).collect();
                    println!("MISMATCH decisions={d:?} source-status={:?}", interp.status);
                    println!("  source: {}", fmt_events(src));
                    println!("  graph : {}", fmt_events(g));
                    if let Some(s) = &w.stuck {
                        println!("  graph walk stopped: {s}");
                    }
                }
            }
        }
    }
    println!("   {}", if ok { "OK" } else { "VIOLATION" });
    ok
}

fn main() {
    let mut raw = false;
    let mut do_dump = false;
    let mut nbits = 8;
    let mut file = None;
    let mut args = std::env::args().skip(1);
    while let Some(a) = args.next() {
        match a.as_str() {
            "--raw" => raw = true,
            "--dump" => do_dump = true,
            "--bits" => nbits = args.next().unwrap().parse().unwrap(),
            _ => file = Some(a),
        }
    }
    let file = file.expect("file");
    let mut ok = true;
    if raw {
        let src = std::fs::read_to_string(&file).unwrap();
        let def = match parser::parse_definition(&src) {
            Some(d) => d,
            None => {
                eprintln!("parse error");
                std::process::exit(2)
            }
        };
        let body = match &def {
            ast::Definition::Template { body, .. } | ast::Definition::Function { body, .. } => body.clone(),
        };
        let mut reports = ReportCollection::new();
        let name = def.name();
        match def.into_cfg(&Curve::default(), &mut reports) {
            Ok(cfg) => ok &= check(&name, &body, &cfg, nbits, do_dump),
            Err(_) => {
                eprintln!("lifting `{name}` failed");
                std::process::exit(2)
            }
        }
    } else {
        let (templates, functions, reports) =
            match parser::parse_files(&[PathBuf::from(&file)], &[], &(2, 1, 9)) {
                parser::ParseResult::Program(p, r) => (p.templates.clone(), p.functions.clone(), r),
                parser::ParseResult::Library(l, r) => (l.templates.clone(), l.functions.clone(), r),
            };
        for r in &reports {
            println!("report: {:?} {}", r.category(), r.message());
        }
        let mut names: Vec<_> = templates.keys().cloned().collect();
        names.sort();
        for name in names {
            let t = &templates[&name];
            let mut reports = ReportCollection::new();
            match t.into_cfg(&Curve::default(), &mut reports) {
                Ok(cfg) => {
                    let cfg = if std::env::var("C13_SSA").is_ok() { cfg.into_ssa().ok().expect("ssa") } else { cfg };
                    ok &= check(&name, t.get_body(), &cfg, nbits, do_dump)
                }
                Err(_) => {
                    println!("lifting `{name}` failed");
                }
            }
        }
        let mut names: Vec<_> = functions.keys().cloned().collect();
        names.sort();
        for name in names {
            let f = &functions[&name];
            let mut reports = ReportCollection::new();
            match f.into_cfg(&Curve::default(), &mut reports) {
                Ok(cfg) => {
                    let cfg = if std::env::var("C13_SSA").is_ok() { cfg.into_ssa().ok().expect("ssa") } else { cfg };
                    ok &= check(&name, f.get_body(), &cfg, nbits, do_dump)
                }
                Err(_) => {
                    println!("lifting `{name}` failed");
                }
            }
        }
    }
    std::process::exit(if ok { 0 } else { 1 });
}
