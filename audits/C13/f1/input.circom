pragma circom 2.0.0;

// An `if` without `else` is the last statement of a `while` body.
function if_at_loop_tail(a) {
    while (a > 0) {
        a = a - 1;
        if (a == 5) {
            a = 0;
        }
    }
    return a;
}

// A `while` is the last statement of a `while` body.
function while_at_loop_tail(a, b) {
    while (a > 0) {
        a = a - 1;
        while (b > 0) {
            b = b - 1;
        }
    }
    return a + b;
}
