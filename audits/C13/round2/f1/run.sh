#!/bin/sh
# usage: run.sh <repository root>
# Exits 0 iff, in the control-flow graph that the tool builds for input.circom, every branch
# statement names both of the edges that leave its basic block (so that the walk "take the true
# or the false edge of the branch" can follow every source execution). Exits 1 if a branch has
# no false target although its block has a second successor (the walk that takes the false
# edge of the branch statement ends there while the source program goes on), 2 on other errors.
ROOT="${1:?usage: run.sh <repository root>}"
HERE="$(cd "$(dirname "$0")" && pwd)"
BIN="$ROOT/target/debug/circomspect"
if [ ! -x "$BIN" ]; then
    (cd "$ROOT" && cargo build --offline -p circomspect >/dev/null 2>&1) || { echo "build failed"; exit 2; }
fi
# The tool prints the graph of every definition at log level `debug` (Cfg::into_ssa).
DUMP="$(RUST_LOG=debug RUST_LOG_STYLE=never "$BIN" "$HERE/input.circom" 2>&1 \
    | sed -n 's/.*control_flow_graph::cfg *> \(basic block .*\)$/\1/p; s/.*control_flow_graph::cfg *> \(    .*\)$/\1/p')"
if [ -z "$DUMP" ]; then echo "no graph was printed"; exit 2; fi
echo "$DUMP"
echo "$DUMP" | awk '
function flush_block() {
    if (block == "") return
    if (branch != "") {
        n = split(succ, s, /, */)
        if (succ == "") n = 0
        has_else = (branch ~ / else [0-9]+$/)
        t = branch; sub(/.* then /, "", t); sub(/ else .*/, "", t)
        f = ""
        if (has_else) { f = branch; sub(/.* else /, "", f) }
        for (k = 1; k <= n; k++) {
            if (s[k] != t && s[k] != f) {
                printf("VIOLATION: basic block %s ends with `%s` but has the successor %s which is neither its true nor its false target\n", block, branch, s[k])
                bad = 1
            }
        }
    }
}
/^basic block / {
    flush_block()
    block = $3; sub(/:/, "", block)
    succ = $0; sub(/.*successors: \{/, "", succ); sub(/\}\).*/, "", succ)
    branch = ""
    next
}
/^    if .* then [0-9]+( else [0-9]+)?$/ { branch = $0; sub(/^ +/, "", branch); next }
{ branch = "" }
END { flush_block(); if (blocks_seen == 0 && block == "") exit 2; exit bad ? 1 : 0 }
'
