pragma circom 2.0.0;

function f(n) {
    var i = 0;
    while (i < n) {
        i += 1;
        if (i == 2) {
            i += 1;
        }
    }
    return i;
}
