pragma circom 2.1.0;

template Sq() {
    signal input in;
    signal output out;
    out <== in * in;
}

template T(n) {
    signal input a;
    signal output b;
    b <== Sq()(a);
    if (n > 0) {
        var Sq_12_173 = n;
        log(Sq_12_173);
    }
}
component main = T(1);
