#!/bin/bash
# Usage: run.sh <repository root>. Exits 0 iff property C10 holds on the inputs.
# Every input declares each of its identifiers exactly once, so no `shadowing variable`
# warning may be displayed for any of them.
ROOT="${1:?repository root}"
DIR="$(cd "$(dirname "$0")" && pwd)"
BIN="$ROOT/target/debug/circomspect"
if [ ! -x "$BIN" ]; then (cd "$ROOT" && cargo build --offline -p circomspect >/dev/null 2>&1) || exit 2; fi
rc=0
for f in input.circom input_loop.circom input_misresolve.circom; do
  out="$("$BIN" "$DIR/$f")"
  echo "$out" | grep -q "analyzing template 'T'" || { echo "unexpected output for $f"; exit 2; }
  if echo "$out" | grep -q "shadows previous declaration"; then
    echo "VIOLATION: $f: shadowing warning for an identifier that is declared only once in the source"
    rc=1
  fi
done
exit $rc
