pragma circom 2.1.0;

template Sq() {
    signal input in;
    signal output out;
    out <== in * in;
}

template T(n) {
    signal input a;
    signal output b;
    if (n > 0) {
        var Sq_14_221 = n;
        b <== Sq()(a);
    }
}
component main = T(1);
