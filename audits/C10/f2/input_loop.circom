pragma circom 2.1.0;

template Sq() {
    signal input in;
    signal output out;
    out <== in * in;
}

template T(n) {
    signal input a[n];
    signal output b[n];
    for (var i = 0; i < n; i++) {
        b[i] <== Sq()(a[i]);
        if (i > 0) {
            var anon_var_12_173 = i;
            log(anon_var_12_173);
        }
    }
}
component main = T(2);
