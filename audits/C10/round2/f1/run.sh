#!/bin/sh
# Usage: run.sh <repository root>
# Exits 0 iff property C10 holds on the inputs of this finding: the reports of
# the tool on a program must not change (apart from the shadowing warning) when
# a declaration is renamed to a fresh name together with the uses that refer to
# it by lexical scope.  Here: the inner/sibling component `c`, whose output is
# never read, must be reported as having an unused output signal, exactly as it
# is when it is called `d`.
ROOT="${1:-.}"
DIR="$(cd "$(dirname "$0")" && pwd)"
BIN="$ROOT/target/debug/circomspect"
if [ ! -x "$BIN" ]; then
    (cd "$ROOT" && cargo build --offline -p circomspect >/dev/null 2>&1) || { echo "build failed"; exit 2; }
fi
status=0
# Prints the location line that follows each unused-output-signal warning, without the file name.
unused() {
    "$BIN" "$1" 2>&1 | grep -A1 'is not constrained in' | grep '┌─' | sed 's/.*\.circom:/:/' | sort
}
for pair in "shadow renamed" "sibling sibling_renamed"; do
    set -- $pair
    got="$(unused "$DIR/$1.circom")"
    want="$(unused "$DIR/$2.circom")"
    if [ -z "$want" ]; then
        echo "unexpected: no unused output signal warning for the reference program $2.circom"; status=2
    elif [ "$got" != "$want" ]; then
        echo "VIOLATION ($1.circom): unused output signal warnings at [$got], but at [$want] after renaming the inner declaration ($2.circom)"
        status=1
    else
        echo "ok ($1.circom): [$got]"
    fi
done
exit $status
