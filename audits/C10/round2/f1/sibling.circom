pragma circom 2.0.0;

template S() {
    signal input in;
    signal output out;
    out <== in + 1;
}

template T(n) {
    signal input a;
    signal output o;
    if (n > 0) {
        component c = S();
        c.in <== a;
        o <== c.out;
    } else {
        component c = S();
        c.in <== a;
        o <== a;
    }
}
