pragma circom 2.0.0;
function f(x) {
    var r = x[x[x[x[x[x[x[x[x[x[x[x[x[x[x[x[x[x[x[x[x[x[8]]]]]]]]]]]]]]]]]]]]]];
    return r;
}
