pragma circom 2.1.0;

template T(x) {
    signal input a;
    signal output b;
    signal x;
    x <-- a + 1;
    b <-- x * 2;
}
component main = T(1);
