pragma circom 2.1.0;

template T(n) {
    signal input a;
    signal output b;
    if (n == 0) {
        var y = 1;
    }
    signal x;
    x <-- a + 1;
    b <-- x * 2;
}
component main = T(1);
