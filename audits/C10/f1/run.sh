#!/bin/bash
# Usage: run.sh <repository root>. Exits 0 iff property C10 holds on the inputs.
ROOT="${1:?repository root}"
DIR="$(cd "$(dirname "$0")" && pwd)"
BIN="$ROOT/target/debug/circomspect"
if [ ! -x "$BIN" ]; then (cd "$ROOT" && cargo build --offline -p circomspect >/dev/null 2>&1) || exit 2; fi
NEEDLE='The signal `x` is not constrained by the template.'
# Sanity: with the unrelated local variable called `y`, the signal `x` is reported as unconstrained.
"$BIN" "$DIR/control.circom" | grep -qF "$NEEDLE" || { echo "control does not behave as expected"; exit 2; }
rc=0
# The unrelated variable `x` lives in a sibling scope which is closed before `signal x` is declared.
"$BIN" "$DIR/input.circom" | grep -qF "$NEEDLE" || { echo "VIOLATION: input.circom: report for signal x suppressed by the unrelated variable x"; rc=1; }
# The signal `x` shadows the (unused) parameter `x`.
"$BIN" "$DIR/input_param.circom" | grep -qF "$NEEDLE" || { echo "VIOLATION: input_param.circom: report for signal x suppressed by the shadowed parameter x"; rc=1; }
exit $rc
