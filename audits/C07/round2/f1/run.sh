#!/bin/sh
# Usage: run.sh <repository root>
# Exits 0 iff property C07 holds on the inputs in this directory, i.e. iff the
# tool does NOT claim that a value merged at a join (or loop header) which is
# controlled by a signal-dependent condition is constant/linear/quadratic.
ROOT="${1:?usage: run.sh <repository root>}"
HERE="$(cd "$(dirname "$0")" && pwd)"
(cd "$ROOT" && cargo build --offline -q -p circomspect >/dev/null 2>&1) || { echo "build failed"; exit 2; }
BIN="$ROOT/target/debug/circomspect"
[ -x "$BIN" ] || { echo "no binary"; exit 2; }
status=0
for f in join.circom join_constant.circom join_loop.circom; do
    out="$("$BIN" "$HERE/$f" 2>&1)"
    if echo "$out" | grep -q 'The expression assigned to `out` is quadratic'; then
        echo "VIOLATION ($f): the right-hand side is claimed to be quadratic"
        status=1
    fi
done
# The divisor `k` of join_constant.circom is 0 when in == 0. A divisor whose
# degree is (wrongly) bounded by constant is not checked by the
# unconstrained-division pass.
out="$("$BIN" "$HERE/join_constant.circom" 2>&1)"
if ! echo "$out" | grep -q 'must be constrained to be non-zero'; then
    echo "VIOLATION (join_constant.circom): the divisor k is treated as a constant"
    status=1
fi
exit $status
