pragma circom 2.0.0;

// The loop condition mentions a signal, the value assigned in the body does
// not depend on the loop variable: y is 0 when in == 0 and a otherwise.
template T() {
    signal input in;
    signal input a;
    signal output out;
    var y = 0;
    while (y != in) {
        y = a;
    }
    out <-- y;
}

component main = T();
