pragma circom 2.0.0;

// x is `in` when in > 3 and 0 otherwise: not a polynomial in the signal `in`.
template T() {
    signal input in;
    signal output out;
    var x = 0;
    if (in > 3) {
        x = in;
    }
    out <-- x;
}

component main = T();
