pragma circom 2.0.0;

// k is 0 when in == 0 and 1 otherwise, so a / k depends on `in` and is not a
// polynomial in the signals (and the divisor may be zero).
template T() {
    signal input in;
    signal input a;
    signal output out;
    var k = 1;
    if (in == 0) {
        k = 0;
    }
    out <-- a / k;
    out * in === a;
}

component main = T();
