pragma circom 2.0.0;

// Secondary consequence of the same wrong `constant` claim: the divisor `d` is 0 unless
// `in == 1`, but it is treated as a constant, so `a / d` is called quadratic and the
// unconstrained-division pass stays silent (it warns for `a / in`).
template T() {
    signal input in;
    signal input a;
    signal output out;
    var d = 0;
    if (in == 1) {
        d = 1;
    }
    out <-- a / d;
}

component main = T();
