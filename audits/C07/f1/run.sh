#!/bin/bash
# Usage: run.sh <repository root>
# Exits 0 iff property C07 holds on the inputs of this finding, i.e. iff none of the
# right-hand sides (whose value depends non-polynomially on the signal `in` through
# control flow) is claimed to be quadratic.
set -u
ROOT="${1:?usage: run.sh <repository root>}"
HERE="$(cd "$(dirname "$0")" && pwd)"
BIN="$ROOT/target/debug/circomspect"
if [ ! -x "$BIN" ]; then
    (cd "$ROOT" && cargo build --offline -p circomspect >/dev/null 2>&1) || { echo "build failed"; exit 2; }
fi
status=0
for f in input.circom loop.circom select.circom divisor.circom; do
    out="$("$BIN" "$HERE/$f" 2>&1)"
    if echo "$out" | grep -q "The expression assigned to \`out\` is quadratic"; then
        echo "VIOLATION ($f): a value that depends on the signal \`in\` through control flow is claimed to be quadratic"
        status=1
    elif ! echo "$out" | grep -q "The assigned signal \`out\` is not constrained here"; then
        echo "UNEXPECTED ($f): no signal assignment report at all"
        echo "$out"
        status=2
    else
        echo "ok ($f)"
    fi
done
exit $status
