pragma circom 2.0.0;

// `j` depends on the signal `in`, so `e[j]` selects between the signals `a` and `b*b`
// (not a polynomial of degree <= 2 in `in`, `a`, `b`).
template T() {
    signal input in;
    signal input a;
    signal input b;
    signal output out;
    var e[2] = [a, b * b];
    var j = 0;
    if (in == 1) {
        j = 1;
    }
    out <-- e[j];
}

component main = T();
