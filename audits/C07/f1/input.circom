pragma circom 2.0.0;

template T() {
    signal input in;
    signal output out;
    var x = 0;
    if (in == 1) {
        x = 1;
    }
    out <-- x;
}

component main = T();
