pragma circom 2.0.0;

// The value of `y` depends on the signal-dependent trip count of the loop.
template T() {
    signal input in;
    signal output out;
    var y = 0;
    for (var i = 0; i < in; i++) {
        y = 5;
    }
    out <-- y;
}

component main = T();
