pragma circom 2.0.0;

template T() {
    signal input a;
    signal input b;
    signal input c;
    signal input d;
    signal output out;
    out <-- a * b + c * d;
}

component main = T();
