#!/bin/bash
# Usage: run.sh <repository root>
# Exits 0 iff the advice `rewrite with <==` is NOT given for `out <-- a*b + c*d`, a
# right-hand side the Circom compiler rejects in a constraint (the sum of two quadratic
# expressions is `NonQuadratic` in circom_algebra: error T3001 `Non quadratic constraints
# are not allowed!`).
set -u
ROOT="${1:?usage: run.sh <repository root>}"
HERE="$(cd "$(dirname "$0")" && pwd)"
BIN="$ROOT/target/debug/circomspect"
if [ ! -x "$BIN" ]; then
    (cd "$ROOT" && cargo build --offline -p circomspect >/dev/null 2>&1) || { echo "build failed"; exit 2; }
fi
out="$("$BIN" "$HERE/input.circom" 2>&1)"
if echo "$out" | grep -q "The expression assigned to \`out\` is quadratic"; then
    echo "VIOLATION: \`a * b + c * d\` is advised to be rewritten with <==, which circom rejects"
    exit 1
elif ! echo "$out" | grep -q "The assigned signal \`out\` is not constrained here"; then
    echo "UNEXPECTED: no signal assignment report at all"
    echo "$out"
    exit 2
fi
echo "ok"
exit 0
