pragma circom 2.1.2;

template Id() {
    signal input a;
    signal output o;
    o <== a;
}

// Hand-written expansion of anon.circom: a declared component per iteration.
template Main(n) {
    signal input x[n];
    signal output y[n];
    component c[n];
    var i = 0;
    while (i < n) {
        c[i] = Id();
        c[i].a <== x[i];
        y[i] <== c[i].o;
        i = g(i);
    }
}

function g(i) {
    return i + 1;
}

component main = Main(2);
