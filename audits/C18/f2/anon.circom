pragma circom 2.1.2;

template Id() {
    signal input a;
    signal output o;
    o <== a;
}

template Main(n) {
    signal input x[n];
    signal output y[n];
    var i = 0;
    while (i < n) {
        y[i] <== Id()(x[i]);
        i = g(i);
    }
}

function g(i) {
    return i + 1;
}

component main = Main(2);
