pragma circom 2.1.2;
template Sq() {
    signal input a;
    signal output o;
    o <== a * a;
}
template Main() {
    signal input x;
    signal output y;
    signal Sq_12_213;
    Sq_12_213 <== x + 1;
    y <== Sq()(Sq_12_213);
}
component main = Main();
