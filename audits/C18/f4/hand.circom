pragma circom 2.1.2;
template Sq() {
    signal input a;
    signal output o;
    o <== a * a;
}
template Main() {
    signal input x;
    signal output y;
    signal Sq_12_213;
    Sq_12_213 <== x + 1;
    component c = Sq();
    c.a <== Sq_12_213;
    y <== c.o;
}
component main = Main();
