pragma circom 2.1.2;

template Sq() {
    signal input a;
    signal output o;
    o <== a * a;
}

// The anonymous component is in the inner loop only.
template Main(n, m) {
    signal input x[n][m];
    signal output y[n][m];
    for (var i = 0; i < n; i++) {
        for (var j = 0; j < m; j++) {
            y[i][j] <== Sq()(x[i][j]);
        }
    }
}

component main = Main(2, 3);
