pragma circom 2.1.2;

template Sq() {
    signal input a;
    signal output o;
    o <== a * a;
}

// Hand-written expansion of anon.circom: a declared component per instance.
template Main(n, m) {
    signal input x[n][m];
    signal output y[n][m];
    component c[n][m];
    for (var i = 0; i < n; i++) {
        for (var j = 0; j < m; j++) {
            c[i][j] = Sq();
            c[i][j].a <== x[i][j];
            y[i][j] <== c[i][j].o;
        }
    }
}

component main = Main(2, 3);
