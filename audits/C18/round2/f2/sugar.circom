pragma circom 2.1.0;

template T() {
    signal input a;
    signal output o;
    o <== a;
}

template M() {
    signal input x;
    signal output s[2];
    var i = 0;
    while (i == 0) {
        s[i] <== T()(x);
        i = 1;
    }
}
