#!/bin/bash
# usage: run.sh <repository root>
# Exits 0 iff the property holds on the input: the findings (rule ids, at the default
# level) and the exit status for the sugared template equal those for the hand-written
# expansion, and no finding mentions the generated loop counter.
ROOT="${1:?usage: run.sh <repository root>}"
HERE="$(cd "$(dirname "$0")" && pwd)"
BIN="$ROOT/target/debug/circomspect"
if [ ! -x "$BIN" ]; then
    (cd "$ROOT" && cargo build --offline -p circomspect >/dev/null 2>&1) || { echo "build failed"; exit 2; }
fi
TMP="$(mktemp -d)"
trap 'rm -rf "$TMP"' EXIT
"$BIN" "$HERE/sugar.circom" -s "$TMP/sugar.sarif" > "$TMP/sugar.out" 2>&1; S=$?
"$BIN" "$HERE/hand.circom" -s "$TMP/hand.sarif" > "$TMP/hand.out" 2>&1; H=$?
ids() { grep -o '"ruleId": *"[A-Z0-9]*"' "$1" 2>/dev/null | sort; }
ids "$TMP/sugar.sarif" > "$TMP/sugar.ids"
ids "$TMP/hand.sarif" > "$TMP/hand.ids"
FAIL=0
if [ "$S" != "$H" ]; then echo "exit status differs: sugar=$S hand=$H"; FAIL=1; fi
if ! diff "$TMP/sugar.ids" "$TMP/hand.ids" > "$TMP/ids.diff"; then
    echo "rule ids differ (< sugar, > hand):"; cat "$TMP/ids.diff"; FAIL=1
fi
if grep -q "anon_var" "$TMP/sugar.out"; then
    echo "a finding mentions the generated loop counter:"; grep "anon_var" "$TMP/sugar.out" | sort -u; FAIL=1
fi
[ "$FAIL" = 0 ] && echo "property holds on this input"
exit $FAIL
