pragma circom 2.1.0;

template T() {
    signal input a;
    signal output o;
    o <== a;
}

template M() {
    signal input x;
    signal output s[2][2];
    for (var i = 0; i < 2; i++) {
        for (var j = 0; j < 2; j++) {
            s[i][j] <== T()(x);
        }
    }
}
