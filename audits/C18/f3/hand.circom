pragma circom 2.1.2;

template Scale(k) {
    signal input a;
    signal output o;
    o <== k * a;
}

// Element-wise assignments in order: k first, then the component which reads k.
template Main() {
    signal input x;
    signal output y;
    var k;
    var s;
    k = 3;
    component c = Scale(k);
    c.a <== x;
    s = c.o;
    y <== s;
}

component main = Main();
