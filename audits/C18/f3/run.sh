#!/bin/bash
# usage: run.sh <repository root>
# Exits 0 iff the property C18 holds on the input: the findings reported for the sugared
# program (tuple.circom) equal those reported for its hand-written expansion (hand.circom).
# Findings are compared as the sorted list of "<level>: <message>" lines (locations ignored).
ROOT=${1:?usage: run.sh <repository root>}
DIR=$(cd "$(dirname "$0")" && pwd)
(cd "$ROOT" && cargo build --offline -p circomspect >/dev/null 2>&1) || { echo "build failed" >&2; exit 2; }
BIN="$ROOT/target/debug/circomspect"
findings() { "$BIN" -l info "$1" 2>&1 | grep -E '^(warning|error|note): ' | sort; }
A=$(findings "$DIR/tuple.circom")
B=$(findings "$DIR/hand.circom")
echo "--- findings for tuple.circom:"; echo "$A"
echo "--- findings for hand.circom:"; echo "$B"
if [ "$A" == "$B" ]; then echo "PROPERTY HOLDS"; exit 0; else echo "PROPERTY VIOLATED: findings differ"; exit 1; fi
