pragma circom 2.1.2;

template Scale(k) {
    signal input a;
    signal output o;
    o <== k * a;
}

template Main() {
    signal input x;
    signal output y;
    var k;
    var s;
    (k, s) = (3, Scale(k)(x));
    y <== s;
}

component main = Main();
