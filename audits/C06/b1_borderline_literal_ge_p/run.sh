#!/bin/sh
# usage: run.sh <repository root>
# exit 0 iff no claim contradicts the reading "a literal denotes its residue mod p".
ROOT="${1:?usage: run.sh <repository root>}"
DIR=$(cd "$(dirname "$0")" && pwd)
BIN="$ROOT/target/debug/circomspect"
if [ ! -x "$BIN" ]; then
    (cd "$ROOT" && cargo build --offline -p circomspect >/dev/null 2>&1) || { echo "build failed"; exit 2; }
fi
OUT=$("$BIN" "$DIR/input.circom" 2>&1)
bad=0
claim() { printf '%s\n' "$OUT" | grep -A4 "input.circom:$1:" | grep -o "always [a-z]*" | head -1; }
[ "$(claim 8)" = "always false" ] && { echo "line 8: claimed always false, field value is true"; bad=1; }
[ "$(claim 10)" = "always true" ] && { echo "line 10: claimed always true, field value is false"; bad=1; }
[ "$(claim 12)" = "always false" ] && { echo "line 12: claimed always false, field value is true"; bad=1; }
exit $bad
