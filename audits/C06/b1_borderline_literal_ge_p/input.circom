pragma circom 2.0.0;

// p   = 21888242871839275222246405745257275088548364400416034343698204186575808495617 (BN254 scalar field)
// As field elements: p = 0 and p + 1 = 1.
function f() {
    var r = 0;
    // (p + 1) & 1 is 1 & 1 = 1 in the field; the tool computes on the unreduced integer (p + 1 is even).
    if ((21888242871839275222246405745257275088548364400416034343698204186575808495618 & 1) == 1) { r = 1; }
    // 2 ** p is 2 ** 0 = 1 in the field; the tool computes 2^p mod p = 2.
    if (2 ** 21888242871839275222246405745257275088548364400416034343698204186575808495617 == 2) { r = 2; }
    // p >> 1 is 0 >> 1 = 0 in the field; the tool computes floor(p / 2).
    if ((21888242871839275222246405745257275088548364400416034343698204186575808495617 >> 1) == 0) { r = 3; }
    return r;
}
