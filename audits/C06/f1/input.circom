pragma circom 2.0.0;

// `s` is assigned by a single statement, but that statement is guarded by a
// condition on an input signal (unknown at compile time; `<--` generates no
// constraint, so Circom accepts it). When `in != 0` the assignment is not
// executed and `s` does not hold 1.
template T() {
    signal input in;
    signal s;
    if (in == 0) {
        s <-- 1;
    }
    if (s == 1) {
        log(1);
    }
}

component main = T();
