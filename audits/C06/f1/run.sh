#!/bin/sh
# usage: run.sh <repository root>
# exit 0 iff property C06 holds on input.circom (no constant is claimed for `s == 1`).
ROOT="${1:?usage: run.sh <repository root>}"
DIR=$(cd "$(dirname "$0")" && pwd)
BIN="$ROOT/target/debug/circomspect"
if [ ! -x "$BIN" ]; then
    (cd "$ROOT" && cargo build --offline -p circomspect >/dev/null 2>&1) || { echo "build failed"; exit 2; }
fi
OUT=$("$BIN" "$DIR/input.circom" 2>&1)
# The only branch conditions are `in == 0` (never constant) and `s == 1`.
if printf '%s\n' "$OUT" | grep -q "This condition is always"; then
    printf '%s\n' "$OUT" | grep -B4 "This condition is always"
    echo "C06 VIOLATED: a constant is claimed for \`s == 1\`, which is false whenever in != 0"
    exit 1
fi
echo "C06 holds on this input"
exit 0
