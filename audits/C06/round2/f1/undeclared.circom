pragma circom 2.0.0;
function f(c) {
    if (c == 1) {
        x = 5;
    }
    if (x == 5) {
        return 1;
    }
    return 0;
}
