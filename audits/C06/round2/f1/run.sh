#!/bin/sh
# usage: run.sh <repository root>
# Exits 0 iff property C06 holds on undeclared.circom, i.e. the tool does NOT claim that the
# condition `x == 5` (line 6) is constant: `x` is only assigned when `c == 1`.
root=${1:-$(cd "$(dirname "$0")/../.." && pwd)}
here=$(cd "$(dirname "$0")" && pwd)
bin="$root/target/debug/circomspect"
if [ ! -x "$bin" ]; then
    (cd "$root" && cargo build --offline -p circomspect >/dev/null 2>&1) || { echo "build failed"; exit 2; }
fi
out=$("$bin" "$here/undeclared.circom" 2>&1)
echo "$out"
if echo "$out" | grep -q "This condition is always"; then
    echo "C06 VIOLATED: a constant is claimed for a condition on a variable that is assigned on one path only"
    exit 1
fi
exit 0
