#!/bin/bash
# Exits 0 iff the property holds: the tool ends with exit status 0 or 1 (no panic) when its
# standard output cannot be written: (1) stdout is /dev/full, (2) stdout is a pipe whose reader
# has gone (`circomspect input.circom | head -n 0`). On the pinned tree both runs panic in
# program_structure/src/utils/writers.rs and the process exits with status 101.
ROOT="${1:?usage: run.sh <repository root>}"; HERE="$(cd "$(dirname "$0")" && pwd)"
BIN="$ROOT/target/debug/circomspect"
if [ ! -x "$BIN" ]; then
  (cd "$ROOT" && cargo build --offline -p circomspect >/dev/null 2>&1) || { echo "build failed"; exit 2; }
fi
ok=0
err=$(mktemp)
"$BIN" "$HERE/input.circom" >/dev/full 2>"$err"; rc=$?
echo "stdout=/dev/full: exit status $rc; $(grep -m1 panicked "$err")"
if [ $rc -ne 0 ] && [ $rc -ne 1 ]; then ok=1; fi
# A reader which exits at once: the writer gets EPIPE (Rust ignores SIGPIPE).
{ "$BIN" "$HERE/input.circom" 2>"$err"; echo $? >"$err.rc"; } | sleep 0 
sleep 0.5
rc=$(cat "$err.rc" 2>/dev/null || echo 255)
echo "stdout=closed pipe: exit status $rc; $(grep -m1 panicked "$err")"
if [ "$rc" -ne 0 ] && [ "$rc" -ne 1 ]; then ok=1; fi
rm -f "$err" "$err.rc"
exit $ok
