pragma circom 2.0.0;
template T() {
    signal input a;
    signal output b;
    b <-- a;
}
