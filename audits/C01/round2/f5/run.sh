#!/bin/bash
# Exits 0 iff the property holds: `b <== a + a + ... + a` with 20000 terms (40 KB) is analysed
# within 120 s using at most 1.5 GB, and `return x[x[...x[0]...]]` nested 1000 deep (3 KB) is
# analysed within 60 s. On the pinned tree the first needs more than 10 minutes and more than
# 3.7 GB, the second about 200 s.
ROOT="${1:?usage: run.sh <repository root>}"; HERE="$(cd "$(dirname "$0")" && pwd)"
. "$HERE/common.sh"
ok=0
bounded "$HERE/nested_access_1000.circom" 60 1500000 || ok=1
bounded "$HERE/sum_20000_terms.circom" 120 1500000 || ok=1
exit $ok
