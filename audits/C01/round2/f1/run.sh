#!/bin/bash
# Exits 0 iff the property holds: both inputs (15 KB and 24 KB) are analysed within 120 s using
# at most 1.5 GB. On the pinned tree the first needs ~4 GB (~60 s), the second ~2.5 GB.
ROOT="${1:?usage: run.sh <repository root>}"; HERE="$(cd "$(dirname "$0")" && pwd)"
. "$HERE/common.sh"
ok=0
bounded "$HERE/nested_anonymous_3000.circom" 120 1500000 || ok=1
bounded "$HERE/nested_tuples_3000.circom" 120 1500000 || ok=1
exit $ok
