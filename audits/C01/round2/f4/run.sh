#!/bin/bash
# Exits 0 iff the property holds: a template with a chain of 1600 intermediate signals (52 KB)
# is analysed within 120 s. On the pinned tree it takes about 8.5 minutes (800 signals: 69 s,
# 400: 8 s, 200: 1.3 s, i.e. cubic).
ROOT="${1:?usage: run.sh <repository root>}"; HERE="$(cd "$(dirname "$0")" && pwd)"
. "$HERE/common.sh"
bounded "$HERE/signal_chain_1600.circom" 120 2000000
