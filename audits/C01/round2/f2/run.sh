#!/bin/bash
# Exits 0 iff the property holds: a function with 4000 consecutive `if (x == 1) { y += 1; }`
# statements (96 KB) is analysed within 120 s using at most 1 GB. On the pinned tree it takes
# about 6 minutes and 1.2 GB (most of it in DominatorTree::new).
ROOT="${1:?usage: run.sh <repository root>}"; HERE="$(cd "$(dirname "$0")" && pwd)"
. "$HERE/common.sh"
bounded "$HERE/sequential_ifs_4000.circom" 120 1000000
