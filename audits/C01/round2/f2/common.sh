# Shared helpers for the run.sh scripts. Source with ROOT set to the repository root.
BIN="$ROOT/target/debug/circomspect"
if [ ! -x "$BIN" ]; then
  (cd "$ROOT" && cargo build --offline -p circomspect >/dev/null 2>&1) || { echo "build failed"; exit 2; }
fi
# bounded FILE SECONDS MAXRSS_KB [extra args...]
# Returns 0 iff the tool ends by itself within SECONDS with exit status 0 or 1, prints its
# summary line, and needs at most MAXRSS_KB of memory.
bounded() {
  local file="$1" secs="$2" maxrss="$3"; shift 3
  local tmp; tmp=$(mktemp); local out; out=$(mktemp)
  if [ -x /usr/bin/time ]; then
    /usr/bin/time -o "$tmp" -f "%M" timeout "$secs" "$BIN" "$file" "$@" >"$out" 2>&1
    local rc=$?
    local rss; rss=$(tail -1 "$tmp")
  else
    timeout "$secs" "$BIN" "$file" "$@" >"$out" 2>&1
    local rc=$?; local rss=0
  fi
  local last; last=$(tail -1 "$out" | tr -d '\0')
  echo "  $(basename "$file"): exit status $rc, peak RSS ${rss} KB, last line: ${last:0:80}"
  rm -f "$tmp" "$out"
  if [ $rc -ne 0 ] && [ $rc -ne 1 ]; then echo "  -> did not end with status 0/1 within ${secs}s"; return 1; fi
  case "$last" in *"issue found."|*"issues found."|*"No issues found.") ;; *) echo "  -> no summary line"; return 1;; esac
  if [ "$rss" -gt "$maxrss" ]; then echo "  -> needed more than ${maxrss} KB"; return 1; fi
  return 0
}
