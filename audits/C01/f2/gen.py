#!/usr/bin/env python3
# Regenerates seqif1000.circom (a function with n consecutive if statements).
import sys
n = int(sys.argv[1]) if len(sys.argv) > 1 else 1000
print("pragma circom 2.0.0;\nfunction f(x) {\n    var r = 0;")
for i in range(n):
    print(f"    if (x == {i}) {{ r = {i}; }}")
print("    return r;\n}")
