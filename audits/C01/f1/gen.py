#!/usr/bin/env python3
# Regenerates sum3000.circom (a template whose output is a sum of n+1 terms).
import sys
n = int(sys.argv[1]) if len(sys.argv) > 1 else 3000
print("pragma circom 2.0.0;\ntemplate T() {\n    signal input a;\n    signal output b;\n    b <== " + "a+" * n + "a;\n}")
