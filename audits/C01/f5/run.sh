#!/bin/bash
# Usage: run.sh <repository root>
# Exits 0 iff property C01 (totality) HOLDS: with standard output connected to a device that
# rejects writes (/dev/full), or to a pipe whose reader has gone (`| head -n 0`), the tool must
# not panic; it must end with exit status 0 or 1.
ROOT=${1:?usage: run.sh <repository root>}
HERE=$(cd "$(dirname "$0")" && pwd)
(cd "$ROOT" && cargo build --offline -p circomspect >/dev/null 2>&1) || { echo "build failed" >&2; exit 2; }
BIN="$ROOT/target/debug/circomspect"
ERR=$(mktemp)
timeout 60 "$BIN" "$HERE/input.circom" >/dev/full 2>"$ERR"
rc=$?
echo "exit status with stdout=/dev/full: $rc" >&2
grep -a "panicked" "$ERR" | head -n 2 >&2
bad=0
if [ "$rc" != 0 ] && [ "$rc" != 1 ]; then bad=1; fi
if grep -aq "panicked" "$ERR"; then bad=1; fi
rm -f "$ERR"
exit $bad
