#!/usr/bin/env python3
# Regenerates nested30000.circom (a function whose body is n nested blocks).
import sys
n = int(sys.argv[1]) if len(sys.argv) > 1 else 30000
print("pragma circom 2.0.0;\nfunction f() {\n" + "{" * n + " return 1; " + "}" * n + "\n}")
