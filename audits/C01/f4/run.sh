#!/bin/bash
# Usage: run.sh <repository root>
# Exits 0 iff property C01 (totality) HOLDS for the input in this directory:
# the tool must terminate by itself within the time budget, with exit status 0 or 1,
# after printing its summary line ("... issue(s) found." / "No issues found.").
ROOT=${1:?usage: run.sh <repository root>}
HERE=$(cd "$(dirname "$0")" && pwd)
(cd "$ROOT" && cargo build --offline -p circomspect >/dev/null 2>&1) || { echo "build failed" >&2; exit 2; }
BIN="$ROOT/target/debug/circomspect"
OUT=$(mktemp); ERR=$(mktemp)

timeout 300 "$BIN" "$HERE/nested30000.circom" >"$OUT" 2>"$ERR"
rc=$?
last=$(grep -a "circomspect:" "$OUT" | tail -n 1)
echo "exit status: $rc (124 = killed after 300 s); last line: $last" >&2
grep -aE "panicked|overflowed|memory allocation" "$ERR" | head -n 3 >&2
rm -f "$OUT" "$ERR"
if [ "$rc" != 0 ] && [ "$rc" != 1 ]; then exit 1; fi
case "$last" in *"found.") exit 0 ;; *) exit 1 ;; esac
