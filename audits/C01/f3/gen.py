#!/usr/bin/env python3
# Regenerates sigchain200.circom (n-1 intermediate signals, each the square of the previous one).
import sys
n = int(sys.argv[1]) if len(sys.argv) > 1 else 200
print("pragma circom 2.0.0;\ntemplate T() {\n    signal input s0;")
for i in range(1, n):
    print(f"    signal s{i}; s{i} <== s{i-1} * s{i-1};")
print(f"    signal output o; o <== s{n-1};\n}}\ncomponent main = T();")
