pragma circom 2.0.0;
include "circomlib_min.circom";

// 21888242871839275222246405745257275088548364400416034343698204186575808495617
// is the BN254 scalar field prime p, i.e. the field element 0. The condition of
// the inline switch is therefore false and the size is 254.
template T() {
    signal input x;
    signal output out;

    var k = 21888242871839275222246405745257275088548364400416034343698204186575808495617 ? 8 : 254;

    component rc = Num2Bits(k);
    rc.in <== x;

    component lt = LessThan(8);
    lt.in[0] <== x;
    lt.in[1] <== x;
    out <== lt.out;
}

component main = T();
