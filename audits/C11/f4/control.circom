pragma circom 2.0.0;
include "circomlib_min.circom";

// Same as input.circom with the condition written as `p + 0` (reduced by the
// addition) and as `p == 0`: here the tool agrees that the size is 254.
template T() {
    signal input x;
    signal output out;

    var k = (21888242871839275222246405745257275088548364400416034343698204186575808495617 + 0) ? 8 : 254;

    component rc = Num2Bits(k);
    rc.in <== x;

    component lt = LessThan(8);
    lt.in[0] <== x;
    lt.in[1] <== x;
    out <== lt.out;
}

component main = T();
