#!/bin/bash
# Usage: run.sh <repository root>
# Exits 0 iff property C11 holds on input.circom under the default curve:
# k = (p ? 8 : 254) is 254 because the literal p is the field element 0, so
#  * `Num2Bits(k)` must be flagged (CS0010), and
#  * the LessThan input `x` must not count as range-checked by it (CS0014).
ROOT="${1:?usage: run.sh <repository root>}"
HERE="$(cd "$(dirname "$0")" && pwd)"
BIN="$ROOT/target/debug/circomspect"
if [ ! -x "$BIN" ]; then
    (cd "$ROOT" && cargo build --offline -p circomspect >/dev/null 2>&1) || { echo "build failed"; exit 2; }
fi
status=0
out="$("$BIN" "$HERE/input.circom" 2>&1)"
if echo "$out" | grep -q 'Using `Num2Bits` to convert field elements to bits may lead to aliasing issues'; then
    echo "Num2Bits(p ? 8 : 254) flagged (property holds)"
else
    echo "Num2Bits(p ? 8 : 254) NOT flagged although the size is 254 (VIOLATION)"
    status=1
fi
if echo "$out" | grep -q '`x` needs to be constrained to ensure that it is <= p/2'; then
    echo "LessThan input x reported (property holds)"
else
    echo "LessThan input x counts as range-checked by Num2Bits(p ? 8 : 254) = Num2Bits(254) (VIOLATION)"
    status=1
fi
exit $status
