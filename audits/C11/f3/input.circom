pragma circom 2.0.0;

// Stand-ins with the Circomlib names and interfaces; the checks go by template name.
template Num2Bits(n) {
    signal input in;
    signal output out[n];
    var lc1=0;

    var e2=1;
    for (var i = 0; i<n; i++) {
        out[i] <-- (in >> i) & 1;
        out[i] * (out[i] -1 ) === 0;
        lc1 += out[i] * e2;
        e2 = e2+e2;
    }

    lc1 === in;
}

template MiMC7(nrounds) {
    signal input x_in;
    signal input k;
    signal output out;
    out <== x_in + k + nrounds;
}

// The component is initialised by an inline switch whose branches instantiate
// the same template with different parameters.
template T(wide) {
    signal input in;
    signal output out;

    component n2b = wide == 1 ? Num2Bits(254) : Num2Bits(300);
    n2b.in <== in;

    component h = wide == 1 ? MiMC7(91) : MiMC7(220);
    h.x_in <== in;
    h.k <== n2b.out[0];
    out <== h.out;
}

component main = T(1);
