#!/bin/bash
# Usage: run.sh <repository root>
# Exits 0 iff property C11 holds on input.circom:
#  * default curve: the Num2Bits instantiation on line 33 (size 254 or 300) is flagged (CS0010);
#  * GOLDILOCKS:    the MiMC7 instantiation on line 36 is flagged as BN254 specific (CS0016).
ROOT="${1:?usage: run.sh <repository root>}"
HERE="$(cd "$(dirname "$0")" && pwd)"
BIN="$ROOT/target/debug/circomspect"
if [ ! -x "$BIN" ]; then
    (cd "$ROOT" && cargo build --offline -p circomspect >/dev/null 2>&1) || { echo "build failed"; exit 2; }
fi
status=0
out="$("$BIN" "$HERE/input.circom" 2>&1)"
if echo "$out" | grep -q '^error'; then echo "input rejected: $out"; exit 0; fi
if echo "$out" | grep -q 'Using `Num2Bits` to convert field elements to bits may lead to aliasing issues'; then
    echo "BN254: Num2Bits(254|300) flagged (property holds)"
else
    echo "BN254: Num2Bits(254|300) instantiated through an inline switch NOT flagged (VIOLATION)"
    status=1
fi
out="$("$BIN" "$HERE/input.circom" -c GOLDILOCKS 2>&1)"
if echo "$out" | grep -q 'The `MiMC7` template relies on BN254 specific parameters'; then
    echo "GOLDILOCKS: MiMC7 flagged (property holds)"
else
    echo "GOLDILOCKS: MiMC7 instantiated through an inline switch NOT flagged (VIOLATION)"
    status=1
fi
exit $status
