#!/bin/bash
# Usage: run.sh <repository root>
# Exits 0 iff property C11 holds on the two inputs:
#  * main_sign.circom     : `component main = Sign();` must be flagged as BN254 specific
#                           under BLS12_381 and GOLDILOCKS (and not under BN254);
#  * main_num2bits.circom : `component main = Num2Bits(254);` must be flagged as a
#                           non-strict binary conversion under the default curve.
ROOT="${1:?usage: run.sh <repository root>}"
HERE="$(cd "$(dirname "$0")" && pwd)"
BIN="$ROOT/target/debug/circomspect"
if [ ! -x "$BIN" ]; then
    (cd "$ROOT" && cargo build --offline -p circomspect >/dev/null 2>&1) || { echo "build failed"; exit 2; }
fi
status=0
for curve in BLS12_381 GOLDILOCKS; do
    out="$("$BIN" "$HERE/main_sign.circom" -c "$curve" 2>&1)"
    if echo "$out" | grep -q 'The `Sign` template relies on BN254 specific parameters'; then
        echo "$curve: main = Sign() flagged (property holds)"
    else
        echo "$curve: main = Sign() NOT flagged (VIOLATION): $(echo "$out" | tail -1)"
        status=1
    fi
done
out="$("$BIN" "$HERE/main_sign.circom" -c BN254 2>&1)"
if echo "$out" | grep -q 'relies on BN254 specific parameters'; then
    echo "BN254: main = Sign() flagged under BN254 (VIOLATION)"; status=1
fi
out="$("$BIN" "$HERE/main_num2bits.circom" 2>&1)"
if echo "$out" | grep -q 'Using `Num2Bits` to convert field elements to bits may lead to aliasing issues'; then
    echo "default curve: main = Num2Bits(254) flagged (property holds)"
else
    echo "default curve: main = Num2Bits(254) NOT flagged (VIOLATION): $(echo "$out" | tail -1)"
    status=1
fi
exit $status
