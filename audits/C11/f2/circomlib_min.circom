pragma circom 2.0.0;

// Verbatim copies of the Circomlib templates `Num2Bits` (bitify.circom),
// `CompConstant` (compconstant.circom) and `Sign` (sign.circom).
template Num2Bits(n) {
    signal input in;
    signal output out[n];
    var lc1=0;

    var e2=1;
    for (var i = 0; i<n; i++) {
        out[i] <-- (in >> i) & 1;
        out[i] * (out[i] -1 ) === 0;
        lc1 += out[i] * e2;
        e2 = e2+e2;
    }

    lc1 === in;
}

template CompConstant(ct) {
    signal input in[254];
    signal output out;

    signal parts[127];
    signal sout;

    var clsb;
    var cmsb;
    var slsb;
    var smsb;

    var sum=0;

    var b = (1 << 128) -1;
    var a = 1;
    var e = 1;
    var i;

    for (i=0;i<127; i++) {
        clsb = (ct >> (i*2)) & 1;
        cmsb = (ct >> (i*2+1)) & 1;
        slsb = in[i*2];
        smsb = in[i*2+1];

        if ((cmsb==0)&&(clsb==0)) {
            parts[i] <== -b*smsb*slsb + b*smsb + b*slsb;
        } else if ((cmsb==0)&&(clsb==1)) {
            parts[i] <== a*smsb*slsb - a*slsb + b*smsb - a*smsb + a;
        } else if ((cmsb==1)&&(clsb==0)) {
            parts[i] <== b*smsb*slsb - a*smsb + a;
        } else {
            parts[i] <== -a*smsb*slsb + a;
        }

        sum = sum + parts[i];

        b = b -e;
        a = a +e;
        e = e*2;
    }

    sout <== sum;

    component num2bits = Num2Bits(135);

    num2bits.in <== sout;

    out <== num2bits.out[127];
}

template Sign() {
    signal input in[254];
    signal output sign;

    component comp = CompConstant(10944121435919637611123202872628637544274182200208017171849102093287904247808);

    var i;

    for (i=0; i<254; i++) {
        comp.in[i] <== in[i];
    }

    sign <== comp.out;
}
