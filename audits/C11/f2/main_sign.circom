pragma circom 2.0.0;
include "circomlib_min.circom";

component main = Sign();
