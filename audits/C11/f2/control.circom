pragma circom 2.0.0;
include "circomlib_min.circom";

// The same two instantiations inside a template: both are reported.
template Wrapper() {
    signal input a[254];
    signal input b;
    signal output s;
    signal output bits[254];
    component sign = Sign();
    sign.in <== a;
    s <== sign.sign;
    component n2b = Num2Bits(254);
    n2b.in <== b;
    bits <== n2b.out;
}
