pragma circom 2.0.0;

// Same circuit with the index written as the constant it is.
template T() {
    signal input x;
    signal input y;
    signal output o;

    component n2b[3];
    var i;
    for (i = 0; i < 2; i++) {
        n2b[i] = Num2Bits(8);
        n2b[i].in <== y;
    }
    n2b[2] = Num2Bits(254);
    n2b[2].in <== x;

    component lt = LessThan(8);
    lt.in[0] <== x;
    lt.in[1] <== y;
    o <== lt.out;
}
