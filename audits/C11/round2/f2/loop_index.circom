pragma circom 2.0.0;

// The templates Num2Bits and LessThan are Circomlib's (bitify.circom, comparators.circom).
template T() {
    signal input x;
    signal input y;
    signal output o;

    component n2b[3];
    var i;
    for (i = 0; i < 2; i++) {
        n2b[i] = Num2Bits(8);
        n2b[i].in <== y;
    }
    // Here i == 2.
    n2b[2] = Num2Bits(254);
    n2b[i].in <== x;        // x is an input of n2b[2] = Num2Bits(254) only.

    component lt = LessThan(8);
    lt.in[0] <== x;         // must be reported: no Num2Bits(k) with 2^k - 1 <= p/2 checks x.
    lt.in[1] <== y;
    o <== lt.out;
}
