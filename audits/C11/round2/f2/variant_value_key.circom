pragma circom 2.0.0;
template T() {
    signal input a[3];
    signal output o;
    component n2b[2];
    var i;
    for (i = 0; i < 2; i++) {
        n2b[i] = Num2Bits(8);
        n2b[i].in <== a[i];
    }
    component lt = LessThan(8);
    lt.in[0] <== a[i];
    lt.in[1] <== a[0];
    o <== lt.out;
}
