#!/bin/sh
# Usage: run.sh <repository root>. Exits 0 iff property C11 holds on the input.
ROOT="${1:?repository root}"
HERE="$(cd "$(dirname "$0")" && pwd)"
BIN="$ROOT/target/debug/circomspect"
if [ ! -x "$BIN" ]; then
    (cd "$ROOT" && cargo build --offline -p circomspect >/dev/null 2>&1) || exit 2
fi
MSG='`x` needs to be constrained to ensure that it is <= p/2.'
fail=0
for curve in bn254 bls12_381 goldilocks; do
    # Control: with the constant index the input x of LessThan is reported.
    "$BIN" -c "$curve" "$HERE/control.circom" 2>&1 | grep -qF "$MSG" || { echo "control not flagged under $curve (harness problem)"; exit 2; }
    # x is only an input of Num2Bits(254); 2^254 - 1 > p/2 for all three curves.
    if ! "$BIN" -c "$curve" "$HERE/loop_index.circom" 2>&1 | grep -qF "$MSG"; then
        echo "VIOLATION ($curve): x counts as range checked although it is only an input of Num2Bits(254)"
        fail=1
    fi
done
exit $fail
