pragma circom 2.0.0;

// The case repaired by b3b1ebe: the other instantiation is also called Num2Bits.
template T(strict) {
    signal input x;
    signal input y;
    signal output o;

    component rc;
    if (strict) {
        rc = Num2Bits(254);
    } else {
        rc = Num2Bits(64);
    }
    rc.in <== x;

    component lt = LessThan(64);
    lt.in[0] <== x;
    lt.in[1] <== y;
    o <== lt.out;
}
