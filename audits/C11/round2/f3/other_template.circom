pragma circom 2.0.0;

// Num2Bits, Num2Bits_strict (both with input `in`) and LessThan are Circomlib's.
template T(strict) {
    signal input x;
    signal input y;
    signal output o;

    component rc;
    if (strict) {
        rc = Num2Bits_strict();   // 254 bits: x < p, which says nothing about the sign of x.
    } else {
        rc = Num2Bits(64);
    }
    rc.in <== x;

    component lt = LessThan(64);
    lt.in[0] <== x;               // must be reported: for strict != 0 no Num2Bits(k) checks x.
    lt.in[1] <== y;
    o <== lt.out;
}
