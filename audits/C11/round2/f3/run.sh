#!/bin/sh
# Usage: run.sh <repository root>. Exits 0 iff property C11 holds on the input.
ROOT="${1:?repository root}"
HERE="$(cd "$(dirname "$0")" && pwd)"
BIN="$ROOT/target/debug/circomspect"
if [ ! -x "$BIN" ]; then
    (cd "$ROOT" && cargo build --offline -p circomspect >/dev/null 2>&1) || exit 2
fi
MSG='`x` needs to be constrained to ensure that it is <= p/2.'
fail=0
# 2^64 - 1 > p/2 under Goldilocks, so there x has to be reported in any case; the finding is
# about BN254 and BLS12-381, where Num2Bits(64) alone would be a sufficient range check.
for curve in bn254 bls12_381; do
    "$BIN" -c "$curve" "$HERE/control.circom" 2>&1 | grep -qF "$MSG" || { echo "control not flagged under $curve (harness problem)"; exit 2; }
    if ! "$BIN" -c "$curve" "$HERE/other_template.circom" 2>&1 | grep -qF "$MSG"; then
        echo "VIOLATION ($curve): x counts as range checked by Num2Bits(64) although rc may be Num2Bits_strict()"
        fail=1
    fi
done
exit $fail
