pragma circom 2.0.0;

// Stand-in for Circomlib's Sign (circuits/sign.circom), which hard-codes a BN254 constant.
template Sign() {
    signal input in[254];
    signal output sign;
    sign <== in[253];
}

// The only instantiation of Sign in the program.
component main = Sign();
