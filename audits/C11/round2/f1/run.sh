#!/bin/sh
# Usage: run.sh <repository root>. Exits 0 iff property C11 holds on the inputs.
ROOT="${1:?repository root}"
HERE="$(cd "$(dirname "$0")" && pwd)"
BIN="$ROOT/target/debug/circomspect"
if [ ! -x "$BIN" ]; then
    (cd "$ROOT" && cargo build --offline -p circomspect >/dev/null 2>&1) || exit 2
fi
N2B='Using `Num2Bits` to convert field elements to bits'
BN='The `Sign` template relies on BN254 specific parameters'
fail=0

# Control: the same instantiation is flagged when it occurs in a template body.
"$BIN" "$HERE/wrapped_control.circom" 2>&1 | grep -qF "$N2B" || { echo "control not flagged (harness problem)"; exit 2; }

# 1. `component main = Num2Bits(254);` under the default curve must be flagged.
if ! "$BIN" "$HERE/main_num2bits.circom" 2>&1 | grep -qF "$N2B"; then
    echo "VIOLATION: Num2Bits(254) instantiated as the main component is not flagged under BN254"
    fail=1
fi

# 2. `component main = Sign();` must be flagged under Goldilocks and BLS12-381, never under BN254.
for curve in goldilocks bls12_381; do
    if ! "$BIN" -c "$curve" "$HERE/main_sign.circom" 2>&1 | grep -qF "$BN"; then
        echo "VIOLATION: Sign() instantiated as the main component is not flagged under $curve"
        fail=1
    fi
done
if "$BIN" -c bn254 "$HERE/main_sign.circom" 2>&1 | grep -qF "$BN"; then
    echo "VIOLATION: Sign() flagged under BN254"; fail=1
fi
exit $fail
