pragma circom 2.0.0;

// Circomlib's Num2Bits (circuits/bitify.circom).
template Num2Bits(n) {
    signal input in;
    signal output out[n];
    var lc1 = 0;
    var e2 = 1;
    for (var i = 0; i < n; i++) {
        out[i] <-- (in >> i) & 1;
        out[i] * (out[i] - 1) === 0;
        lc1 += out[i] * e2;
        e2 = e2 + e2;
    }
    lc1 === in;
}

// The only instantiation of Num2Bits in the program: 254 bits, default curve.
component main = Num2Bits(254);
