pragma circom 2.1.0;
include "lib.circom";

template T() {
    signal input x;
    signal input y;
    signal output o;

    _ <== Num2Bits(254)(x);
    _ <== Num2Bits(254)(y);
    o <== LessThan(8)([x, y]);
}
