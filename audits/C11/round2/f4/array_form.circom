pragma circom 2.1.0;
include "lib.circom";

// Both inputs of LessThan are checked by Num2Bits(254) only; 2^254 - 1 > p/2.
template T() {
    signal input x;
    signal input y;
    signal output o;

    component bx = Num2Bits(254);
    bx.in <== x;
    component by = Num2Bits(254);
    by.in <== y;

    component lt = LessThan(8);
    lt.in <== [x, y];
    o <== lt.out;
}
