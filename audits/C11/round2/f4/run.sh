#!/bin/sh
# Usage: run.sh <repository root>. Exits 0 iff property C11 holds on the inputs.
ROOT="${1:?repository root}"
HERE="$(cd "$(dirname "$0")" && pwd)"
BIN="$ROOT/target/debug/circomspect"
if [ ! -x "$BIN" ]; then
    (cd "$ROOT" && cargo build --offline -p circomspect >/dev/null 2>&1) || exit 2
fi
MSG='Inputs to `LessThan` need to be constrained'
fail=0
for curve in bn254 bls12_381 goldilocks; do
    n=$("$BIN" -c "$curve" "$HERE/control.circom" 2>&1 | grep -cF "$MSG")
    [ "$n" = 2 ] || { echo "control: $n warnings under $curve, expected 2 (harness problem)"; exit 2; }
    for f in array_form anonymous_form; do
        out=$("$BIN" -c "$curve" "$HERE/$f.circom" 2>&1)
        if echo "$out" | grep -q '^error'; then echo "$f: unexpected error"; exit 2; fi
        n=$(echo "$out" | grep -cF "$MSG")
        if [ "$n" = 0 ]; then
            echo "VIOLATION ($curve, $f): the inputs of LessThan are only checked by Num2Bits(254) and are not reported"
            fail=1
        fi
    done
done
exit $fail
