pragma circom 2.1.0;
include "lib.circom";

template T() {
    signal input x;
    signal input y;
    signal output o;

    component bx = Num2Bits(254);
    bx.in <== x;
    component by = Num2Bits(254);
    by.in <== y;

    component lt = LessThan(8);
    lt.in[0] <== x;
    lt.in[1] <== y;
    o <== lt.out;
}
