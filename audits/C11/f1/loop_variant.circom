pragma circom 2.1.0;
include "circomlib_min.circom";
template T(n) {
  signal input x[n];
  signal output o[n];
  component rc[n];
  component lt[n];
  for (var i = 0; i < n; i++) {
    if (i == 0) { rc[i] = Num2Bits(254); } else { rc[i] = Num2Bits(8); }
    rc[i].in <== x[i];
    lt[i] = LessThan(8);
    lt[i].in[0] <== x[i];
    lt[i].in[1] <== x[i];
    o[i] <== lt[i].out;
  }
}
