#!/bin/bash
# Usage: run.sh <repository root>
# Exits 0 iff property C11 holds on input.circom: under every curve the input `x`
# of `LessThan` must be reported, since the component that range-checks it is
# `Num2Bits(254)` when `wide == 1` (2^254 - 1 > p/2 for all three curves).
ROOT="${1:?usage: run.sh <repository root>}"
HERE="$(cd "$(dirname "$0")" && pwd)"
BIN="$ROOT/target/debug/circomspect"
if [ ! -x "$BIN" ]; then
    (cd "$ROOT" && cargo build --offline -p circomspect >/dev/null 2>&1) || { echo "build failed"; exit 2; }
fi
status=0
for curve in BN254 BLS12_381 GOLDILOCKS; do
    out="$("$BIN" "$HERE/input.circom" -c "$curve" 2>&1)"
    if echo "$out" | grep -q '`x` needs to be constrained to ensure that it is <= p/2'; then
        echo "$curve: LessThan input x reported (property holds)"
    else
        echo "$curve: LessThan input x NOT reported although it is only checked by Num2Bits(254) when wide == 1 (VIOLATION)"
        status=1
    fi
done
exit $status
