pragma circom 2.0.0;
include "circomlib_min.circom";

// Same template with the two branches swapped: here the tool DOES report `x`.
template T(wide) {
    signal input x;
    signal output out;

    component rc;
    if (wide != 1) {
        rc = Num2Bits(8);
    } else {
        rc = Num2Bits(254);
    }
    rc.in <== x;

    component lt = LessThan(8);
    lt.in[0] <== x;
    lt.in[1] <== x;
    out <== lt.out;
}

component main = T(1);
