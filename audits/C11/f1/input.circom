pragma circom 2.0.0;
include "circomlib_min.circom";

// `wide` is a template parameter, so the condition is known at compile time
// and the component `rc` may be assigned in both branches (valid Circom).
// For wide == 1 the only range check on `x` is Num2Bits(254), which does not
// exclude values above p/2.
template T(wide) {
    signal input x;
    signal output out;

    component rc;
    if (wide == 1) {
        rc = Num2Bits(254);
    } else {
        rc = Num2Bits(8);
    }
    rc.in <== x;

    component lt = LessThan(8);
    lt.in[0] <== x;
    lt.in[1] <== x;
    out <== lt.out;
}

component main = T(1);
