pragma circom 2.0.0;
include "bad.circom";
template X() {
    signal input a;
    signal output b;
    b <== a;
}
