pragma circom 2.0.0;
// The next line is not valid UTF-8 (a Latin-1 comment), so the file cannot be read as a string.
// café
template B() {
    signal input a;
}
