#!/bin/sh
# Usage: run.sh <repository root>
# Exits 0 iff `circomspect x.circom z.circom` and `circomspect z.circom x.circom` display the
# same findings and return the same exit status.
ROOT=${1:?usage: run.sh <repository root>}
HERE=$(cd "$(dirname "$0")" && pwd)
BIN="$ROOT/target/debug/circomspect"
if [ ! -x "$BIN" ]; then
    (cd "$ROOT" && cargo build --offline -p circomspect >/dev/null 2>&1) || { echo "build failed"; exit 2; }
fi
WORK=$(mktemp -d)
trap 'rm -rf "$WORK"' EXIT
cd "$HERE" || exit 2
"$BIN" x.circom z.circom > "$WORK/xz.out" 2>&1; echo "exit status $?" >> "$WORK/xz.out"
"$BIN" z.circom x.circom > "$WORK/zx.out" 2>&1; echo "exit status $?" >> "$WORK/zx.out"
# The order in which the findings (and the progress messages) are displayed is not compared.
sort "$WORK/xz.out" > "$WORK/xz.sorted"
sort "$WORK/zx.out" > "$WORK/zx.sorted"
if cmp -s "$WORK/xz.sorted" "$WORK/zx.sorted"; then
    echo "same findings"
    exit 0
else
    echo "DIFFERENT findings for the same files in another order:"
    echo "--- circomspect x.circom z.circom"; cat "$WORK/xz.out"
    echo "--- circomspect z.circom x.circom"; cat "$WORK/zx.out"
    exit 1
fi
