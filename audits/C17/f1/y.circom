pragma circom 2.0.0;
include "bad.circom";
template Y() {
    signal input a;
    signal output b;
    b <== a;
}
