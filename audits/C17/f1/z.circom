pragma circom 2.0.0;
include "y.circom";
template Z() {
    signal input a;
    signal output b;
    b <== a;
}
