#!/bin/sh
# Usage: run.sh <repository root>
# ap.circom and pa.circom contain the same two definitions (A and P) in the two possible orders.
# Exits 0 iff the tool displays the same findings (messages and label texts; line numbers are
# not compared) and returns the same exit status for both files.
ROOT=${1:?usage: run.sh <repository root>}
HERE=$(cd "$(dirname "$0")" && pwd)
BIN="$ROOT/target/debug/circomspect"
if [ ! -x "$BIN" ]; then
    (cd "$ROOT" && cargo build --offline -p circomspect >/dev/null 2>&1) || { echo "build failed"; exit 2; }
fi
WORK=$(mktemp -d)
trap 'rm -rf "$WORK"' EXIT
cd "$HERE" || exit 2
# Check that the files have the same definitions.
{ sed -n 1p ap.circom; sed -n '7,13p' ap.circom; sed -n '2,6p' ap.circom; } | cmp -s - pa.circom || { echo "pa.circom is not ap.circom reordered"; exit 2; }
normalise() {
    # Keep the messages, the source lines and the label texts; drop file names and line numbers.
    grep -v '^circomspect: analyzing' | sed -e 's/^ *[0-9]* │/│/' -e 's/^ *//' -e 's/┌─ .*$/┌─/' | sort
}
"$BIN" ap.circom > "$WORK/ap.raw" 2>&1; echo "exit status $?" >> "$WORK/ap.raw"
"$BIN" pa.circom > "$WORK/pa.raw" 2>&1; echo "exit status $?" >> "$WORK/pa.raw"
normalise < "$WORK/ap.raw" > "$WORK/ap.norm"
normalise < "$WORK/pa.raw" > "$WORK/pa.norm"
if cmp -s "$WORK/ap.norm" "$WORK/pa.norm"; then
    echo "same findings"
    exit 0
else
    echo "DIFFERENT findings for the same definitions in another order:"
    echo "--- ap.circom (A, then P)"; cat "$WORK/ap.raw"
    echo "--- pa.circom (P, then A)"; cat "$WORK/pa.raw"
    exit 1
fi
