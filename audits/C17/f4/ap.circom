pragma circom 2.1.2;
template A() {
    signal input in;
    signal output out;
    out <== in;
}
template P() {
    signal input p;
    signal output r;
    var A_12_217 = 5;
    signal t <== p * A_12_217;
    r <== A()(t);
}
