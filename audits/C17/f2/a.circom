pragma circom 2.0.0;
include "lib1/t.circom";
template A() {
    signal input x;
    signal output y;
    component t = T();
    t.in <== x;
    y <== t.out;
}
