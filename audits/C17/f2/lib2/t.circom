pragma circom 2.0.0;
template T() {
    signal input in;
    signal output out;
    signal output aux;
    out <== in;
    aux <== in * in;
}
