#!/bin/sh
# Usage: run.sh <repository root>
# Exits 0 iff `circomspect a.circom b.circom` and `circomspect b.circom a.circom` display the
# same findings and return the same exit status.
ROOT=${1:?usage: run.sh <repository root>}
HERE=$(cd "$(dirname "$0")" && pwd)
BIN="$ROOT/target/debug/circomspect"
if [ ! -x "$BIN" ]; then
    (cd "$ROOT" && cargo build --offline -p circomspect >/dev/null 2>&1) || { echo "build failed"; exit 2; }
fi
WORK=$(mktemp -d)
trap 'rm -rf "$WORK"' EXIT
cd "$HERE" || exit 2
"$BIN" a.circom b.circom > "$WORK/ab.out" 2>&1; echo "exit status $?" >> "$WORK/ab.out"
"$BIN" b.circom a.circom > "$WORK/ba.out" 2>&1; echo "exit status $?" >> "$WORK/ba.out"
# The order in which the findings (and the progress messages) are displayed is not compared.
sort "$WORK/ab.out" > "$WORK/ab.sorted"
sort "$WORK/ba.out" > "$WORK/ba.sorted"
if cmp -s "$WORK/ab.sorted" "$WORK/ba.sorted"; then
    echo "same findings"
    exit 0
else
    echo "DIFFERENT findings for the same files in another order:"
    echo "--- circomspect a.circom b.circom"; cat "$WORK/ab.out"
    echo "--- circomspect b.circom a.circom"; cat "$WORK/ba.out"
    exit 1
fi
