pragma circom 2.0.0;
include "lib2/t.circom";
template B() {
    signal input x;
    signal output y;
    component t = T();
    t.in <== x;
    y <== t.out + t.aux;
}
