#!/usr/bin/env python3
"""Prints the sorted multiset of findings of one circomspect run (one JSON line per finding:
rule id, level, message, and for each label its kind, file name, start/end line:column and text).
usage: findings.py CIRCOMSPECT_BINARY ARGS...   (ARGS are passed to circomspect)"""
import json, os, subprocess, sys, tempfile

def findings(binary, args, cwd=None):
    fd, sarif = tempfile.mkstemp(suffix=".sarif")
    os.close(fd)
    os.unlink(sarif)
    proc = subprocess.run([binary, "-s", sarif] + list(args), capture_output=True, text=True, cwd=cwd)
    result = []
    if os.path.exists(sarif):
        with open(sarif) as handle:
            data = json.load(handle)
        os.unlink(sarif)
        for res in data["runs"][0]["results"]:
            labels = []
            for kind in ("locations", "relatedLocations"):
                for loc in res.get(kind, []):
                    phys = loc["physicalLocation"]
                    region = phys.get("region", {})
                    labels.append([kind, os.path.basename(phys["artifactLocation"]["uri"]),
                                   region.get("startLine"), region.get("startColumn"),
                                   region.get("endLine"), region.get("endColumn"),
                                   loc.get("message", {}).get("text")])
            labels.sort(key=json.dumps)
            result.append(json.dumps([res["ruleId"], res["level"], res["message"]["text"], labels]))
    result.sort()
    return proc.returncode, result

if __name__ == "__main__":
    code, result = findings(sys.argv[1], sys.argv[2:])
    print("exit status", code)
    for line in result:
        print(line)
