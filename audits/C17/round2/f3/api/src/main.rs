// Analyses the same sources twice with the same `AnalysisRunner` (public library API) and
// compares the findings of the two analyses.
use std::path::PathBuf;

use program_analysis::analysis_runner::AnalysisRunner;
use program_structure::constants::Curve;
use program_structure::file_definition::FileLibrary;
use program_structure::report::Report;
use program_structure::writers::{LogWriter, ReportWriter};

#[derive(Default)]
struct Collect {
    findings: Vec<String>,
}

impl LogWriter for Collect {
    fn write_messages<D: std::fmt::Display>(&mut self, _: &[D]) {}
}

impl ReportWriter for Collect {
    fn write_reports(&mut self, reports: &[Report], _: &FileLibrary) -> usize {
        for report in reports {
            self.findings.push(format!("{} {}", report.id(), report.message()));
        }
        reports.len()
    }
    fn reports_written(&self) -> usize {
        self.findings.len()
    }
}

fn main() {
    let input = PathBuf::from(std::env::args().nth(1).expect("input file"));
    let (mut runner, _) = AnalysisRunner::new(Curve::Bn254).with_files(&[input]);
    let mut first = Collect::default();
    runner.analyze_functions(&mut first, true);
    runner.analyze_templates(&mut first, true);
    let mut second = Collect::default();
    runner.analyze_functions(&mut second, true);
    runner.analyze_templates(&mut second, true);
    first.findings.sort();
    second.findings.sort();
    println!("first analysis:");
    for finding in &first.findings {
        println!("  {finding}");
    }
    println!("second analysis:");
    for finding in &second.findings {
        println!("  {finding}");
    }
    if first.findings != second.findings {
        println!("DIFFERENT");
        std::process::exit(1);
    }
    println!("same");
}
