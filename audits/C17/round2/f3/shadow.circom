pragma circom 2.1.0;
template T() {
    signal input a;
    signal output o;
    var x = 1;
    if (x == 1) {
        var x = 2;
        o <== a * x;
    } else {
        o <== a;
    }
}
