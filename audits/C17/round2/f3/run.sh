#!/bin/bash
# C17 / f3 (library API): the findings are a function of the sources, so analysing the same
# sources twice with the same `AnalysisRunner` must give the same multiset of findings.
# api/ is a small program against the library crates (circomspect-program-analysis,
# circomspect-program-structure) which calls analyze_functions/analyze_templates twice.
# usage: run.sh REPOSITORY_ROOT    exit status 0 iff the property holds on this input
set -u
ROOT=$(cd "${1:?usage: run.sh REPOSITORY_ROOT}" && pwd)
HERE=$(cd "$(dirname "$0")" && pwd)
TMP=$(mktemp -d); trap 'rm -rf "$TMP"' EXIT
# The scratch crate refers to the library crates of the repository by path.
cp -r "$HERE/api" "$TMP/api"
sed -i "s#path = \"../../../#path = \"$ROOT/#" "$TMP/api/Cargo.toml"
cp "$ROOT/Cargo.lock" "$TMP/api/Cargo.lock"
(cd "$TMP/api" && CARGO_TARGET_DIR="$ROOT/target/c17_api" cargo build --offline >&2) || exit 2
"$ROOT/target/c17_api/debug/c17-api-twice" "$HERE/shadow.circom"
