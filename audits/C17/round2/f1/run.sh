#!/bin/bash
# C17 / f1: the findings for template T must not change (line numbers apart) when a definition
# which T does not reference is added to the file. Here the definition is added on line 1, so
# that not even the line numbers and columns of T change.
# usage: run.sh REPOSITORY_ROOT    exit status 0 iff the property holds on this input
set -u
ROOT=${1:?usage: run.sh REPOSITORY_ROOT}
HERE=$(cd "$(dirname "$0")" && pwd)
BIN="$ROOT/target/debug/circomspect"
if [ ! -x "$BIN" ]; then (cd "$ROOT" && cargo build --offline -p circomspect >&2) || exit 2; fi
TMP=$(mktemp -d); trap 'rm -rf "$TMP"' EXIT
mkdir "$TMP/base" "$TMP/extra" "$TMP/reordered"
cp "$HERE/base.circom" "$TMP/base/input.circom"
cp "$HERE/extra.circom" "$TMP/extra/input.circom"
cp "$HERE/reordered.circom" "$TMP/reordered/input.circom"
python3 "$HERE/../findings.py" "$BIN" "$TMP/base/input.circom" > "$TMP/base.out"
python3 "$HERE/../findings.py" "$BIN" "$TMP/extra/input.circom" > "$TMP/extra.out"
echo "--- findings for base.circom"; cat "$TMP/base.out"
echo "--- findings for extra.circom (= base.circom + 'function unrelated() { return 1; }' on line 1)"; cat "$TMP/extra.out"
if cmp -s "$TMP/base.out" "$TMP/extra.out"; then
    echo "PROPERTY HOLDS: same findings"; exit 0
else
    echo "PROPERTY VIOLATED: the finding for T changed although T, its line numbers and its columns are unchanged"
    diff "$TMP/base.out" "$TMP/extra.out"
    exit 1
fi
