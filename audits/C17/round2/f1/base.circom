pragma circom 2.1.0;
template Sq() { signal input a; signal output out; out <== a * a; }
template T() {
    signal input x;
    signal output y;
    y <== Sq()(a <-- x / 2);
}
