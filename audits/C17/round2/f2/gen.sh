#!/bin/bash
# Writes the input of f2 to stdout: one template with N signal assignments (default 8000).
N=${1:-8000}
echo "pragma circom 2.1.0;"
echo "template Big() {"
echo "    signal input in[$N];"
echo "    signal output out[$N];"
for ((k = 0; k < N; k++)); do echo "    out[$k] <-- in[$k] * in[$k];"; done
echo "}"
