#!/bin/bash
# C17 / f2: running the tool again on the same file and options must display the same multiset
# of findings. The file (see gen.sh) holds one template with 8000 statements 'out[k] <-- in[k] * in[k];'.
# usage: run.sh REPOSITORY_ROOT    exit status 0 iff the property holds on this input
# (three runs of about 25 s each)
set -u
ROOT=${1:?usage: run.sh REPOSITORY_ROOT}
HERE=$(cd "$(dirname "$0")" && pwd)
BIN="$ROOT/target/debug/circomspect"
if [ ! -x "$BIN" ]; then (cd "$ROOT" && cargo build --offline -p circomspect >&2) || exit 2; fi
TMP=$(mktemp -d); trap 'rm -rf "$TMP"' EXIT
[ -f "$HERE/big.circom" ] || "$HERE/gen.sh" 8000 > "$HERE/big.circom"
for i in 1 2 3; do
    python3 "$HERE/../findings.py" "$BIN" "$HERE/big.circom" > "$TMP/run$i.out"
    echo "run $i: $(grep -c '"CS0013"' "$TMP/run$i.out") x CS0013 ('<-- is not necessary', the expression is quadratic)," \
         "$(grep -c '"CS0005"' "$TMP/run$i.out") x CS0005 ('<-- does not constrain the signal')," \
         "$(($(wc -l < "$TMP/run$i.out") - 1)) findings"
done
if cmp -s "$TMP/run1.out" "$TMP/run2.out" && cmp -s "$TMP/run1.out" "$TMP/run3.out"; then
    echo "PROPERTY HOLDS: the three runs display the same multiset of findings"; exit 0
else
    echo "PROPERTY VIOLATED: the runs display different multisets of findings for the same file"
    diff "$TMP/run1.out" "$TMP/run2.out" | head -6
    exit 1
fi
