#!/bin/sh
# Usage: run.sh <repository root>
# Exits 0 iff two runs of the unchanged tool on the same file with the same options display the
# same findings, where the second run is paused (SIGSTOP) for 11 seconds while it analyses.
# The findings must not depend on how long the analysis takes.
ROOT=${1:?usage: run.sh <repository root>}
HERE=$(cd "$(dirname "$0")" && pwd)
BIN="$ROOT/target/debug/circomspect"
if [ ! -x "$BIN" ]; then
    (cd "$ROOT" && cargo build --offline -p circomspect >/dev/null 2>&1) || { echo "build failed"; exit 2; }
fi
WORK=$(mktemp -d)
trap 'rm -rf "$WORK"' EXIT

now() { date +%s.%N; }

# Calibrate the size of the input so that an undisturbed run takes between 3 and 8 seconds on
# this machine (input.circom is `gen.sh 300`, which takes 4 to 5 seconds with the debug build).
N=300
tries=0
while :; do
    if [ "$N" = 300 ]; then cp "$HERE/input.circom" "$WORK/input.circom"; else "$HERE/gen.sh" "$N" > "$WORK/input.circom"; fi
    t0=$(now)
    "$BIN" "$WORK/input.circom" > "$WORK/plain.out" 2>&1
    echo "exit status $?" >> "$WORK/plain.out"
    t1=$(now)
    T=$(echo "$t1 - $t0" | bc -l)
    tries=$((tries+1))
    ok=$(echo "$T >= 3 && $T <= 8" | bc -l)
    if [ "$ok" = 1 ] || [ $tries -ge 5 ]; then break; fi
    N=$(echo "n = $N * sqrt(5 / ($T + 0.01)); scale = 0; n / 1" | bc -l)
    [ "$N" -lt 20 ] && N=20
done
echo "undisturbed run: N=$N, $T seconds"

# Same file, same options; the process is stopped for 11 seconds after a quarter of that time.
"$BIN" "$WORK/input.circom" > "$WORK/paused.out" 2>&1 &
PID=$!
sleep "$(echo "$T / 4" | bc -l)"
kill -STOP $PID
sleep 11
kill -CONT $PID
wait $PID
echo "exit status $?" >> "$WORK/paused.out"

sort "$WORK/plain.out" > "$WORK/plain.sorted"
sort "$WORK/paused.out" > "$WORK/paused.sorted"
if cmp -s "$WORK/plain.sorted" "$WORK/paused.sorted"; then
    echo "same findings"
    exit 0
else
    echo "DIFFERENT findings for the same file and options:"
    echo "--- undisturbed run"; cat "$WORK/plain.out"
    echo "--- paused run"; cat "$WORK/paused.out"
    exit 1
fi
