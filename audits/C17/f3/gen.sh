#!/bin/sh
# gen.sh N : prints a valid Circom template with N constant declarations followed by a branch on a constant.
N=$1
echo "pragma circom 2.0.0;"
echo "template T() {"
echo "    signal input in;"
echo "    signal output out;"
echo "    var s = 0;"
i=1
while [ $i -le $N ]; do
    echo "    var c$i = $i; s += c$i;"
    i=$((i+1))
done
echo "    var k = 3;"
echo "    if (k == 3) { out <== in + s; } else { out <== 2 * in; }"
echo "}"
