#!/usr/bin/env python3
# Random generator of nested control flow (functions and templates), checked by the harness.
import random, subprocess, sys, os
H = os.path.dirname(os.path.abspath(__file__))
BIN = os.path.join(H, '..', 'target', 'debug', 'c12harness')

class G:
    def __init__(self, rnd, template):
        self.r = rnd; self.t = template; self.n = 0
    def fresh(self):
        self.n += 1; return 'v%d' % self.n
    def cond(self):
        return self.r.choice(['n > %d' % self.r.randint(0, 5), 'n', 'x == n', '(x & 1) == 0', 'n < x'])
    def leaf(self, bare):
        r = self.r
        opts = ['x = x + 1;', 'x++;', 'log(x);', 'assert(x != 7);', 'x += n;', '{}', '{ x = 2; }']
        if not self.t:
            opts.append('return x;')
        else:
            opts += ['_ <== A()(s);', '(_, _) <== B2()(s);', 'Z()(s);', 'u <-- A()(s);', '(u, _) <-- B2()(A()(s));', 'u <-- parallel A()(s);', 'Z()(a <== s);', '(x, _) = (x + 1, 0);', 'c[x] = A(); ', 'c[x].a <== s;']
        if not bare:
            opts += ['var %s = x;' % self.fresh(), 'var %s;' % self.fresh()]
            if self.t:
                opts += ['var (%s, %s) = (1, x);' % (self.fresh(), self.fresh()), 'signal %s <== A()(s);' % self.fresh(), 'var %s = A()(s);' % self.fresh()]
        return r.choice(opts)
    def stmt(self, depth, ctx):
        # ctx: 'block' (inside braces), 'ifbody' (bare body of if: anything but declaration), 'loopbody' (bare body of while/for: no if)
        r = self.r
        bare = ctx != 'block'
        if depth <= 0:
            return self.leaf(bare)
        k = r.random()
        if k < 0.25:
            return self.leaf(bare)
        if k < 0.55 and ctx != 'loopbody':
            s = 'if (%s) %s' % (self.cond(), self.body(depth - 1, 'ifbody'))
            if r.random() < 0.5:
                s += ' else %s' % self.body(depth - 1, 'ifbody')
            return s
        if k < 0.75:
            return 'while (%s) %s' % (self.cond(), self.body(depth - 1, 'loopbody'))
        if k < 0.92:
            i = self.fresh()
            init = r.choice(['var %s = 0' % i, 'x = 0'] + (['var %s = A()(s)' % i, '(x, _) = (0, 1)'] if self.t else []))
            v = i if init.startswith('var') else 'x'
            step = r.choice(['%s++' % v, '%s += 2' % v] + (['(%s, _) = (%s + 1, 0)' % (v, v), '%s = A()(%s)' % (v, v)] if self.t else []))
            return 'for (%s; %s < n; %s) %s' % (init, v, step, self.body(depth - 1, 'loopbody'))
        return self.block(depth - 1)
    def block(self, depth):
        k = self.r.choice([0, 1, 1, 2, 2, 3, 4])
        return '{ ' + ' '.join(self.stmt(depth, 'block') for _ in range(k)) + ' }'
    def body(self, depth, ctx):
        if self.r.random() < 0.6:
            return self.block(depth)
        return self.stmt(depth, ctx)

def gen(seed):
    rnd = random.Random(seed)
    out = ['pragma circom 2.1.4;',
           'template A() { signal input a; signal output b; b <== a; }',
           'template Z() { signal input a; a === 0; }',
           'template B2() { signal input a; signal output b; signal output c; b <== a; c <== a; }']
    for i in range(4):
        g = G(rnd, False)
        out.append('function f%d(n) { var x = 0; %s }' % (i, ' '.join(g.stmt(rnd.randint(1, 5), 'block') for _ in range(rnd.randint(0, 4)))))
    for i in range(4):
        g = G(rnd, True)
        out.append('template T%d(n) { signal input s; signal u; var x = 0; component c[4]; %s }' % (i, ' '.join(g.stmt(rnd.randint(1, 5), 'block') for _ in range(rnd.randint(0, 4)))))
    return '\n'.join(out) + '\n'

def main():
    lo, hi = int(sys.argv[1]), int(sys.argv[2])
    os.makedirs(os.path.join(H, 'fz'), exist_ok=True)
    lifted = 0
    global NL
    NL = [0]
    for seed in range(lo, hi):
        p = os.path.join(H, 'fz', 's%d.circom' % seed)
        open(p, 'w').write(gen(seed))
        res = subprocess.run([BIN, p], capture_output=True, text=True)
        last = res.stdout.strip().splitlines()[-1] if res.stdout.strip() else ''
        if last.startswith('lifted'):
            lifted += int(last.split()[1].rstrip(','))
        interesting = [l for l in res.stdout.splitlines() if 'NOTE' not in l and not l.startswith('lifted') and 'does not lift' not in l]
        nolift = sum(1 for l in res.stdout.splitlines() if 'does not lift' in l)
        NL[0] += nolift
        if res.returncode != 0 or interesting:
            print('seed', seed, 'rc', res.returncode)
            print('\n'.join(interesting[:10])); print(res.stderr[-2000:])
        else:
            os.remove(p)
    print('total lifted', lifted, 'not lifted', NL[0])
main()
