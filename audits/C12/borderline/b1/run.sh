#!/bin/sh
# usage: run.sh REPO_ROOT
# Exits 0 iff the two functions (same 21-way decision ladder, i.e. the same
# cyclomatic complexity 22 > 20) get the same verdict from the complexity pass.
ROOT="${1:?usage: run.sh REPO_ROOT}"
HERE="$(cd "$(dirname "$0")" && pwd)"
BIN="$ROOT/target/debug/circomspect"
if [ ! -x "$BIN" ]; then
    (cd "$ROOT" && cargo build --offline -p circomspect >/dev/null 2>&1) || { echo "build failed"; exit 2; }
fi
a=$("$BIN" "$HERE/ladder_returns.circom" 2>&1 | grep -c "is too complex")
b=$("$BIN" "$HERE/ladder_single_return.circom" 2>&1 | grep -c "is too complex")
echo "complexity warnings: ladder_returns=$a ladder_single_return=$b"
[ "$a" = "$b" ] && [ "$a" = "1" ]
