pragma circom 2.0.0;

// The same 21 decisions, one return at the end: cyclomatic complexity 22.
function f(n) {
    var r;
    if (n == 0) {
        r = 0;
    }     else if (n == 1) {
        r = 1;
    }     else if (n == 2) {
        r = 4;
    }     else if (n == 3) {
        r = 9;
    }     else if (n == 4) {
        r = 16;
    }     else if (n == 5) {
        r = 25;
    }     else if (n == 6) {
        r = 36;
    }     else if (n == 7) {
        r = 49;
    }     else if (n == 8) {
        r = 64;
    }     else if (n == 9) {
        r = 81;
    }     else if (n == 10) {
        r = 100;
    }     else if (n == 11) {
        r = 121;
    }     else if (n == 12) {
        r = 144;
    }     else if (n == 13) {
        r = 169;
    }     else if (n == 14) {
        r = 196;
    }     else if (n == 15) {
        r = 225;
    }     else if (n == 16) {
        r = 256;
    }     else if (n == 17) {
        r = 289;
    }     else if (n == 18) {
        r = 324;
    }     else if (n == 19) {
        r = 361;
    }     else if (n == 20) {
        r = 400;
    } else {
        r = 0;
    }
    return r;
}
