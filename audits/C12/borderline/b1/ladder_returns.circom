pragma circom 2.0.0;

// 21 decisions, every branch returns: cyclomatic complexity 22.
function f(n) {
    if (n == 0) {
        return 0;
    }     else if (n == 1) {
        return 1;
    }     else if (n == 2) {
        return 4;
    }     else if (n == 3) {
        return 9;
    }     else if (n == 4) {
        return 16;
    }     else if (n == 5) {
        return 25;
    }     else if (n == 6) {
        return 36;
    }     else if (n == 7) {
        return 49;
    }     else if (n == 8) {
        return 64;
    }     else if (n == 9) {
        return 81;
    }     else if (n == 10) {
        return 100;
    }     else if (n == 11) {
        return 121;
    }     else if (n == 12) {
        return 144;
    }     else if (n == 13) {
        return 169;
    }     else if (n == 14) {
        return 196;
    }     else if (n == 15) {
        return 225;
    }     else if (n == 16) {
        return 256;
    }     else if (n == 17) {
        return 289;
    }     else if (n == 18) {
        return 324;
    }     else if (n == 19) {
        return 361;
    }     else if (n == 20) {
        return 400;
    } else {
        return 0;
    }
}
