#!/bin/sh
# usage: run.sh REPO_ROOT
# Exits 0 iff, in the CFG dump of the real binary (RUST_LOG=debug), every block
# with two successors ends in a branch statement that names both of them.
ROOT="${1:?usage: run.sh REPO_ROOT}"
HERE="$(cd "$(dirname "$0")" && pwd)"
BIN="$ROOT/target/debug/circomspect"
if [ ! -x "$BIN" ]; then
    (cd "$ROOT" && cargo build --offline -p circomspect >/dev/null 2>&1) || { echo "build failed"; exit 2; }
fi
RUST_LOG=circomspect_program_structure::control_flow_graph::cfg=debug "$BIN" "$HERE/backedge.circom" 2>&1 |
awk '
function flush() {
    if (block != "" && nsucc == 2 && last !~ / then [0-9]+ else [0-9]+$/) {
        printf "block %s has successors {%s} but ends with `%s`\n", block, succ, last; bad = 1
    }
}
/analyzing (function|template)/ { flush(); block = ""; print }
/basic block [0-9]+: \(predecessors/ {
    flush()
    block = $0; sub(/.*basic block /, "", block); sub(/:.*/, "", block)
    succ = $0; sub(/.*successors: \{/, "", succ); sub(/\}.*/, "", succ)
    nsucc = (succ == "") ? 0 : split(succ, parts, ",")
    last = ""; next
}
/ >     / { last = $0; sub(/.* >     /, "", last) }
END { flush(); exit bad }
'
