pragma circom 2.0.0;

function f(n) {
    var x = 0;
    while (x < n) {
        if (x == 3) {
            x += 2;
        }
    }
    return x;
}

function g(n) {
    var x = 0;
    while (x < n) {
        while (x < 2) {
            x += 1;
        }
    }
    return x;
}
