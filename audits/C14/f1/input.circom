pragma circom 2.0.0;
template T(n) {
    signal input in;
    signal output out;
    var x = n;
    if (n > 1) {
        x = x + 1;
    }
    out <== in * x;
}
component main = T(2);
