#!/bin/bash
# usage: run.sh <repository root>
# Exits 0 iff the property holds on input.circom: every SSA version of a local that occurs in the
# SSA form of T (x.0, x.1, x.2, n.0) can be looked up with Cfg::get_declaration / Cfg::get_type.
# On the pinned tree it exits 1 (the lookups return None for every versioned local).
set -u
ROOT=$(cd "${1:?usage: run.sh <repository root>}" && pwd) || exit 3
HERE=$(cd "$(dirname "$0")" && pwd)
export CARGO_TARGET_DIR="$ROOT/target/c14-harness"
WORK="$CARGO_TARGET_DIR/src-f1"
mkdir -p "$WORK/src" || exit 3
cp "$HERE/harness/src/main.rs" "$WORK/src/main.rs" || exit 3
cp "$ROOT/Cargo.lock" "$WORK/Cargo.lock" 2>/dev/null
cat > "$WORK/Cargo.toml" <<TOML
[package]
name = "c14-harness"
version = "0.0.0"
edition = "2021"

[workspace]

[dependencies]
parser = { package = "circomspect-parser", path = "$ROOT/parser" }
program_structure = { package = "circomspect-program-structure", path = "$ROOT/program_structure" }
program_analysis = { package = "circomspect-program-analysis", path = "$ROOT/program_analysis" }
serde = { version = "1.0", features = ["derive"] }
TOML
cargo build --offline --quiet --manifest-path "$WORK/Cargo.toml" 2>"$WORK/build.log" || { cat "$WORK/build.log" >&2; exit 3; }
"$CARGO_TARGET_DIR/debug/c14-harness" --strict-decl "$HERE/input.circom"
