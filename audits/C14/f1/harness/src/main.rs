// Independent checker of property C14 on the SSA form produced by the unchanged library.
//
// usage: c14-harness [--dump] [--bound K] file.circom...
// exit status: 0 = no violation found, 1 = violation(s) found, 2 = could not build a CFG.
use std::collections::{HashMap, HashSet};
use std::path::PathBuf;

use parser::ParseResult;
use program_structure::cfg::{Cfg, IntoCfg};
use program_structure::constants::Curve;
use program_structure::ir::*;
use program_structure::report::ReportCollection;

type Name = VariableName;

#[derive(Default)]
struct Uses {
    reads: Vec<Name>,
}

fn expr_reads(e: &Expression, out: &mut Uses) {
    use Expression::*;
    match e {
        InfixOp { lhe, rhe, .. } => {
            expr_reads(lhe, out);
            expr_reads(rhe, out);
        }
        PrefixOp { rhe, .. } => expr_reads(rhe, out),
        SwitchOp { cond, if_true, if_false, .. } => {
            expr_reads(cond, out);
            expr_reads(if_true, out);
            expr_reads(if_false, out);
        }
        Variable { name, .. } => out.reads.push(name.clone()),
        Number(..) => {}
        Call { args, .. } => args.iter().for_each(|a| expr_reads(a, out)),
        InlineArray { values, .. } => values.iter().for_each(|a| expr_reads(a, out)),
        Access { var, access, .. } => {
            for a in access {
                if let AccessType::ArrayAccess(i) = a {
                    expr_reads(i, out);
                }
            }
            out.reads.push(var.clone());
        }
        Update { var, access, rhe, .. } => {
            expr_reads(rhe, out);
            for a in access {
                if let AccessType::ArrayAccess(i) = a {
                    expr_reads(i, out);
                }
            }
            out.reads.push(var.clone());
        }
        Phi { args, .. } => out.reads.extend(args.iter().cloned()),
    }
}

fn stmt_reads(s: &Statement) -> Vec<Name> {
    use Statement::*;
    let mut u = Uses::default();
    match s {
        Declaration { dimensions, .. } => dimensions.iter().for_each(|d| expr_reads(d, &mut u)),
        IfThenElse { cond, .. } => expr_reads(cond, &mut u),
        Return { value, .. } => expr_reads(value, &mut u),
        Substitution { rhe, .. } => expr_reads(rhe, &mut u),
        ConstraintEquality { lhe, rhe, .. } => {
            expr_reads(lhe, &mut u);
            expr_reads(rhe, &mut u);
        }
        LogCall { args, .. } => {
            for a in args {
                if let LogArgument::Expr(e) = a {
                    expr_reads(e, &mut u);
                }
            }
        }
        Assert { arg, .. } => expr_reads(arg, &mut u),
    }
    u.reads
}

fn is_phi(s: &Statement) -> bool {
    matches!(s, Statement::Substitution { rhe: Expression::Phi { .. }, .. })
}

struct Checker<'a> {
    name: String,
    pre: &'a Cfg,
    ssa: &'a Cfg,
    locals: HashSet<Name>, // unversioned names of locals (incl. parameters)
    violations: Vec<String>,
    notes: Vec<String>,
    bound: usize,
    paths: usize,
    strict_decl: bool,
}

impl<'a> Checker<'a> {
    fn v(&mut self, msg: String) {
        let msg = format!("[{}] {}", self.name, msg);
        if !self.violations.contains(&msg) {
            self.violations.push(msg);
        }
    }
    fn n(&mut self, msg: String) {
        let msg = format!("[{}] {}", self.name, msg);
        if !self.notes.contains(&msg) {
            self.notes.push(msg);
        }
    }

    fn run(&mut self) {
        // 0. locals of the original program.
        for p in self.pre.parameters().iter() {
            self.locals.insert(p.clone());
        }
        for (name, decl) in self.pre.declarations().iter() {
            if matches!(decl.variable_type(), VariableType::Local) {
                self.locals.insert(name.clone());
            }
        }
        if self.pre.len() != self.ssa.len() {
            self.v(format!("block count differs: {} vs {}", self.pre.len(), self.ssa.len()));
            return;
        }
        // 1. structure: phi only at head; the rest corresponds to the original statements.
        let mut defs: HashMap<Name, (usize, usize)> = HashMap::new();
        let mut declared: HashMap<Name, usize> = HashMap::new();
        for (b, block) in self.ssa.iter().enumerate() {
            let stmts: Vec<&Statement> = block.iter().collect();
            let nphi = stmts.iter().take_while(|s| is_phi(s)).count();
            for (i, s) in stmts.iter().enumerate() {
                if i >= nphi && is_phi(s) {
                    self.v(format!("block {b}: phi statement at position {i} is not at the head"));
                }
            }
            let pre_block = self.pre.get_basic_block(b).unwrap();
            if pre_block.len() + nphi != stmts.len() {
                self.v(format!("block {b}: statement count differs"));
            }
            if pre_block.predecessors() != block.predecessors()
                || pre_block.successors() != block.successors()
            {
                self.v(format!("block {b}: edges differ"));
            }
            let mut phi_vars = HashSet::new();
            for (i, s) in stmts.iter().enumerate() {
                match s {
                    Statement::Substitution { var, .. } => {
                        let base = var.without_version();
                        if self.locals.contains(&base) {
                            if var.version().is_none() {
                                self.v(format!("block {b}: local `{var:?}` written without a version"));
                            } else if let Some(prev) = defs.insert(var.clone(), (b, i)) {
                                self.v(format!(
                                    "`{var:?}` has two definitions: block {} stmt {} and block {b} stmt {i}",
                                    prev.0, prev.1
                                ));
                            }
                            if is_phi(s) && !phi_vars.insert(base.clone()) {
                                self.v(format!("block {b}: two phi statements for `{base:?}`"));
                            }
                        } else if var.version().is_some() {
                            self.v(format!("block {b}: non-local `{var:?}` is versioned"));
                        }
                    }
                    Statement::Declaration { names, var_type, .. } => {
                        for n in names.iter() {
                            if matches!(var_type, VariableType::Local) {
                                if n.version().is_none() {
                                    self.v(format!("declaration of local `{n:?}` without version"));
                                }
                                *declared.entry(n.clone()).or_default() += 1;
                            } else if n.version().is_some() {
                                self.v(format!("declaration of non-local `{n:?}` is versioned"));
                            }
                        }
                    }
                    _ => {}
                }
            }
        }
        for (n, c) in &declared {
            if *c > 1 {
                self.v(format!("`{n:?}` is declared {c} times"));
            }
        }
        let params: HashSet<Name> = self.ssa.parameters().iter().cloned().collect();
        for p in self.pre.parameters().iter() {
            if !params.contains(&p.with_version(0)) {
                self.v(format!("parameter `{p:?}` is not version 0 after SSA"));
            }
        }
        // 2. reads: versioned, declared, dominated by their definition.
        for (b, block) in self.ssa.iter().enumerate() {
            let doms: HashSet<usize> =
                self.ssa.get_dominators(block).iter().map(|d| d.index()).collect();
            for (i, s) in block.iter().enumerate() {
                let mut names = stmt_reads(s);
                if let Statement::Substitution { var, .. } = s {
                    names.push(var.clone());
                }
                for r in &names {
                    let base = r.without_version();
                    if !self.locals.contains(&base) {
                        if r.version().is_some() {
                            self.v(format!("block {b} stmt {i}: non-local `{r:?}` is versioned"));
                        }
                        continue;
                    }
                    if r.version().is_none() {
                        self.v(format!("block {b} stmt {i}: local `{r:?}` occurs without a version"));
                        continue;
                    }
                    // declaration coverage (statement level and API level).
                    let is_param = params.contains(&r.with_version(0));
                    if !declared.contains_key(r) && !is_param {
                        self.v(format!("block {b} stmt {i}: `{r:?}` is not covered by a declaration statement"));
                    }
                    if self.ssa.variables().all(|n| n != r) {
                        self.v(format!("block {b} stmt {i}: `{r:?}` is not in Cfg::variables()"));
                    }
                    let found = self.ssa.get_declaration(r).map(|d| d.variable_name() == r).unwrap_or(false);
                    let typed = matches!(self.ssa.get_type(r), Some(VariableType::Local));
                    if !found || !typed {
                        let msg = format!(
                            "block {b} stmt {i}: `{r:?}` occurs in the SSA form and is listed by Cfg::variables(), but Cfg::get_declaration(`{r:?}`) is {} and Cfg::get_type(`{r:?}`) is {}",
                            if found { "Some" } else { "None" },
                            if typed { "Some(Local)" } else { "None" },
                        );
                        if self.strict_decl {
                            self.v(msg);
                        } else {
                            self.n(msg);
                        }
                    }
                }
                if is_phi(s) {
                    if let Statement::Substitution { var, rhe: Expression::Phi { args, .. }, .. } = s {
                        let mut seen = HashSet::new();
                        for a in args {
                            if a.without_version() != var.without_version() {
                                self.v(format!("block {b}: phi for `{var:?}` has foreign argument `{a:?}`"));
                            }
                            if !seen.insert(a.clone()) {
                                self.v(format!("block {b}: phi for `{var:?}` repeats `{a:?}`"));
                            }
                            // defined on an incoming path: def block dominates some predecessor.
                            match defs.get(a) {
                                Some((db, _)) => {
                                    let ok = block.predecessors().iter().any(|p| {
                                        let pb = self.ssa.get_basic_block(*p).unwrap();
                                        self.ssa.get_dominators(pb).iter().any(|d| d.index() == *db)
                                    });
                                    if !ok {
                                        self.v(format!("block {b}: phi argument `{a:?}` is not defined on any incoming path"));
                                    }
                                }
                                None => {
                                    if !(params.contains(a)) {
                                        self.n(format!("block {b}: phi argument `{a:?}` has no definition"));
                                    }
                                }
                            }
                        }
                        if args.len() > block.predecessors().len() {
                            self.v(format!("block {b}: phi for `{var:?}` has more arguments than predecessors"));
                        }
                        if args.len() < block.predecessors().len() {
                            self.n(format!("block {b}: phi for `{var:?}` has {} argument(s) for {} predecessors", args.len(), block.predecessors().len()));
                        }
                    }
                    continue;
                }
                for r in stmt_reads(s) {
                    if r.version().is_none() || !self.locals.contains(&r.without_version()) {
                        continue;
                    }
                    match defs.get(&r) {
                        Some((db, di)) => {
                            let ok = if *db == b { *di < i } else { doms.contains(db) };
                            if !ok {
                                self.v(format!("block {b} stmt {i}: read of `{r:?}` is not dominated by its definition (block {db} stmt {di})"));
                            }
                        }
                        None => {
                            if !params.contains(&r) {
                                self.n(format!("block {b} stmt {i}: read of `{r:?}` which has no definition (never assigned)"));
                            }
                        }
                    }
                }
            }
        }
        // 3. paths.
        let mut visits = vec![0usize; self.ssa.len()];
        let mut cur: HashMap<Name, u64> = HashMap::new();
        let mut origin: HashMap<Name, u64> = HashMap::new();
        let mut counter = 0u64;
        for p in self.pre.parameters().iter() {
            counter += 1;
            cur.insert(p.clone(), counter);
            origin.insert(p.with_version(0), counter);
        }
        self.walk(0, &mut visits, cur, origin, &mut counter, &mut Vec::new());
    }

    fn walk(
        &mut self,
        b: usize,
        visits: &mut Vec<usize>,
        mut cur: HashMap<Name, u64>,
        mut origin: HashMap<Name, u64>,
        counter: &mut u64,
        path: &mut Vec<usize>,
    ) {
        if visits[b] > self.bound || self.paths > 200_000 {
            return;
        }
        visits[b] += 1;
        path.push(b);
        let ssa_block = self.ssa.get_basic_block(b).unwrap();
        let pre_block = self.pre.get_basic_block(b).unwrap();
        let ssa_stmts: Vec<&Statement> = ssa_block.iter().collect();
        let nphi = ssa_stmts.iter().take_while(|s| is_phi(s)).count();
        // phis are evaluated in parallel on entry.
        let mut updates = Vec::new();
        for s in &ssa_stmts[..nphi] {
            if let Statement::Substitution { var, rhe: Expression::Phi { args, .. }, .. } = s {
                let base = var.without_version();
                match cur.get(&base) {
                    Some(o) => {
                        let hit: Vec<&Name> =
                            args.iter().filter(|a| origin.get(*a) == Some(o)).collect();
                        if hit.is_empty() {
                            self.v(format!(
                                "path {path:?}: phi `{var:?}` = φ{args:?} in block {b} has no argument holding the assignment most recently executed on this path"
                            ));
                        }
                        updates.push((var.clone(), Some(*o)));
                    }
                    None => updates.push((var.clone(), None)),
                }
            }
        }
        for (var, o) in updates {
            match o {
                Some(o) => {
                    origin.insert(var, o);
                }
                None => {
                    origin.remove(&var);
                }
            }
        }
        for (k, s) in ssa_stmts[nphi..].iter().enumerate() {
            let pre_stmt = pre_block.iter().nth(k);
            // reads
            let reads = stmt_reads(s);
            let pre_reads = pre_stmt.map(stmt_reads).unwrap_or_default();
            if reads.len() != pre_reads.len() {
                self.v(format!("block {b} stmt {k}: read count differs from the original"));
            }
            for (j, r) in reads.iter().enumerate() {
                let base = r.without_version();
                if let Some(pr) = pre_reads.get(j) {
                    if *pr != base {
                        self.v(format!("block {b}: read `{r:?}` corresponds to `{pr:?}` in the original"));
                    }
                }
                if !self.locals.contains(&base) || r.version().is_none() {
                    continue;
                }
                let expected = cur.get(&base);
                let actual = origin.get(r);
                if expected != actual {
                    self.v(format!(
                        "path {path:?}: block {b} stmt `{s:?}` reads `{r:?}` which does not hold the assignment most recently executed on this path (expected def #{expected:?}, version holds #{actual:?})"
                    ));
                }
            }
            if let Statement::Substitution { var, .. } = s {
                let base = var.without_version();
                if self.locals.contains(&base) {
                    if let Some(Statement::Substitution { var: pv, .. }) = pre_stmt {
                        if *pv != base {
                            self.v(format!("block {b}: write `{var:?}` corresponds to `{pv:?}`"));
                        }
                    }
                    *counter += 1;
                    cur.insert(base, *counter);
                    origin.insert(var.clone(), *counter);
                }
            }
        }
        let succ: Vec<usize> = {
            let mut s: Vec<usize> = ssa_block.successors().iter().cloned().collect();
            s.sort_unstable();
            s
        };
        if succ.is_empty() {
            self.paths += 1;
        }
        for s in succ {
            self.walk(s, visits, cur.clone(), origin.clone(), counter, path);
        }
        path.pop();
        visits[b] -= 1;
    }
}

// ---- binding check for generated programs (see gen.py) ----
struct Bind {
    key_to_id: HashMap<(String, Option<String>), i64>,
    id_to_key: HashMap<i64, (String, Option<String>)>,
    errors: Vec<String>,
    checks: usize,
}
impl Bind {
    fn bind(&mut self, var: &Name, id: i64, what: &str) {
        self.checks += 1;
        let key = (var.name().clone(), var.suffix().clone());
        if let Some(prev) = self.key_to_id.get(&key) {
            if *prev != id {
                self.errors.push(format!("{what}: `{var:?}` denotes variable #{prev} and #{id}"));
            }
        } else {
            self.key_to_id.insert(key.clone(), id);
        }
        if let Some(prev) = self.id_to_key.get(&id) {
            if *prev != key {
                self.errors.push(format!("{what}: variable #{id} is called {prev:?} and {key:?}"));
            }
        } else {
            self.id_to_key.insert(id, key);
        }
    }
    fn num(e: &Expression) -> Option<i64> {
        if let Expression::Number(_, v) = e {
            v.to_string().parse::<i64>().ok()
        } else {
            None
        }
    }
    fn var(e: &Expression) -> Option<&Name> {
        match e {
            Expression::Variable { name, .. } => Some(name),
            Expression::Access { var, .. } => Some(var),
            _ => None,
        }
    }
    fn expr(&mut self, e: &Expression) {
        use Expression::*;
        match e {
            InfixOp { lhe, rhe, .. } => {
                if let (Some(v), Some(k)) = (Self::var(lhe), Self::num(rhe)) {
                    if (3000..4000).contains(&k) {
                        self.bind(v, k - 3000, "read");
                    }
                }
                self.expr(lhe);
                self.expr(rhe);
            }
            PrefixOp { rhe, .. } => self.expr(rhe),
            SwitchOp { cond, if_true, if_false, .. } => {
                self.expr(cond);
                self.expr(if_true);
                self.expr(if_false);
            }
            Call { args, .. } => args.iter().for_each(|a| self.expr(a)),
            InlineArray { values, .. } => values.iter().for_each(|a| self.expr(a)),
            Access { access, .. } => {
                for a in access {
                    if let AccessType::ArrayAccess(i) = a {
                        self.expr(i);
                    }
                }
            }
            Update { access, rhe, .. } => {
                self.expr(rhe);
                for a in access {
                    if let AccessType::ArrayAccess(i) = a {
                        self.expr(i);
                    }
                }
            }
            _ => {}
        }
    }
    fn stmt(&mut self, s: &Statement) {
        use Statement::*;
        match s {
            Substitution { var, rhe, .. } => {
                let k = match rhe {
                    Expression::Update { rhe, .. } => Self::num(rhe),
                    e => Self::num(e),
                };
                if let Some(k) = k {
                    if (1000..2000).contains(&k) {
                        self.bind(var, k - 1000, "write");
                    }
                }
                self.expr(rhe);
            }
            LogCall { args, .. } => {
                let exprs: Vec<&Expression> = args
                    .iter()
                    .filter_map(|a| if let LogArgument::Expr(e) = a { Some(&**e) } else { None })
                    .collect();
                if exprs.len() == 2 {
                    if let (Some(k), Some(v)) = (Self::num(exprs[0]), Self::var(exprs[1])) {
                        if (2000..3000).contains(&k) {
                            self.bind(v, k - 2000, "log read");
                        }
                    }
                }
                for e in exprs {
                    self.expr(e);
                }
            }
            Declaration { dimensions, .. } => dimensions.iter().for_each(|d| self.expr(d)),
            IfThenElse { cond, .. } => self.expr(cond),
            Return { value, .. } => self.expr(value),
            ConstraintEquality { lhe, rhe, .. } => {
                self.expr(lhe);
                self.expr(rhe);
            }
            Assert { arg, .. } => self.expr(arg),
        }
    }
}

fn bind_check(name: &str, cfg: &Cfg) -> usize {
    let mut b = Bind { key_to_id: HashMap::new(), id_to_key: HashMap::new(), errors: Vec::new(), checks: 0 };
    for block in cfg.iter() {
        for s in block.iter() {
            b.stmt(s);
        }
    }
    b.errors.sort();
    b.errors.dedup();
    for e in &b.errors {
        println!("VIOLATION: [{name}] binding: {e}");
    }
    println!("[{name}] {} binding check(s), {} error(s)", b.checks, b.errors.len());
    b.errors.len()
}

fn dump(cfg: &Cfg) {
    for block in cfg.iter() {
        let mut p: Vec<_> = block.predecessors().iter().collect();
        p.sort();
        let mut s: Vec<_> = block.successors().iter().collect();
        s.sort();
        println!("  block {} (pred {:?}, succ {:?})", block.index(), p, s);
        for stmt in block.iter() {
            println!("      {stmt:?}");
        }
    }
}

fn main() {
    let mut files = Vec::new();
    let mut do_dump = false;
    let mut do_bind = false;
    let mut strict_decl = false;
    let mut bound = 2usize;
    let mut args = std::env::args().skip(1);
    while let Some(a) = args.next() {
        if a == "--dump" {
            do_dump = true;
        } else if a == "--strict-decl" {
            strict_decl = true;
        } else if a == "--bind" {
            do_bind = true;
        } else if a == "--bound" {
            bound = args.next().unwrap().parse().unwrap();
        } else {
            files.push(PathBuf::from(a));
        }
    }
    let version = program_analysis::config::COMPILER_VERSION;
    let (templates, functions) = match parser::parse_files(&files, &[], &version) {
        ParseResult::Program(p, _) => (p.templates, p.functions),
        ParseResult::Library(l, _) => (l.templates, l.functions),
    };
    let curve = Curve::default();
    let mut status = 0;
    let mut names: Vec<(bool, String)> = templates.keys().map(|k| (true, k.clone())).collect();
    names.extend(functions.keys().map(|k| (false, k.clone())));
    names.sort();
    if names.is_empty() {
        println!("no definitions parsed");
        std::process::exit(2);
    }
    for (is_template, name) in names {
        let build = |ssa: bool| -> Result<Cfg, String> {
            let mut reports = ReportCollection::new();
            let cfg = if is_template {
                templates.get(&name).unwrap().into_cfg(&curve, &mut reports)
            } else {
                functions.get(&name).unwrap().into_cfg(&curve, &mut reports)
            };
            let cfg = cfg.map_err(|_| "CFG construction failed".to_string())?;
            if ssa {
                cfg.into_ssa().map_err(|_| "SSA conversion failed".to_string())
            } else {
                Ok(cfg)
            }
        };
        let pre = match build(false) {
            Ok(c) => c,
            Err(e) => {
                println!("[{name}] {e}");
                status = status.max(2);
                continue;
            }
        };
        let ssa = match build(true) {
            Ok(c) => c,
            Err(e) => {
                println!("[{name}] {e}");
                status = status.max(2);
                continue;
            }
        };
        if do_dump {
            println!("== {name} (SSA)");
            dump(&ssa);
        }
        if do_bind && bind_check(&name, &ssa) > 0 {
            status = 1;
        }
        let mut checker = Checker {
            name: name.clone(),
            pre: &pre,
            ssa: &ssa,
            locals: HashSet::new(),
            violations: Vec::new(),
            notes: Vec::new(),
            bound,
            paths: 0,
            strict_decl,
        };
        checker.run();
        for n in &checker.notes {
            println!("note: {n}");
        }
        for v in &checker.violations {
            println!("VIOLATION: {v}");
        }
        println!("[{name}] {} path(s) explored, {} violation(s)", checker.paths, checker.violations.len());
        if !checker.violations.is_empty() {
            status = 1;
        }
    }
    std::process::exit(status);
}
