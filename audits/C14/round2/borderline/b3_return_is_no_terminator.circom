pragma circom 2.0.0;
// `return` does not end the basic block: the join after the if has an edge from the branch
// that returned, so the last read of x is a phi of 1 and 2 although it can only see `x = 1`.
function f(c) {
    var x = 1;
    if (c) {
        return x;
        x = 2;
    }
    if (x == 1) {
        return 7;
    }
    return x;
}
