pragma circom 2.0.0;
function f(n) {
    var s = 0;
    for (var i = 0; i < n; i++) {
        var t = 0;
        if (i == 0) {
            t = 1;
        }
        s += t;
        t = i + 5;
    }
    return s;
}
