pragma circom 2.0.0;
// Circom re-initialises `t` to 0 every time the declaration is executed, so the read of `t`
// in `s += t` always sees the default value and `t = i + 5` is never read.
function f(n) {
    var s = 0;
    for (var i = 0; i < n; i++) {
        var t;
        if (i == 0) {
            t = 1;
        }
        s += t;
        t = i + 5;
    }
    return s;
}
