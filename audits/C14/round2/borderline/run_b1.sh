#!/bin/sh
# BORDERLINE (not reported as a finding). $1 = repository root.
# Exits 0 iff the tool treats `var t;` inside a loop body like `var t = 0;` (Circom resets the
# variable to 0 each time the declaration is executed), i.e. iff the assignment `t = i + 5` at
# the end of the body is reported as unused in both programs.
ROOT=${1:-/var/tmp/seeds/au_C14}
HERE=$(cd "$(dirname "$0")" && pwd)
BIN="$ROOT/target/debug/circomspect"
[ -x "$BIN" ] || (cd "$ROOT" && cargo build --offline -p circomspect >/dev/null 2>&1)
A=$("$BIN" "$HERE/b1_loop_declared_default.circom" 2>&1 | grep -c "is not used to compute the return value")
B=$("$BIN" "$HERE/b1_variant_initialised.circom" 2>&1 | grep -c "is not used to compute the return value")
echo "unused-assignment warnings: without initialiser=$A, with '= 0'=$B"
[ "$A" = "$B" ]
