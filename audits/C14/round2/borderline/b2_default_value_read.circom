pragma circom 2.0.0;
// Valid Circom: a local is 0 until it is assigned. The tool refuses to build the SSA form.
function f(n) {
    var acc[2];
    acc[0] += n;
    var x;
    return x + acc[0];
}
