pragma circom 2.0.0;
template One() { signal output b; b <== 1; }
template A(n) {
    signal input x;
    signal output z;
    var i = 0;
    while (i < n) {
        _ <== One()();
        i += 1;
    }
    z <== x;
}
component main = A(2);
