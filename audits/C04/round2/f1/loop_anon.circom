pragma circom 2.0.0;
template Id() { signal input a; signal output b; b <== a; }
template A(n) {
    signal input x[n];
    signal output z[n];
    var i = 0;
    while (i < n) {
        z[i] <== Id()(x[i]);
        i += 1;
    }
}
component main = A(2);
