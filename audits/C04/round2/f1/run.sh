#!/bin/sh
# Exits 0 iff property C04 holds on the inputs: no displayed label covers a whole loop
# statement for a message about a (synthesised) assignment / arithmetic expression.
HERE="$(cd "$(dirname "$0")" && pwd)"
ROOT="${1:?usage: run.sh <repository root>}"
BIN="$ROOT/target/debug/circomspect"
if [ ! -x "$BIN" ]; then
    (cd "$ROOT" && cargo build --offline -p circomspect >/dev/null 2>&1) || { echo "build failed" >&2; exit 2; }
fi
TMP="$(mktemp -d)"; trap 'rm -rf "$TMP"' EXIT
status=0
for f in loop_anon.circom loop_anon_unused.circom; do
    "$BIN" -l info -s "$TMP/out.sarif" "$HERE/$f" >"$TMP/stdout.txt" 2>&1
    python3 - "$TMP/out.sarif" "$HERE/$f" <<'PY' || status=1
import json, sys
sarif, src = sys.argv[1], sys.argv[2]
lines = open(src, encoding="utf-8").read().split("\n")
# the loop statement: the line which starts with `while`
loop_line = next(i + 1 for i, l in enumerate(lines) if l.strip().startswith("while"))
loop_col = lines[loop_line - 1].index("while") + 1
bad = 0
for r in json.load(open(sarif))["runs"][0]["results"]:
    for l in r.get("locations", []):
        reg = l["physicalLocation"]["region"]
        if reg["startLine"] == loop_line and reg["startColumn"] == loop_col and reg["endLine"] > reg["startLine"]:
            print("VIOLATION: %s `%s` / label `%s` is located at the whole loop %d:%d-%d:%d" % (
                r["ruleId"], r["message"]["text"], l["message"]["text"],
                reg["startLine"], reg["startColumn"], reg["endLine"], reg["endColumn"]))
            bad = 1
sys.exit(bad)
PY
done
exit $status
