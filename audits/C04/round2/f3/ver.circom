/*
 * License header
 * é
 */

// more
pragma circom 3.1.0;
template T() { signal input a; a === 1; }
