#!/bin/sh
# Exits 0 iff the finding about the unsupported `pragma circom 3.1.0;` (line 7 of ver.circom) is
# located at that pragma (or has no label at all), not at line 1 column 1.
HERE="$(cd "$(dirname "$0")" && pwd)"
ROOT="${1:?usage: run.sh <repository root>}"
BIN="$ROOT/target/debug/circomspect"
if [ ! -x "$BIN" ]; then
    (cd "$ROOT" && cargo build --offline -p circomspect >/dev/null 2>&1) || { echo "build failed" >&2; exit 2; }
fi
TMP="$(mktemp -d)"; trap 'rm -rf "$TMP"' EXIT
"$BIN" -s "$TMP/out.sarif" "$HERE/ver.circom" >"$TMP/stdout.txt" 2>&1
python3 - "$TMP/out.sarif" "$HERE/ver.circom" <<'PY'
import json, sys
lines = open(sys.argv[2], encoding="utf-8").read().split("\n")
pragma_line = next(i + 1 for i, l in enumerate(lines) if l.startswith("pragma circom"))
bad = 0; seen = 0
for r in json.load(open(sys.argv[1]))["runs"][0]["results"]:
    if "requires version" not in r["message"]["text"]:
        continue
    seen = 1
    for l in r.get("locations", []):
        reg = l["physicalLocation"]["region"]
        if reg["startLine"] != pragma_line:
            print("VIOLATION: `%s` is located at %d:%d (label `%s`), the pragma is on line %d" % (
                r["message"]["text"], reg["startLine"], reg["startColumn"], l["message"]["text"], pragma_line))
            bad = 1
if not seen:
    print("the version error was not reported"); sys.exit(2)
sys.exit(bad)
PY
