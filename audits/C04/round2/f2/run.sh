#!/bin/sh
# Exits 0 iff every SARIF artifact URI (and so every label) names a file that exists / was read.
HERE="$(cd "$(dirname "$0")" && pwd)"
ROOT="${1:?usage: run.sh <repository root>}"
BIN="$ROOT/target/debug/circomspect"
if [ ! -x "$BIN" ]; then
    (cd "$ROOT" && cargo build --offline -p circomspect >/dev/null 2>&1) || { echo "build failed" >&2; exit 2; }
fi
TMP="$(mktemp -d)"; trap 'rm -rf "$TMP"' EXIT
NAME="$(printf 'b\377.circom')"          # a legal Linux file name which is not UTF-8
cp "$HERE/input.circom" "$TMP/$NAME" || { echo "file system rejects non-UTF-8 names" >&2; exit 2; }
(cd "$TMP" && "$BIN" -s "$TMP/out.sarif" "$NAME" >"$TMP/stdout.txt" 2>&1)
python3 - "$TMP/out.sarif" "$TMP/stdout.txt" <<'PY'
import json, os, sys, urllib.parse
bad = 0
results = json.load(open(sys.argv[1]))["runs"][0]["results"]
if not results:
    print("no results (expected some findings)"); sys.exit(2)
for r in results:
    for l in r.get("locations", []) + r.get("relatedLocations", []):
        uri = l["physicalLocation"]["artifactLocation"]["uri"]
        path = urllib.parse.unquote_to_bytes(uri[len("file://"):])
        if not os.path.exists(path):
            print("VIOLATION: label names %r (URI %s), which is not a file that was read" % (path, uri))
            bad = 1
sys.exit(bad)
PY
