#!/bin/sh
# C04 / f4: the SARIF artifact URI is the raw path after `file://` (no percent-encoding), so for a
# file name containing `%41`, `#` or `?` the URI denotes another file.
set -u
ROOT=${1:?repository root}
HERE=$(cd "$(dirname "$0")" && pwd)
(cd "$ROOT" && cargo build --offline -q -p circomspect >/dev/null 2>&1) || { echo "build failed"; exit 2; }
BIN="$ROOT/target/debug/circomspect"
TMP=$(mktemp -d); trap 'rm -rf "$TMP"' EXIT
cp "$HERE/input.circom" "$TMP/x%41.circom"
# The file which the (decoded) URI denotes: a different, clean file.
printf 'pragma circom 2.0.0;\n' > "$TMP/xA.circom"
"$BIN" -s "$TMP/out.sarif" "$TMP/x%41.circom" > "$TMP/out.txt" 2>&1
python3 - "$TMP/out.sarif" "$TMP/x%41.circom" <<'PY'
import json, os, sys, urllib.parse
doc = json.load(open(sys.argv[1])); real = os.path.realpath(sys.argv[2])
bad = 0; n = 0
for res in doc["runs"][0]["results"]:
    for kind in ("locations", "relatedLocations"):
        for loc in res.get(kind, []):
            n += 1
            uri = loc["physicalLocation"]["artifactLocation"]["uri"]
            # A URI reference is interpreted by percent-decoding its path component (RFC 3986, RFC 8089).
            path = urllib.parse.unquote(urllib.parse.urlparse(uri).path)
            if path != real:
                bad += 1
                print("VIOLATION: %s is located in %s, which denotes %s; the file which was read is %s"
                      % (res["ruleId"], uri, path, real))
if not n:
    print("no located finding"); sys.exit(3)
sys.exit(1 if bad else 0)
PY
