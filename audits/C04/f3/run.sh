#!/bin/sh
# C04 / f3: the SARIF artifact URI drops every `"` of the file name, so it names a file that was not read.
set -u
ROOT=${1:?repository root}
HERE=$(cd "$(dirname "$0")" && pwd)
(cd "$ROOT" && cargo build --offline -q -p circomspect >/dev/null 2>&1) || { echo "build failed"; exit 2; }
BIN="$ROOT/target/debug/circomspect"
TMP=$(mktemp -d); trap 'rm -rf "$TMP"' EXIT
cp "$HERE/input.circom" "$TMP/a\"b.circom"
# A different (clean) file whose name is the analysed file's name without the quote.
printf 'pragma circom 2.0.0;\n' > "$TMP/ab.circom"
"$BIN" -s "$TMP/out.sarif" "$TMP/a\"b.circom" > "$TMP/out.txt" 2>&1
python3 - "$TMP/out.sarif" "$TMP/a\"b.circom" <<'PY'
import json, os, sys, urllib.parse
doc = json.load(open(sys.argv[1])); real = os.path.realpath(sys.argv[2])
bad = 0; n = 0
for res in doc["runs"][0]["results"]:
    for kind in ("locations", "relatedLocations"):
        for loc in res.get(kind, []):
            n += 1
            uri = loc["physicalLocation"]["artifactLocation"]["uri"]
            path = urllib.parse.unquote(urllib.parse.urlparse(uri).path)
            if path != real and uri[len("file://"):] != real:
                bad += 1
                print("VIOLATION: %s is located in %s, but the file which was read is %s" % (res["ruleId"], uri, real))
if not n:
    print("no located finding"); sys.exit(3)
sys.exit(1 if bad else 0)
PY
