pragma circom 2.0.0;
template LessThan(n) {
    signal input in[2];
    signal output out;
    out <== in[0] - in[1] + n;
}
template Num2Bits(n) {
    signal input in;
    signal output out[n];
    for (var i = 0; i < n; i++) { out[i] <== in; }
}
template T(n) {
    signal input a;
    signal input b;
    signal output ok;
    component nb = Num2Bits(n);
    nb.in <== a;
    component lt = LessThan(n);
    lt.in[0] <== a;
    lt.in[1] <== b;
    ok <== lt.out;
}
component main = T(3);
