#!/bin/sh
# C04 / f5: the `LessThan` input finding is labelled at another statement (the `Num2Bits` input
# assignment of the same expression) instead of the `LessThan` input it is about.
set -u
ROOT=${1:?repository root}
HERE=$(cd "$(dirname "$0")" && pwd)
(cd "$ROOT" && cargo build --offline -q -p circomspect >/dev/null 2>&1) || { echo "build failed"; exit 2; }
BIN="$ROOT/target/debug/circomspect"
TMP=$(mktemp -d); trap 'rm -rf "$TMP"' EXIT
"$BIN" -s "$TMP/out.sarif" "$HERE/lessthan.circom" > "$TMP/out.txt" 2>&1
python3 - "$TMP/out.sarif" "$HERE/lessthan.circom" <<'PY'
import json, sys
doc = json.load(open(sys.argv[1]))
lines = open(sys.argv[2]).read().split("\n")
bad = 0; n = 0
for res in doc["runs"][0]["results"]:
    if "LessThan" not in res["message"]["text"]:
        continue
    for loc in res.get("locations", []):
        n += 1
        rg = loc["physicalLocation"]["region"]
        line = lines[rg["startLine"] - 1]
        # The primary label of a finding about an input to `LessThan` is in the statement which
        # assigns that input (`lt.in[k] <== ...`).
        if not line.strip().startswith("lt.in["):
            bad += 1
            print("VIOLATION: %r / %r is labelled at line %d: %r" % (res["message"]["text"], loc["message"]["text"], rg["startLine"], line.strip()))
if not n:
    print("no LessThan finding"); sys.exit(3)
sys.exit(1 if bad else 0)
PY
