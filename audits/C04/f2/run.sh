#!/bin/sh
# C04 / f2: the parse error for an unexpected end of file is labelled at byte 0 (line 1, column 1).
set -u
ROOT=${1:?repository root}
HERE=$(cd "$(dirname "$0")" && pwd)
(cd "$ROOT" && cargo build --offline -q -p circomspect >/dev/null 2>&1) || { echo "build failed"; exit 2; }
BIN="$ROOT/target/debug/circomspect"
TMP=$(mktemp -d); trap 'rm -rf "$TMP"' EXIT
"$BIN" -s "$TMP/out.sarif" "$HERE/truncated.circom" > "$TMP/out.txt" 2>&1
python3 - "$TMP/out.sarif" "$HERE/truncated.circom" <<'PY'
import json, sys
doc = json.load(open(sys.argv[1]))
src = open(sys.argv[2], encoding="utf-8", newline="").read()
lines = src.split("\n")
off = lambda l, c: sum(len(x) + 1 for x in lines[:l-1]) + c - 1
last_token_end = len(src.rstrip())
bad = 0; seen = 0
for res in doc["runs"][0]["results"]:
    if "EOF" not in res["message"]["text"]:
        continue
    seen += 1
    for loc in res.get("locations", []):
        rg = loc["physicalLocation"]["region"]
        start = off(rg["startLine"], rg["startColumn"])
        # The unexpected end of file is at (or after) the end of the last token, never before it.
        if start < last_token_end:
            bad += 1
            print("VIOLATION: %r is labelled at %d:%d (byte %d); the end of the input is at byte %d"
                  % (res["message"]["text"].split("\n")[0], rg["startLine"], rg["startColumn"], start, len(src)))
if not seen:
    print("the end-of-file error was not reported"); sys.exit(3)
sys.exit(1 if bad else 0)
PY
