pragma circom 2.0.0;
template Sq() {
    signal input a;
    signal output b;
    b <== a * a;
}
template T(n) {
    signal input in[n];
    signal output out[n];
    for (var i = 0; i < n; i++) {
        out[i] <== Sq()(in[i]);
    }
}
component main = T(3);
