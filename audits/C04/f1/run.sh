#!/bin/sh
# C04 / f1: findings synthesised for the loop counter introduced when an anonymous component
# occurs in a loop are labelled with the whole loop statement.
# usage: run.sh <repository root>; exits 0 iff the property holds on the inputs.
set -u
ROOT=${1:?repository root}
HERE=$(cd "$(dirname "$0")" && pwd)
(cd "$ROOT" && cargo build --offline -q -p circomspect >/dev/null 2>&1) || { echo "build failed"; exit 2; }
BIN="$ROOT/target/debug/circomspect"
TMP=$(mktemp -d); trap 'rm -rf "$TMP"' EXIT
"$BIN" -s "$TMP/nested.sarif" "$HERE/nested_loops.circom" > "$TMP/nested.out" 2>&1
"$BIN" -l INFO -s "$TMP/single.sarif" "$HERE/single_loop.circom" > "$TMP/single.out" 2>&1
python3 - "$TMP/nested.sarif" "$TMP/single.sarif" <<'PY'
import json, sys
bad = 0
for sarif in sys.argv[1:]:
    try:
        doc = json.load(open(sarif))
    except OSError:
        continue  # no findings at all: nothing is mislabelled
    for res in doc["runs"][0]["results"]:
        for kind in ("locations", "relatedLocations"):
            for loc in res.get(kind, []):
                pl = loc["physicalLocation"]; rg = pl["region"]
                path = pl["artifactLocation"]["uri"][len("file://"):]
                lines = open(path, encoding="utf-8", newline="").read().split("\n")
                off = lambda l, c: sum(len(x) + 1 for x in lines[:l-1]) + c - 1
                src = "\n".join(lines)
                text = src[off(rg["startLine"], rg["startColumn"]):off(rg["endLine"], rg["endColumn"])]
                # No message of the tool is about a whole loop statement; a label whose text is a
                # complete `for`/`while` statement (or a message naming the invented counter) is wrong.
                if text.startswith(("for", "while")) or "anon_var_" in res["message"]["text"]:
                    bad += 1
                    print("VIOLATION: %s %r labelled with %d:%d-%d:%d %r" % (res["ruleId"], res["message"]["text"],
                          rg["startLine"], rg["startColumn"], rg["endLine"], rg["endColumn"], text[:40] + "..."))
sys.exit(1 if bad else 0)
PY
