pragma circom 2.0.0;
template Sq() {
    signal input a;
    signal output b;
    b <== a * a;
}
template T(n) {
    signal input in[n][n];
    signal output out[n][n];
    for (var i = 0; i < n; i++) {
        for (var j = 0; j < n; j++) {
            out[i][j] <== Sq()(in[i][j]);
        }
    }
}
component main = T(3);
