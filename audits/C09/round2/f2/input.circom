pragma circom 2.0.0;

// The sub-template only checks its parameter: P(3) compiles, P(12) stops with a
// failed assertion when `c` is instantiated.
template Checked(k) {
    assert(k < 10);
}

template P(n) {
    signal input in;
    signal output out;
    var m = n + 1;
    component c = Checked(m);
    out <== in;
}

component main = P(3);
