#!/bin/sh
# Usage: run.sh <repository root>
# Exits 0 iff property C09 holds on input.circom, i.e. the tool does NOT claim that the
# parameter `n` / the local `m` of P are without effect. (They decide the assertion
# `assert(k < 10)` in the instantiated template `Checked`: P(3) passes it, P(12) fails it.)
set -u
ROOT="${1:?usage: run.sh <repository root>}"
HERE="$(cd "$(dirname "$0")" && pwd)"
BIN="$ROOT/target/debug/circomspect"
if [ ! -x "$BIN" ]; then
    (cd "$ROOT" && cargo build --offline -p circomspect >/dev/null 2>&1) || { echo "build failed"; exit 2; }
fi
SARIF="$(mktemp)"
"$BIN" "$HERE/input.circom" --sarif-file "$SARIF" >/dev/null 2>&1
python3 - "$SARIF" <<'PY'
import json, sys
results = json.load(open(sys.argv[1]))["runs"][0]["results"]
bad = []
for r in results:
    if r["ruleId"] not in ("CS0006", "CS0007", "CS0008"):
        continue
    text = r["message"]["text"]
    # Claims about the component `c` itself are not counted here.
    if "`n`" in text or "`m`" in text:
        bad.append(r["ruleId"] + ": " + text)
for b in bad:
    print("false claim:", b)
sys.exit(1 if bad else 0)
PY
RC=$?
rm -f "$SARIF"
exit $RC
