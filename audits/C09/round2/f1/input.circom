pragma circom 2.0.0;

// The call is made for the assertion in the callee: T(3) compiles, T(12) stops
// with a failed assertion. The result of the call is not needed.
function check(k) {
    assert(k < 10);
    return 0;
}

template T(n) {
    signal input in;
    signal output out;
    var v = n + 1;
    var ok = check(v);
    out <== in;
}

component main = T(3);
