#!/bin/sh
# usage: run.sh <repository root>
# Exits 0 iff property C09 holds on the inputs (no false `no side effect` claim),
# 1 if the property is violated, 2 on infrastructure problems.
ROOT="${1:?usage: run.sh <repository root>}"
DIR=$(cd "$(dirname "$0")" && pwd)
(cd "$ROOT" && cargo build --offline -p circomspect >/dev/null 2>&1) || { echo "build failed"; exit 2; }
BIN="$ROOT/target/debug/circomspect"
[ -x "$BIN" ] || { echo "no binary"; exit 2; }
status=0
for f in input.circom input_min.circom; do
    OUT=$("$BIN" "$DIR/$f" 2>&1)
    echo "$OUT"
    echo "$OUT" | grep -q "analyzing template 'T'" || { echo "template not analysed"; exit 2; }
    # `lc`/`x` (and the parameter `n`) determine the constraint on the input
    # signal `in`; any claim that they do not influence constraint generation is false.
    if echo "$OUT" | grep -q "is not used in witness or constraint generation"; then
        echo "C09 VIOLATED on $f"
        status=1
    fi
done
exit $status
