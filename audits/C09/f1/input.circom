pragma circom 2.0.0;

// The linear combination `lc` holds `n * in`; the constraint `lc === 6` is the
// constraint `n * in === 6` on the input signal `in`.
template T(n) {
    signal input in;
    signal output out;
    var lc = n * in;
    lc === 6;
    out <== in;
}

component main = T(3);
