pragma circom 2.0.0;

// `x * x === x` is the constraint `in * in === in` (in is boolean).
template T() {
    signal input in;
    signal output out;
    var x = in;
    x * x === x;
    out <== in;
}

component main = T();
