pragma circom 2.0.0;
template Check(k) {
    signal input a;
    a === k;
}
template T() {
    signal input in;
    signal output out;
    var v = 5;
    component c = Check(v);
    c.a <== 5;
    out <== in;
}
component main = T();
