#!/bin/sh
# C03 / f2: the SARIF file must hold the displayed findings at the same positions (file, line,
# column). input.circom is copied to a file whose name contains a double quote (legal on Linux).
# usage: run.sh <repository root>; exits 0 iff the property holds.
ROOT=${1:?usage: run.sh <repository root>}
HERE=$(cd "$(dirname "$0")" && pwd)
BIN="$ROOT/target/debug/circomspect"
(cd "$ROOT" && cargo build --offline -p circomspect >/dev/null 2>&1) || { echo "build failed"; exit 2; }
TMP=$(mktemp -d); trap 'rm -rf "$TMP"' EXIT
TMP=$(cd "$TMP" && pwd -P)
cp "$HERE/input.circom" "$TMP/we\"ird.circom"
# A different file which the SARIF positions of the pinned tree point to.
printf 'pragma circom 2.0.0;\n' > "$TMP/weird.circom"
"$BIN" "$TMP/we\"ird.circom" -s "$TMP/out.sarif" > "$TMP/out.txt" 2>&1
cat "$TMP/out.txt"
python3 - "$TMP/out.txt" "$TMP/out.sarif" <<'PY'
import json, re, sys, urllib.parse
shown = sorted(
    (m.group(1), int(m.group(2)), int(m.group(3)))
    for m in (re.match(r'^\s*┌─ (.*):(\d+):(\d+)$', l) for l in open(sys.argv[1], encoding='utf-8'))
    if m
)
sarif = []
for r in json.load(open(sys.argv[2]))['runs'][0]['results']:
    pl = r['locations'][0]['physicalLocation']
    uri = pl['artifactLocation']['uri']
    assert uri.startswith('file://')
    raw = uri[len('file://'):]
    sarif.append(((raw, urllib.parse.unquote(raw)), pl['region']['startLine'], pl['region']['startColumn']))
sarif.sort()
print('displayed positions:', shown)
print('SARIF positions    :', [(p[0], l, c) for p, l, c in sarif])
ok = len(shown) == len(sarif) and len(shown) > 0 and all(
    s[0] in t[0] and s[1:] == t[1:] for s, t in zip(shown, sarif)
)
if not ok:
    print('VIOLATION: the SARIF results are located in another file than the displayed findings')
sys.exit(0 if ok else 1)
PY
