pragma circom 2.0.0;
template A() {
    signal input in;
    signal output out;
    out <-- in;
}
