template Lib() {
    signal input a;
    signal output b;
    b <== a;
}
