#!/bin/sh
# C03 / f1: a finding that concerns only an included file (here: the missing version pragma of
# lib.circom, which is included by main.circom but not given on the command line) must not be
# displayed, counted, written to the SARIF file or reflected in the exit status.
# usage: run.sh <repository root>; exits 0 iff the property holds.
ROOT=${1:?usage: run.sh <repository root>}
HERE=$(cd "$(dirname "$0")" && pwd)
BIN="$ROOT/target/debug/circomspect"
(cd "$ROOT" && cargo build --offline -p circomspect >/dev/null 2>&1) || { echo "build failed"; exit 2; }
TMP=$(mktemp -d); trap 'rm -rf "$TMP"' EXIT
fail=0

# Control: lib.circom given by the user -> the P1004 finding for lib.circom exists and is displayed.
"$BIN" "$HERE/lib.circom" -l info -v > "$TMP/control.txt" 2>&1
grep -q 'warning\[P1004\]' "$TMP/control.txt" || { echo "control failed: no P1004 for lib.circom as a user file"; fail=1; }

# main.circom is clean; lib.circom is only included.
"$BIN" "$HERE/main.circom" -l info -v -s "$TMP/out.sarif" > "$TMP/out.txt" 2>&1
status=$?
cat "$TMP/out.txt"
shown=$(grep -c -E '^(error|warning|note)(\[[A-Za-z0-9]+\])?: ' "$TMP/out.txt")
if grep -E '^(error|warning|note)(\[[A-Za-z0-9]+\])?: ' "$TMP/out.txt" | grep -q 'lib\.circom'; then
    echo "VIOLATION: a finding about the only-included file lib.circom is displayed"; fail=1
fi
[ "$shown" -eq 0 ] || { echo "VIOLATION: $shown diagnostics displayed for a clean user file"; fail=1; }
[ "$status" -eq 0 ] || { echo "VIOLATION: exit status $status"; fail=1; }
grep -q 'No issues found\.' "$TMP/out.txt" || { echo "VIOLATION: summary is not 'No issues found.'"; fail=1; }
if [ -f "$TMP/out.sarif" ]; then
    n=$(python3 -c 'import json,sys; print(len(json.load(open(sys.argv[1]))["runs"][0].get("results", [])))' "$TMP/out.sarif")
    [ "$n" -eq 0 ] || { echo "VIOLATION: SARIF file holds $n results"; fail=1; }
fi

# Variant: an only-included file (lib.circom) includes a missing file (located report, hidden) and a
# file which exists but is not valid UTF-8 (report without location, displayed).
"$BIN" "$HERE/variant_unreadable/main.circom" -l info -v > "$TMP/var.txt" 2>&1
vstatus=$?
if grep -E '^(error|warning|note)(\[[A-Za-z0-9]+\])?: ' "$TMP/var.txt" | grep -q 'bin\.circom'; then
    # Informational only (does not decide the exit status of this script).
    echo "NOTE (variant): the read error of bin.circom, included only by the only-included lib.circom, is displayed (exit $vstatus), while the unresolved include next to it is hidden"
fi
exit $fail
