pragma circom 2.0.0;
include "bin.circom";
include "missing.circom";
template Lib() { signal input a; signal output b; b <== a; }
