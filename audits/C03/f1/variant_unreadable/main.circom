pragma circom 2.0.0;
include "lib.circom";
template Main() {
    signal input a;
    signal output b;
    b <== a;
}
