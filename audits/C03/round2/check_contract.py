#!/usr/bin/env python3
"""Checks the C03 output contract of circomspect on one project.

usage: check_contract.py BINARY [--full] -- ARGS...

ARGS are the input files and options other than -l/-a/-s/-v. The script runs the
tool unfiltered (-l info -v -s) and then over the lattice of levels, subsets of
the occurring ids, sarif on/off and verbose on/off, and checks:
  * exit status 0 iff nothing was displayed,
  * the summary count equals the number of displayed diagnostics,
  * the SARIF file holds exactly the displayed findings (id, level, position),
  * displayed == { baseline findings with level >= -l and id not in -a }.
Exit status 0 iff all checks hold.
"""
import itertools, json, os, re, subprocess, sys, tempfile

HEADER = re.compile(r'^(error|warning|note)(?:\[([A-Za-z0-9]+)\])?: (.*)$')
LOC = re.compile(r'^\s*┌─ (.*):(\d+):(\d+)$')
SUMMARY = re.compile(r'^circomspect: (No issues found\.|1 issue found\.|(\d+) issues found\.)$')
RANK = {'note': 0, 'warning': 1, 'error': 2}
LEVEL = {'info': 0, 'warning': 1, 'error': 2}

failures = []


def fail(msg):
    failures.append(msg)
    print('VIOLATION:', msg)


def run(binary, args, level, allow, sarif, verbose):
    cmd = [binary] + list(args) + ['-l', level]
    for a in allow:
        cmd += ['-a', a]
    sarif_path = None
    if sarif:
        fd, sarif_path = tempfile.mkstemp(suffix='.sarif')
        os.close(fd)
        os.unlink(sarif_path)
        cmd += ['-s', sarif_path]
    if verbose:
        cmd += ['-v']
    p = subprocess.run(cmd, capture_output=True, text=True)
    lines = p.stdout.split('\n')
    diags = []
    summary = None
    i = 0
    while i < len(lines):
        m = HEADER.match(lines[i])
        if m:
            loc = None
            if i + 1 < len(lines):
                l = LOC.match(lines[i + 1])
                if l:
                    loc = (l.group(1), int(l.group(2)), int(l.group(3)))
            diags.append({'level': m.group(1), 'id': m.group(2), 'msg': m.group(3), 'loc': loc})
        s = SUMMARY.match(lines[i])
        if s:
            if s.group(1).startswith('No'):
                summary = 0
            elif s.group(1).startswith('1 issue'):
                summary = 1
            else:
                summary = int(s.group(2))
        i += 1
    results = None
    if sarif:
        if os.path.exists(sarif_path):
            with open(sarif_path) as f:
                results = json.load(f)['runs'][0]['results']
            os.unlink(sarif_path)
    return {'cmd': cmd, 'rc': p.returncode, 'diags': diags, 'summary': summary,
            'sarif': results, 'stdout': p.stdout, 'stderr': p.stderr}


def key(d, with_id):
    return (d['level'], d['id'] if with_id else None, d['msg'], d['loc'])


def check_run(r, baseline, level, allow, sarif, verbose):
    tag = ' '.join(r['cmd'][1:])
    n = len(r['diags'])
    if r['rc'] not in (0, 1):
        fail(f'[{tag}] exit status {r["rc"]}; stderr: {r["stderr"][-300:]}')
        return
    if (r['rc'] == 0) != (n == 0):
        fail(f'[{tag}] exit status {r["rc"]} but {n} diagnostics displayed')
    if r['summary'] is None:
        fail(f'[{tag}] no summary line')
    elif r['summary'] != n:
        fail(f'[{tag}] summary says {r["summary"]} but {n} diagnostics displayed')
    # Filter clause.
    expected = [d for d in baseline if RANK[d['level']] >= LEVEL[level] and d['id'] not in allow]
    got = sorted(key(d, verbose) for d in r['diags'])
    exp = sorted(key(d, verbose) for d in expected)
    if got != exp:
        fail(f'[{tag}] displayed {len(got)} findings, the filter of the unfiltered run has {len(exp)}: '
             f'extra={[g for g in got if g not in exp][:3]} missing={[e for e in exp if e not in got][:3]}')
    if sarif:
        if r['sarif'] is None:
            fail(f'[{tag}] no SARIF file was written')
            return
        if len(r['sarif']) != n:
            fail(f'[{tag}] SARIF holds {len(r["sarif"])} results but {n} diagnostics displayed')
            return
        # Same ids, levels, positions (as multisets).
        s_items = []
        for res in r['sarif']:
            starts = set()
            for l in res.get('locations', []):
                pl = l['physicalLocation']
                starts.add((pl['artifactLocation']['uri'], pl['region']['startLine'], pl['region']['startColumn']))
            s_items.append((res['level'], res['ruleId'], res['message']['text'], starts))
        for d in r['diags']:
            found = None
            for idx, (lv, rid, msg, starts) in enumerate(s_items):
                if lv != d['level'] or msg != d['msg']:
                    continue
                if verbose and rid != d['id']:
                    continue
                if d['loc'] is None:
                    if starts:
                        continue
                else:
                    if not any(st[1] == d['loc'][1] and st[2] == d['loc'][2] for st in starts):
                        continue
                found = idx
                break
            if found is None:
                fail(f'[{tag}] displayed finding {key(d, True)} has no SARIF counterpart')
            else:
                s_items.pop(found)


def main():
    argv = sys.argv[1:]
    binary = argv[0]
    full = '--full' in argv[:argv.index('--')]
    args = argv[argv.index('--') + 1:]
    base = run(binary, args, 'info', [], True, True)
    print(f'baseline: rc={base["rc"]} displayed={len(base["diags"])} summary={base["summary"]} '
          f'sarif={None if base["sarif"] is None else len(base["sarif"])}')
    for d in base['diags']:
        print('   ', d['level'], d['id'], d['loc'], d['msg'][:70])
    check_run(base, base['diags'], 'info', [], True, True)
    if base['rc'] not in (0, 1):
        sys.exit(1)
    ids = sorted({d['id'] for d in base['diags'] if d['id']})
    if len(ids) > 5 and not full:
        ids = ids[:5]
    subsets = [c for k in range(len(ids) + 1) for c in itertools.combinations(ids, k)]
    for level in ('info', 'warning', 'error'):
        for allow in subsets:
            for sarif in (False, True):
                for verbose in (False, True):
                    r = run(binary, args, level, allow, sarif, verbose)
                    check_run(r, base['diags'], level, allow, sarif, verbose)
    print(f'{len(failures)} violation(s)')
    sys.exit(1 if failures else 0)


main()
