import random, subprocess, sys, os, re
binary = sys.argv[1]; seeds = sys.argv[2:]
random.seed(int(os.environ.get('SEED','1')))
N = int(os.environ.get('N','500'))
os.makedirs('scratch/fz', exist_ok=True)
srcs = [open(s).read() for s in seeds]
toks_re = re.compile(r'\s+|[A-Za-z_$][A-Za-z0-9_$]*|\d+|<==|==>|<--|-->|===|\+\+|--|&&|\|\||[<>=!]=|<<|>>|\*\*|.', re.S)
pool = []
for s in srcs: pool += [t for t in toks_re.findall(s) if not t.isspace()]
bad = 0
for i in range(N):
    s = random.choice(srcs)
    toks = toks_re.findall(s)
    for _ in range(random.randint(1, 4)):
        k = random.randrange(len(toks))
        op = random.random()
        if op < 0.3: del toks[k]
        elif op < 0.6: toks.insert(k, random.choice(pool))
        elif op < 0.8: toks[k] = random.choice(pool)
        else:
            j = random.randrange(len(toks)); toks[k], toks[j] = toks[j], toks[k]
    path = f'scratch/fz/f{i}.circom'
    open(path, 'w').write(''.join(toks))
    p = subprocess.run([binary, path, '-l', 'info', '-s', 'scratch/fz/o.sarif'], capture_output=True, text=True)
    if p.returncode not in (0, 1):
        bad += 1
        print('RC', p.returncode, path, p.stderr.strip().split('\n')[0:2])
    else:
        os.unlink(path)
print('done', bad)
