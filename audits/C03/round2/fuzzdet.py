import random, subprocess, sys, os, re
binary = sys.argv[1]; seeds = sys.argv[2:]
random.seed(int(os.environ.get('SEED','1')))
N = int(os.environ.get('N','300'))
os.makedirs('scratch/fz', exist_ok=True)
srcs = [open(s).read() for s in seeds]
toks_re = re.compile(r'\s+|[A-Za-z_$][A-Za-z0-9_$]*|\d+|<==|==>|<--|-->|===|\+\+|--|&&|\|\||[<>=!]=|<<|>>|\*\*|.', re.S)
pool = []
for s in srcs: pool += [t for t in toks_re.findall(s) if not t.isspace()]
HEADER = re.compile(r'^(error|warning|note)(?:\[([A-Za-z0-9]+)\])?: (.*)$')
LOC = re.compile(r'^\s*┌─ (.*):(\d+):(\d+)$')
def diags(out):
    lines = out.split('\n'); res = []
    for i,l in enumerate(lines):
        m = HEADER.match(l)
        if m:
            loc = LOC.match(lines[i+1]) if i+1 < len(lines) else None
            res.append((m.group(1), m.group(2), m.group(3), loc.groups() if loc else None))
    return sorted(res, key=repr)
bad = 0; analysed = 0
for i in range(N):
    s = random.choice(srcs)
    toks = toks_re.findall(s)
    for _ in range(random.randint(1, 2)):
        k = random.randrange(len(toks))
        op = random.random()
        if op < 0.3: del toks[k]
        elif op < 0.5: toks.insert(k, random.choice(pool))
        elif op < 0.8: toks[k] = random.choice(pool)
        else:
            j = random.randrange(len(toks)); toks[k], toks[j] = toks[j], toks[k]
    path = f'scratch/fz/d{i}.circom'
    open(path, 'w').write(''.join(toks))
    outs = []
    for r in range(4):
        p = subprocess.run([binary, path, '-l', 'info', '-v'], capture_output=True, text=True)
        outs.append((p.returncode, diags(p.stdout)))
    if len(outs[0][1]) > 1: analysed += 1
    if any(o != outs[0] for o in outs):
        bad += 1
        print('NONDET', path)
        a = set(outs[0][1]);
        for o in outs[1:]:
            b = set(o[1])
            if a != b: print('  diff', list(a-b)[:2], list(b-a)[:2]); break
    else:
        os.unlink(path)
print('done', bad, 'analysed', analysed)
