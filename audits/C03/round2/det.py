import sys,re,subprocess,hashlib,collections
binary=sys.argv[1]; args=sys.argv[2:]
res=collections.Counter(); samples={}
for i in range(int(__import__('os').environ.get('N','15'))):
    t=subprocess.run([binary]+args+['-l','info','-v'],capture_output=True,text=True).stdout
    t='\n'.join(l for l in t.split('\n') if not l.startswith('circomspect:'))
    blocks=[b.strip() for b in re.split(r'\n(?=(?:error|warning|note)\[)', t)]
    blocks=sorted(b for b in blocks if re.match(r'(error|warning|note)\[',b))
    h=hashlib.md5('\n'.join(blocks).encode()).hexdigest()
    res[(len(blocks),h)]+=1; samples[h]=blocks
print(dict(res))
if len(samples)>1:
    ks=list(samples)
    a,b=set(samples[ks[0]]),set(samples[ks[1]])
    for x in a-b: print('ONLY A:',x[:400])
    for x in b-a: print('ONLY B:',x[:400])
