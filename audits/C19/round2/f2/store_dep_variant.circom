pragma circom 2.0.0;
template B() { signal input x; signal output y; signal output z; y <== x; z <== x; }
