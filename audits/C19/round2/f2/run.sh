#!/bin/sh
# C19 / f2: the includes of a named file are resolved relative to that file.
# proj/main.circom is a symbolic link to ../store/real.circom; proj/dep.circom is next to the
# named file. Exits 0 iff the property holds.
ROOT=${1:?usage: run.sh <repository root>}
HERE=$(cd "$(dirname "$0")" && pwd)
BIN="$ROOT/target/debug/circomspect"
[ -x "$BIN" ] || (cd "$ROOT" && cargo build --offline -p circomspect >/dev/null 2>&1) || exit 2
TMP=$(mktemp -d) || exit 2
trap 'rm -rf "$TMP"' EXIT
mkdir -p "$TMP/proj" "$TMP/store"
cp "$HERE/store/real.circom" "$TMP/store/real.circom"
cp "$HERE/proj/dep.circom" "$TMP/proj/dep.circom"
ln -s ../store/real.circom "$TMP/proj/main.circom"
status=0

# Variant 1: dep.circom exists only next to the named file.
OUT=$("$BIN" "$TMP/proj/main.circom" 2>&1); code=$?
echo "$OUT"
if [ $code -ne 0 ] || echo "$OUT" | grep -q 'Failed to open file `dep.circom`'; then
    echo "VIOLATION (variant 1): include \"dep.circom\" of the named file proj/main.circom was not found although proj/dep.circom exists"
    status=1
fi

# Variant 2: another dep.circom (template B with an extra unused output z) lies next to the
# link target. The named file is proj/main.circom, so proj/dep.circom must be used and there
# is nothing to report.
cp "$HERE/store_dep_variant.circom" "$TMP/store/dep.circom"
OUT=$("$BIN" "$TMP/proj/main.circom" 2>&1); code=$?
echo "$OUT"
if [ $code -ne 0 ] || echo "$OUT" | grep -q 'output signal `z`'; then
    echo "VIOLATION (variant 2): the include was resolved to store/dep.circom (next to the link target) instead of proj/dep.circom (next to the named file)"
    status=1
fi
exit $status
