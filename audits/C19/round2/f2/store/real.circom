pragma circom 2.0.0;
include "dep.circom";
template A() { signal input x; signal output y; component b = B(); b.x <== x; y <== b.y; }
