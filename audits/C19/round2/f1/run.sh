#!/bin/sh
# C19 / f1: an included file must be read once. Exits 0 iff the property holds.
ROOT=${1:?usage: run.sh <repository root>}
HERE=$(cd "$(dirname "$0")" && pwd)
BIN="$ROOT/target/debug/circomspect"
[ -x "$BIN" ] || (cd "$ROOT" && cargo build --offline -p circomspect >/dev/null 2>&1) || exit 2
TMP=$(mktemp -d) || exit 2
trap 'kill $WRITER 2>/dev/null; rm -rf "$TMP"' EXIT
cp "$HERE/a.circom" "$TMP/a.circom"
status=0

# Check 1 (CLI only): the included file is a FIFO whose content is written exactly once.
# A tool that reads each included file once terminates with "No issues found."; a tool that
# opens the file a second time blocks for ever (no second writer).
mkfifo "$TMP/b.circom" || exit 2
(cat "$HERE/b_content.circom" > "$TMP/b.circom") &
WRITER=$!
OUT=$(timeout 20 "$BIN" "$TMP/a.circom" 2>&1)
code=$?
echo "$OUT"
if [ $code -eq 124 ]; then
    echo "VIOLATION: the tool did not terminate: the included file was opened a second time"
    status=1
elif [ $code -ne 0 ]; then
    echo "VIOLATION: unexpected exit status $code"
    status=1
fi

# Check 2 (if strace is available): count how often a regular included file is opened.
if command -v strace >/dev/null 2>&1; then
    rm -f "$TMP/b.circom"
    cp "$HERE/b_content.circom" "$TMP/b.circom"
    strace -f -e trace=open,openat -o "$TMP/trace.txt" "$BIN" "$TMP/a.circom" >/dev/null 2>&1
    n=$(grep -c '/b\.circom"' "$TMP/trace.txt")
    echo "b.circom was opened $n time(s)"
    [ "$n" -eq 1 ] || { echo "VIOLATION: included file opened $n times"; status=1; }
fi
exit $status
