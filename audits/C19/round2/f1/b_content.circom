pragma circom 2.0.0;
template B() { signal input x; signal output y; y <== x; }
