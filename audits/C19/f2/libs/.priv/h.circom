pragma circom 2.0.0;
template P() { signal input a; signal output b; b <== a; }
