#!/bin/sh
# usage: run.sh <repository root>; exits 0 iff property C19 holds on this input
ROOT="${1:?repository root}"
HERE="$(cd "$(dirname "$0")" && pwd)"
BIN="$ROOT/target/debug/circomspect"
if [ ! -x "$BIN" ]; then (cd "$ROOT" && cargo build --offline -p circomspect >/dev/null 2>&1) || exit 2; fi
cd "$HERE" || exit 2
rc=0
for f in src/a.circom src/a2.circom; do
  out="$("$BIN" -L libs "$f" 2>&1)"; st=$?
  echo "$out"
  if [ $st -ne 0 ] || echo "$out" | grep -q "Failed to open file"; then
    echo "VIOLATION: the include of $f exists in the -L directory libs/ but is not resolved (exit $st)"; rc=1
  fi
done
# Control: the same file passed as a library FILE is found.
"$BIN" -L libs/.hidden.circom src/a.circom >/dev/null 2>&1 || { echo "control failed"; rc=2; }
exit $rc
