pragma circom 2.0.0;
include ".priv/h.circom";
template A2() { signal input a; signal output b; component h = P(); h.a <== a; b <== h.b; }
