pragma circom 2.0.0;
include ".hidden.circom";
template A() { signal input a; signal output b; component h = H(); h.a <== a; b <== h.b; }
