#!/bin/sh
# usage: run.sh <repository root>; exits 0 iff property C19 holds on this input
ROOT="${1:?repository root}"
HERE="$(cd "$(dirname "$0")" && pwd)"
BIN="$ROOT/target/debug/circomspect"
if [ ! -x "$BIN" ]; then (cd "$ROOT" && cargo build --offline -p circomspect >/dev/null 2>&1) || exit 2; fi
cd "$HERE" || exit 2
rc=0
rm -f d/l1 d/l2
# Case 1: the named directory contains one symlink to itself.
ln -sfn . d/l1
out="$(timeout 60 "$BIN" d 2>&1)"; st=$?
echo "$out" | cut -c1-200
if [ $st -ne 0 ]; then
  echo "VIOLATION(case 1): a spurious 'Failed to open file d/l1/l1/...' error is reported for a clean circuit (exit $st)"; rc=1
fi
# Case 2: two symlinks to itself: 2^40 paths are walked.
ln -sfn . d/l2
timeout 30 "$BIN" d >/dev/null 2>&1; st=$?
if [ $st -eq 124 ]; then
  echo "VIOLATION(case 2): the walk over the cyclic directory does not terminate (timeout after 30 s)"; rc=1
elif [ $st -ne 0 ]; then
  echo "VIOLATION(case 2): exit $st"; rc=1
fi
rm -f d/l1 d/l2
exit $rc
