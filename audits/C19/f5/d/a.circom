pragma circom 2.0.0;
template A() { signal input a; signal output b; b <== a; }
