pragma circom 2.0.0;
// café (a Latin-1 byte in a comment: the file is not valid UTF-8)
template C() { signal input a; signal output b; b <== a; }
