pragma circom 2.0.0;
include "c.circom";
template A() { signal input a; signal output b; b <== a; }
