#!/bin/sh
# usage: run.sh <repository root>; exits 0 iff property C19 holds on this input
ROOT="${1:?repository root}"
HERE="$(cd "$(dirname "$0")" && pwd)"
BIN="$ROOT/target/debug/circomspect"
if [ ! -x "$BIN" ]; then (cd "$ROOT" && cargo build --offline -p circomspect >/dev/null 2>&1) || exit 2; fi
cd "$HERE" || exit 2
rc=0
# Case 1: only a.circom is named; b.circom and c.circom are only included.
# Nothing may be reported about them (the unresolvable include in b.circom is not reported either).
out1="$("$BIN" a.circom 2>&1)"; st1=$?
echo "$out1"
if [ $st1 -ne 0 ] || echo "$out1" | grep -q "c.circom"; then
  echo "VIOLATION(case 1): a finding about the only-included file c.circom is reported (exit $st1)"; rc=1
fi
# Case 2: direct.circom is named and includes c.circom, which cannot be read.
# The error must be located at the include statement (direct.circom, line 2).
out2="$("$BIN" direct.circom 2>&1)"; st2=$?
echo "$out2"
if ! echo "$out2" | grep -q "direct.circom:2:"; then
  echo "VIOLATION(case 2): the error about the include of c.circom is not located at the include statement"; rc=1
fi
exit $rc
