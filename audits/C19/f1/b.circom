pragma circom 2.0.0;
include "c.circom";
include "nonexistent.circom";
template Bt() { signal input a; signal output b; b <== a; }
