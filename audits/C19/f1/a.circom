pragma circom 2.0.0;
include "b.circom";
template A() { signal input a; signal output b; b <== a; }
