pragma circom 2.0.0;
template H() { signal input a; signal output b; b <== a; }
