#!/bin/sh
# usage: run.sh <repository root>; exits 0 iff property C19 holds on this input
ROOT="${1:?repository root}"
HERE="$(cd "$(dirname "$0")" && pwd)"
BIN="$ROOT/target/debug/circomspect"
if [ ! -x "$BIN" ]; then (cd "$ROOT" && cargo build --offline -p circomspect >/dev/null 2>&1) || exit 2; fi
cd "$HERE" || exit 2
[ -L mylib.circom ] || ln -sfn store/real.circom mylib.circom
rc=0
# -L mylib.circom names a library file; include "mylib.circom" must be resolved through it.
out="$("$BIN" -L mylib.circom src/a.circom 2>&1)"; st=$?
echo "$out"
if [ $st -ne 0 ] || echo "$out" | grep -q "Failed to open file"; then
  echo "VIOLATION: include \"mylib.circom\" is not resolved through -L mylib.circom (a symlink) (exit $st)"; rc=1
fi
# Conversely no library called real.circom was given: include "real.circom" cannot be resolved
# (src/real.circom does not exist) and must produce an error at the include statement.
out="$("$BIN" -L mylib.circom src/other.circom 2>&1)"; st=$?
echo "$out"
if ! echo "$out" | grep -q "other.circom:2:"; then
  echo "VIOLATION: include \"real.circom\" is resolved although no library of that name was given"; rc=1
fi
exit $rc
