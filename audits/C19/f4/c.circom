pragma circom 2.0.0;
template Ct() { signal input a; signal output b; b <== a; }
component main = Ct();
