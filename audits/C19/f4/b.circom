pragma circom 2.0.0;
template Bt() { signal input a; signal output b; b <== a; }
component main = Bt();
