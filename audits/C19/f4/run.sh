#!/bin/sh
# usage: run.sh <repository root>; exits 0 iff property C19 holds on this input
ROOT="${1:?repository root}"
HERE="$(cd "$(dirname "$0")" && pwd)"
BIN="$ROOT/target/debug/circomspect"
if [ ! -x "$BIN" ]; then (cd "$ROOT" && cargo build --offline -p circomspect >/dev/null 2>&1) || exit 2; fi
cd "$HERE" || exit 2
out="$("$BIN" a.circom 2>&1)"; st=$?
echo "$out"
if [ $st -ne 0 ] || echo "$out" | grep -q "Multiple main"; then
  echo "VIOLATION: a finding that concerns only the included files b.circom and c.circom is reported (exit $st)"; exit 1
fi
exit 0
