pragma circom 2.0.0;
include "b.circom";
include "c.circom";
template A() { signal input a; signal output b; component x = Bt(); x.a <== a; b <== x.b; }
