pragma circom 2.0.0;
template A() {
  signal input a;
  signal output b;
  signal output c;
  b <== a;
  c <== a;
}
/*
