#!/bin/sh
# Exits 0 iff property C05 HOLDS on this input: the block comment that is never closed in the
# included file lib.circom is reported as an error (and the run does not end with exit status 0).
# Usage: run.sh <repository root>
ROOT="${1:?usage: run.sh <repository root>}"
HERE="$(cd "$(dirname "$0")" && pwd)"
BIN="$ROOT/target/debug/circomspect"
if [ ! -x "$BIN" ]; then
  (cd "$ROOT" && cargo build --offline -p circomspect >/dev/null 2>&1) || { echo "build failed"; exit 2; }
fi
OUT="$("$BIN" "$HERE/main.circom" 2>&1)"
STATUS=$?
echo "$OUT"
echo "exit status: $STATUS"
if echo "$OUT" | grep -q "Unterminated comment" && [ "$STATUS" -ne 0 ]; then
  echo "C05 holds: the unclosed comment is reported"
  exit 0
fi
echo "C05 VIOLATED: lib.circom ends in an unclosed block comment, the whole file was dropped and no error was displayed"
exit 1
