pragma circom 2.0.0;
include "lib.circom";
template T() {
  signal input x;
  signal output y;
  component p = A();
  p.a <== x;
  y <== p.b;
}
component main = T();
