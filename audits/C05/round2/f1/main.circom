pragma circom 2.0.0;
include "a.circom";
template M() {
  signal input x;
  signal output y;
  component c = B();
  c.in <== x;
  y <== c.out;
}
component main = M();
