#!/bin/sh
# Usage: run.sh <repository root>
# Exits 0 iff the property holds: the unclosed block comment in b.circom (included by a.circom,
# which is included by main.circom) is reported as an error when main.circom is analysed.
ROOT="${1:?repository root}"
HERE="$(cd "$(dirname "$0")" && pwd)"
BIN="$ROOT/target/debug/circomspect"
if [ ! -x "$BIN" ]; then (cd "$ROOT" && cargo build --offline -p circomspect >/dev/null 2>&1) || exit 2; fi
OUT="$("$BIN" "$HERE/main.circom" 2>&1)"; STATUS=$?
echo "$OUT"; echo "exit status: $STATUS"
if [ "$STATUS" -ne 0 ] && echo "$OUT" | grep -q '^error'; then
  echo "HOLDS: an error is reported"; exit 0
fi
echo "VIOLATED: the unclosed comment swallowed template B silently (no error, exit $STATUS)"
# For reference: what is displayed when the comment is closed
TMP="$(mktemp -d)"; cp "$HERE/main.circom" "$HERE/a.circom" "$TMP/"; cp "$HERE/b_closed.circom.txt" "$TMP/b.circom"
echo "--- with the comment closed:"; "$BIN" "$TMP/main.circom" 2>&1 | grep -v '┌─'; rm -rf "$TMP"
exit 1
