pragma circom 2.0.0;
include "b.circom";
