pragma circom 2.0.0;
/* this block comment is never closed
template B() {
  signal input in;
  signal output out;
  signal output extra;
  out <== in;
  extra <== in;
}
