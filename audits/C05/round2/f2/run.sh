#!/bin/sh
# Usage: run.sh <repository root>
# e.circom is `/*é*/template T(){` (parse error: unexpected end of file). The comment is replaced
# by blanks of the same length, once counting characters (5 blanks) and once counting bytes
# (6 blanks). Exits 0 iff the displayed finding (message and line:column) of e.circom is the
# same as that of at least one of the two blanked files.
ROOT="${1:?repository root}"
HERE="$(cd "$(dirname "$0")" && pwd)"
BIN="$ROOT/target/debug/circomspect"
if [ ! -x "$BIN" ]; then (cd "$ROOT" && cargo build --offline -p circomspect >/dev/null 2>&1) || exit 2; fi
TMP="$(mktemp -d)"; mkdir "$TMP/o" "$TMP/c" "$TMP/b"
cp "$HERE/e.circom" "$TMP/o/e.circom"
printf '     template T(){' > "$TMP/c/e.circom"
printf '      template T(){' > "$TMP/b/e.circom"
show() { "$BIN" "$TMP/$1/e.circom" 2>&1 | grep -E '^(error|warning)|┌─' | sed "s#$TMP/$1/##"; }
O="$(show o)"; C="$(show c)"; B="$(show b)"
echo "original:        $O"; echo "blanks (chars):  $C"; echo "blanks (bytes):  $B"
rm -rf "$TMP"
if [ "$O" = "$C" ] || [ "$O" = "$B" ]; then echo HOLDS; exit 0; fi
echo VIOLATED; exit 1
