pragma circom 2.0.0;

// Run with --curve goldilocks (p = 2^64 - 2^32 + 1 = 18446744069414584321).
// 0xFFFFFFFFFFFFFFFF = 2^64 - 1 = p + 2^32 - 2 is the field element 2^32 - 2,
// and (2^32 - 2) >> 32 == 0.
function f(x) {
    if ((0xFFFFFFFFFFFFFFFF >> 32) == 0) {
        return x;
    }
    return 0;
}
