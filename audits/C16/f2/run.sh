#!/bin/sh
# Usage: run.sh <repository root>
# Exits 0 iff property C16 holds on shift_right.circom (Goldilocks) and
# other_ops.circom (BN254): every condition in these files is always true when
# a literal >= p denotes the field element `literal mod p`, so the tool must
# never report "always false" for them.
set -u
ROOT="${1:?usage: run.sh <repository root>}"
HERE="$(cd "$(dirname "$0")" && pwd)"
BIN="$ROOT/target/debug/circomspect"
if [ ! -x "$BIN" ]; then
    (cd "$ROOT" && cargo build --offline -p circomspect >/dev/null 2>&1) || { echo "build failed"; exit 2; }
fi
OUT1="$("$BIN" --curve goldilocks "$HERE/shift_right.circom" 2>&1)"
OUT2="$("$BIN" "$HERE/other_ops.circom" 2>&1)"
FAIL=0
for OUT in "$OUT1" "$OUT2"; do
    if echo "$OUT" | grep -q "panicked"; then
        echo "VIOLATION: panic"; FAIL=1
    fi
    N=$(echo "$OUT" | grep -c "This condition is always false")
    if [ "$N" -ne 0 ]; then
        echo "VIOLATION: $N always-true condition(s) reported as always false"; FAIL=1
    fi
done
[ "$FAIL" -eq 0 ] && echo "property holds"
exit "$FAIL"
