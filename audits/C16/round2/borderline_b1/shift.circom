pragma circom 2.0.0;
function f() {
    var a = 0;
    // Circom evaluates 1 >> 254 to 0 (k <= p/2, so x >> k = x / 2**k).
    if ((1 >> 254) == 0) { a += 1; }
    return a;
}
