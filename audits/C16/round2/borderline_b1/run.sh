#!/bin/sh
# BORDERLINE (not counted as a finding). Exits 0 iff `(1 >> 254) == 0` is evaluated (to true) on BN254.
root="$1"
bin="$root/target/debug/circomspect"
[ -x "$bin" ] || (cd "$root" && cargo build --offline -p circomspect >/dev/null 2>&1)
dir=$(cd "$(dirname "$0")" && pwd)
"$bin" "$dir/shift.circom" 2>&1 | grep -q "This condition is always true"
