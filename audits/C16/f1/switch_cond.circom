pragma circom 2.0.0;

// The literal below is the BN254 prime p, i.e. the field element 0.
function f(x) {
    var s = 21888242871839275222246405745257275088548364400416034343698204186575808495617 ? 1 : 2;
    if (s == 2) {
        return x;
    }
    return 0;
}
