#!/bin/sh
# Usage: run.sh <repository root>
# Exits 0 iff property C16 holds on switch_cond.circom: the tool must not claim
# that `s == 2` is always false (it is always true: the condition of the
# ternary is the literal p, i.e. the field element 0, so s == 2).
set -u
ROOT="${1:?usage: run.sh <repository root>}"
HERE="$(cd "$(dirname "$0")" && pwd)"
BIN="$ROOT/target/debug/circomspect"
if [ ! -x "$BIN" ]; then
    (cd "$ROOT" && cargo build --offline -p circomspect >/dev/null 2>&1) || { echo "build failed"; exit 2; }
fi
OUT="$("$BIN" "$HERE/switch_cond.circom" 2>&1)"
echo "$OUT" | grep -E "always (true|false)" || true
if echo "$OUT" | grep -q "panicked"; then
    echo "VIOLATION: panic"; exit 1
fi
if echo "$OUT" | grep -q "This condition is always false"; then
    echo "VIOLATION: '(p ? 1 : 2) == 2' reported as always false"; exit 1
fi
echo "property holds"
exit 0
