pragma circom 2.0.0;
template T() {
    signal input x;
    signal output s;
    var v;
    s <-- x \ (v + 2);
}
component main = T();
