pragma circom 2.0.0;
template T(k) {
    signal input x;
    signal output r[2];
    if (k == 0) {
        r <-- [x \ 2, x \ 3];
    } else {
        r[0] <== x;
        r[1] <== x + 1;
    }
    r[0] * 2 === x;
}
component main = T(0);
