#!/bin/sh
# usage: run.sh <repository root>; exits 0 iff property C08 holds on input.circom
ROOT=${1:?usage: run.sh <repository root>}
DIR=$(cd "$(dirname "$0")" && pwd)
(cd "$ROOT" && cargo build --offline -p circomspect >/dev/null 2>&1) || { echo "build failed" >&2; exit 2; }
BIN="$ROOT/target/debug/circomspect"
OUT=$(mktemp)
"$BIN" "$DIR/input.circom" -s "$OUT" >/dev/null 2>&1
python3 - "$OUT" <<'PY'
import json, sys
runs = json.load(open(sys.argv[1]))["runs"]
res = [r for run in runs for r in run.get("results", []) if r.get("ruleId") in ("CS0005", "CS0013")]
def line(l): return l["physicalLocation"]["region"]["startLine"]
def at(n): return [r for r in res if any(line(l) == n for l in r["locations"])]
def related(r): return sorted(line(l) for l in r.get("relatedLocations", []))
def fail(msg):
    print("C08 VIOLATED: " + msg); sys.exit(1)
if len(at(6)) != 1 or len(res) != 1: fail("expected exactly one finding, at line 6; got %d" % len(res))
r = at(6)[0]
if r["ruleId"] == "CS0005" and 11 not in related(r):
    fail("`r[0] * 2 === x` (line 11) is not listed as a constraint on `r` for `r <-- [...]` at line 6 (related lines: %s), although `r[0] <== x` / `r[1] <== x + 1` are" % related(r))
print("C08 holds on this input")
PY
RC=$?
rm -f "$OUT"
exit $RC
