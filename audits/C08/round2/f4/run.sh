#!/bin/sh
# usage: run.sh <repository root>; exits 0 iff property C08 holds on input.circom
ROOT=${1:?usage: run.sh <repository root>}
DIR=$(cd "$(dirname "$0")" && pwd)
(cd "$ROOT" && cargo build --offline -p circomspect >/dev/null 2>&1) || { echo "build failed" >&2; exit 2; }
BIN="$ROOT/target/debug/circomspect"
OUT=$(mktemp)
"$BIN" "$DIR/input.circom" -s "$OUT" >/dev/null 2>&1
python3 - "$OUT" <<'PY'
import json, sys
runs = json.load(open(sys.argv[1]))["runs"]
res = [r for run in runs for r in run.get("results", []) if r.get("ruleId") in ("CS0005", "CS0013")]
def line(l): return l["physicalLocation"]["region"]["startLine"]
def at(n): return [r for r in res if any(line(l) == n for l in r["locations"])]
def related(r): return sorted(line(l) for l in r.get("relatedLocations", []))
def fail(msg):
    print("C08 VIOLATED: " + msg); sys.exit(1)
if len(at(7)) != 1 or len(res) != 1: fail("expected exactly one finding, at line 7; got %d" % len(res))
r = at(7)[0]
if r["ruleId"] == "CS0005" and 10 not in related(r):
    fail("`r[i] * 4 === x` (line 10) is not listed as a constraint on `r[i]` for `r[i] <-- x \\ 4` at line 7 (related lines: %s)" % related(r))
print("C08 holds on this input")
PY
RC=$?
rm -f "$OUT"
exit $RC
