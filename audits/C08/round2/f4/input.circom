pragma circom 2.0.0;
template T(n) {
    signal input x;
    signal output r[n];
    var i;
    for (i = 0; i < n; i++) {
        r[i] <-- x \ 4;
    }
    for (i = 0; i < n; i++) {
        r[i] * 4 === x;
    }
}
component main = T(2);
