pragma circom 2.0.0;
template Sub() {
    signal input in;
    signal output out;
    out <== in;
}
template T(k) {
    signal input x;
    signal output s;
    component c = Sub();
    if (k == 0) {
        c.in <-- x \ 2;
        s <-- x \ 2;
    } else {
        c.in <== x;
        s <== x;
    }
}
component main = T(1);
