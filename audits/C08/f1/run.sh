#!/bin/bash
# Usage: run.sh <repository root>
# Exits 0 iff property C08 holds on the inputs of this directory: every `<--`
# statement of the (non-custom) templates yields exactly one finding (CS0005
# `signal assignment` or CS0013 `unnecessary signal assignment`) anchored at
# the statement.
set -u
ROOT=${1:?usage: run.sh <repository root>}
HERE=$(cd "$(dirname "$0")" && pwd)
BIN="$ROOT/target/debug/circomspect"
if [ ! -x "$BIN" ]; then
    (cd "$ROOT" && cargo build --offline -p circomspect >/dev/null 2>&1) || { echo "build failed"; exit 2; }
fi
status=0
check() {
    file=$1; shift
    sarif=$(mktemp)
    "$BIN" "$HERE/$file" -s "$sarif" >/dev/null 2>&1
    python3 - "$sarif" "$file" "$@" <<'PY' || status=1
import json, os, sys
sarif, name, lines = sys.argv[1], sys.argv[2], [int(l) for l in sys.argv[3:]]
results = []
if os.path.exists(sarif) and os.path.getsize(sarif) > 0:
    for run in json.load(open(sarif))["runs"]:
        results += run["results"]
ok = True
for line in lines:
    hits = [r for r in results
            if r["ruleId"] in ("CS0005", "CS0013")
            and r["locations"][0]["physicalLocation"]["region"]["startLine"] == line]
    print(f"{name}:{line}: {len(hits)} signal assignment finding(s) (expected 1)")
    ok = ok and len(hits) == 1
sys.exit(0 if ok else 1)
PY
    rm -f "$sarif"
}
# file, followed by the lines of its `<--` statements
check unassigned_var.circom 8
check unassigned_else.circom 13 15 17
exit $status
