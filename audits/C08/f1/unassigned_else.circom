pragma circom 2.0.0;

// Valid Circom: `k` is only assigned on the other path, and `z` is an array
// which is never written (all elements are 0).
template T(n) {
    signal input in;
    signal output out;
    signal aux;
    var k;
    var z[2];
    if (n == 0) {
        k = 1;
        out <-- in >> k;
    } else {
        out <-- in >> k;
    }
    aux <-- in >> z[1];
}

component main = T(1);
