pragma circom 2.0.0;

// Valid Circom: a `var` declared without an initial value holds 0.
template T() {
    signal input in;
    signal output out;
    var x;
    out <-- in * x;
}

component main = T();
