pragma circom 2.1.0;

// Control: the same statement with two different names gets two findings.
template X() {
    signal input in;
    signal (a, b) <-- (in >> 1, in >> 2);
}
