#!/bin/bash
# Usage: run.sh <repository root>
# Exits 0 iff every element of the tuple-form `<--` declaration yields its own
# finding (two findings on line 7 of dup_tuple_decl.circom, as for control.circom).
set -u
ROOT=${1:?usage: run.sh <repository root>}
HERE=$(cd "$(dirname "$0")" && pwd)
BIN="$ROOT/target/debug/circomspect"
if [ ! -x "$BIN" ]; then
    (cd "$ROOT" && cargo build --offline -p circomspect >/dev/null 2>&1) || { echo "build failed"; exit 2; }
fi
status=0
count() {
    sarif=$(mktemp)
    "$BIN" "$HERE/$1" -s "$sarif" >/dev/null 2>&1
    python3 - "$sarif" "$2" <<'PY'
import json, os, sys
sarif, line = sys.argv[1], int(sys.argv[2])
results = []
if os.path.exists(sarif) and os.path.getsize(sarif) > 0:
    for run in json.load(open(sarif))["runs"]:
        results += run["results"]
print(len([r for r in results if r["ruleId"] in ("CS0005", "CS0013")
           and r["locations"][0]["physicalLocation"]["region"]["startLine"] == line]))
PY
    rm -f "$sarif"
}
c=$(count control.circom 6); echo "control.circom:6: $c finding(s) (expected 2)"; [ "$c" = 2 ] || status=1
d=$(count dup_tuple_decl.circom 7); echo "dup_tuple_decl.circom:7: $d finding(s) (expected 2)"; [ "$d" = 2 ] || status=1
exit $status
