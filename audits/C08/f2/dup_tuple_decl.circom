pragma circom 2.1.0;

// NOT valid Circom (`a` is declared twice in one scope), but circomspect
// accepts it with a shadowing warning and analyses the template.
template X() {
    signal input in;
    signal (a, a) <-- (in >> 1, in >> 2);
}
