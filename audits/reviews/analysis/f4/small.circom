pragma circom 2.0.0;
template T() {
 signal input a; signal input b; signal output o[3];
 o[0] <== a;
 o[1] <-- b;
 o[1+1] <-- b;
}
component main = T();
