#!/bin/bash
# Exits 0 iff the behaviour is CORRECT: `o[0] <== a` is not listed as a constraint on
# `o[1+1]` ("The signal `o[(1 + 1)]` is constrained here"), also when value propagation was
# cut short by the time box (input.circom: 4000 chained variable definitions; takes about
# 45 s with a debug build). small.circom is the same template without the chain (control).
ROOT=${1:?usage: run.sh <repository root>}
HERE=$(cd "$(dirname "$0")" && pwd)
BIN=$ROOT/target/debug/circomspect
[ -x "$BIN" ] || BIN=$ROOT/target/release/circomspect
[ -x "$BIN" ] || { (cd "$ROOT" && cargo build --offline -p circomspect >/dev/null 2>&1); BIN=$ROOT/target/debug/circomspect; }
check() {
  SARIF=$(mktemp)
  "$BIN" -s "$SARIF" "$1" > /dev/null 2>&1
  python3 - "$SARIF" <<'PY'
import json, sys
j = json.load(open(sys.argv[1]))
bad = 0
for run in j["runs"]:
    for r in run["results"]:
        if "does not constrain the assigned signal" not in r["message"]["text"]:
            continue
        labels = [l.get("message", {}).get("text", "") for l in r.get("relatedLocations", []) + r.get("locations", [])]
        for text in labels:
            if "is constrained here" in text:
                print("  secondary label:", text)
                bad += 1
sys.exit(1 if bad else 0)
PY
  rc=$?; rm -f "$SARIF"; return $rc
}
echo "small.circom (propagation completes):"; check "$HERE/small.circom" || { echo "FAIL on the control"; exit 1; }
echo "input.circom (propagation cut short):"; check "$HERE/input.circom" || { echo "FAIL: a constraint on o[0] is listed for another element of o"; exit 1; }
exit 0
