# Generates the input: a long chain of variable definitions, which makes value propagation
# run into its 10 second time box, followed by the statements of interest.
import sys
n = int(sys.argv[1]) if len(sys.argv) > 1 else 4000
s = "pragma circom 2.0.0;\ntemplate T() {\n signal input a; signal input b; signal output o[3];\n var v0 = 1;\n"
for k in range(1, n):
    s += " var v%d = v%d + %d;\n" % (k, k - 1, k)
s += " o[0] <== a;\n o[1] <-- b;\n o[1+1] <-- b;\n}\ncomponent main = T();\n"
sys.stdout.write(s)
