pragma circom 2.1.0;
template LessThan(n) {
  signal input in[2];
  signal output out;
  out <== in[0] * in[1];
}
// Both inputs of LessThan are assigned at once from a signal array.
template T() {
  signal input in[2];
  signal output ok;
  component lt = LessThan(8);
  lt.in <== in;
  ok <== lt.out;
}
// The same with an anonymous component.
template U() {
  signal input in[2];
  signal output ok;
  ok <== LessThan(8)(in);
}
// Control: the form the commit does handle.
template V() {
  signal input in[2];
  signal output ok;
  component lt = LessThan(8);
  lt.in <== [in[0], in[1]];
  ok <== lt.out;
}
