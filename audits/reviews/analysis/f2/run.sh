#!/bin/bash
# Exits 0 iff the behaviour is CORRECT: the unconstrained inputs of LessThan are
# reported (CS0011-style warning "Inputs to `LessThan` need to be constrained")
# also when they are assigned as a whole array `lt.in <== in`.
ROOT=${1:?usage: run.sh <repository root>}
HERE=$(cd "$(dirname "$0")" && pwd)
BIN=$ROOT/target/debug/circomspect
[ -x "$BIN" ] || BIN=$ROOT/target/release/circomspect
[ -x "$BIN" ] || { (cd "$ROOT" && cargo build --offline -p circomspect >/dev/null 2>&1); BIN=$ROOT/target/debug/circomspect; }
SARIF=$(mktemp)
"$BIN" -s "$SARIF" "$HERE/input.circom" > /dev/null 2>&1
python3 - "$SARIF" <<'PY'
import json, sys
j = json.load(open(sys.argv[1]))
lines = set()
for run in j["runs"]:
    for r in run["results"]:
        if "LessThan" in r["message"]["text"] and "need to be constrained" in r["message"]["text"]:
            for l in r["locations"]:
                lines.add(l["physicalLocation"]["region"]["startLine"])
print("lines with an unconstrained-LessThan warning:", sorted(lines))
ok = True
if 26 not in lines:
    print("control failed: `lt.in <== [in[0], in[1]]` (line 26) is not reported"); ok = False
if 12 not in lines:
    print("FAIL: `lt.in <== in` (line 12) is not reported"); ok = False
if 19 not in lines:
    print("FAIL: `LessThan(8)(in)` (line 19) is not reported"); ok = False
sys.exit(0 if ok else 1)
PY
rc=$?
rm -f "$SARIF"
exit $rc
