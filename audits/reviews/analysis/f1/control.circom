pragma circom 2.0.0;
template T(my_var_n) {
  signal input in;
  signal output out;
  var my_var_x = in * 2 + 1;
  out <== in;
}
component main = T(1);
