#!/bin/bash
# Exits 0 iff the behaviour is CORRECT: a user-written variable / parameter whose
# name starts with `anon_var_` gets the same findings as any other name.
ROOT=${1:?usage: run.sh <repository root>}
HERE=$(cd "$(dirname "$0")" && pwd)
BIN=$ROOT/target/debug/circomspect
[ -x "$BIN" ] || BIN=$ROOT/target/release/circomspect
[ -x "$BIN" ] || { (cd "$ROOT" && cargo build --offline -p circomspect >/dev/null 2>&1); BIN=$ROOT/target/debug/circomspect; }
out=$("$BIN" -l INFO "$HERE/input.circom" 2>&1); rc=$?
ctl=$("$BIN" -l INFO "$HERE/control.circom" 2>&1); rcc=$?
echo "$out"
n_in=$(echo "$out" | grep -c '^\(warning\|note\|error\)')
n_ctl=$(echo "$ctl" | grep -c '^\(warning\|note\|error\)')
echo "findings(input)=$n_in exit=$rc ; findings(control, renamed to my_var_*)=$n_ctl exit=$rcc"
echo "$out" | grep -q 'anon_var_x` is assigned a value, but this value is never read' || { echo "FAIL: unused variable anon_var_x not reported"; exit 1; }
echo "$out" | grep -q 'parameter `anon_var_n` is never' || { echo "FAIL: unused parameter anon_var_n not reported"; exit 1; }
echo "$out" | grep -q 'Field element arithmetic' || { echo "FAIL: field arithmetic in the initialiser of anon_var_x not reported"; exit 1; }
[ "$n_in" = "$n_ctl" ] && [ "$rc" = "$rcc" ] || { echo "FAIL: findings differ from the renamed control"; exit 1; }
exit 0
