#!/bin/bash
# Exits 0 iff the behaviour is CORRECT: the inputs `a` and `b` of a component which is
# `LessThan` on one branch (and another template on the other) are reported as not
# constrained to be non-negative, as they were before ee9259e.
ROOT=${1:?usage: run.sh <repository root>}
HERE=$(cd "$(dirname "$0")" && pwd)
BIN=$ROOT/target/debug/circomspect
[ -x "$BIN" ] || BIN=$ROOT/target/release/circomspect
[ -x "$BIN" ] || { (cd "$ROOT" && cargo build --offline -p circomspect >/dev/null 2>&1); BIN=$ROOT/target/debug/circomspect; }
out=$("$BIN" "$HERE/input.circom" 2>&1)
echo "$out" | grep -A4 'Inputs to `LessThan`'
n=$(echo "$out" | grep -c 'Inputs to `LessThan` need to be constrained')
echo "unconstrained-LessThan warnings: $n (expected 2: for a and for b)"
[ "$n" = 2 ]
