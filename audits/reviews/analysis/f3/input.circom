pragma circom 2.1.0;
template LessThan(n) {
  signal input in[2];
  signal output out;
  out <== in[0] * in[1];
}
template Other(n) {
  signal input in[2];
  signal output out;
  out <== in[0] + in[1];
}
// `c` is the Circomlib-style LessThan when n == 1: its inputs are not range checked.
template T(n) {
  signal input a;
  signal input b;
  signal output ok;
  component c;
  if (n == 1) { c = LessThan(8); } else { c = Other(8); }
  c.in[0] <== a;
  c.in[1] <== b;
  ok <== c.out;
}
component main = T(1);
