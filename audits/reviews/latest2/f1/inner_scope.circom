pragma circom 2.1.0;
template Two() {
    signal input a;
    signal input b;
    signal output p;
    p <== a * b;
}
template T(n) {
    signal input x;
    signal output y;
    signal output z;
    if (n > 0) {
        var Two_14_255 = 7;
        y <== Two()(a <== x, b <== x);
        z <== x * Two_14_255;
    }
}
