pragma circom 2.1.0;
template Sq() {
    signal input in;
    signal output out;
    out <== in * in;
}
template T() {
    signal input x;
    signal output y;
    signal output z;
    y <== Sq()(x);
    var Sq_11_191 = 3;
    z <== x * Sq_11_191;
}
