#!/bin/sh
# usage: run.sh <repository root>; exits 0 iff the behaviour is correct.
#
# collide.circom: the template T declares the variable `Sq_11_191` once; nothing written in the
# program has that name, so no `shadowing variable` finding may be displayed (control.circom, with
# the variable called `Sq_11_192`, shows the expected output: "No issues found.", exit 0).
#
# inner_scope.circom: the user's declaration `var Two_14_255 = 7` stands in an inner block before
# the anonymous component; the value 7 is read by `z <== x * Two_14_255`, so neither a shadowing
# nor a `value never read` finding is due ("No issues found.", exit 0).
ROOT=${1:?repository root}
DIR=$(cd "$(dirname "$0")" && pwd)
BIN="$ROOT/target/debug/circomspect"
[ -x "$BIN" ] || (cd "$ROOT" && cargo build --offline -p circomspect >/dev/null 2>&1)
BAD=0

OUT=$("$BIN" "$DIR/collide.circom" 2>&1); RC=$?
echo "$OUT"
echo "exit status: $RC"
if echo "$OUT" | grep -q "shadows previous declaration"; then
    echo "INCORRECT: a shadowing finding against the generated component Sq_11_191 is displayed"
    BAD=1
fi
[ $RC -eq 0 ] || BAD=1

OUT=$("$BIN" "$DIR/inner_scope.circom" 2>&1); RC=$?
echo "$OUT"
echo "exit status: $RC"
if echo "$OUT" | grep -q "is never read\|shadows previous declaration"; then
    echo "INCORRECT: the generated statements were bound to the user's variable Two_14_255"
    BAD=1
fi
[ $RC -eq 0 ] || BAD=1

exit $BAD
