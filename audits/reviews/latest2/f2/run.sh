#!/bin/sh
# usage: run.sh <repository root>; exits 0 iff the behaviour is correct.
#
# idx.circom: `r[p] <-- a >> 1; r[0] === a;` with p the BN254 prime. A literal denotes a field
# element, so r[p] is r[0] and the constraint `r[0] === a` has to be listed as a secondary
# location of the `signal assignment` finding for `r[p] <-- ...`, however many passes value
# propagation performed before it was stopped (C08, C20).
#
# Primary check (deterministic): a small program against the library with the `verif` feature of
# program_structure, which replaces the 10 s time box by a number of passes (0, 1, 2 and unlimited).
# Fallback (if the probe cannot be built): the real binary on big.circom (4000 filler statements
# before the same three statements, so that the 10 s time box of value propagation expires before
# the literals are reached on a debug build; takes about 40 s).
ROOT=$(cd "${1:?repository root}" && pwd)
DIR=$(cd "$(dirname "$0")" && pwd)
TMP=$(mktemp -d)
trap 'rm -rf "$TMP"' EXIT
mkdir -p "$TMP/probe/src"
sed "s|@ROOT@|$ROOT|g" "$DIR/probe/Cargo.toml.in" > "$TMP/probe/Cargo.toml"
cp "$DIR/probe/src/main.rs" "$TMP/probe/src/main.rs"
cp "$ROOT/Cargo.lock" "$TMP/probe/Cargo.lock"
if (cd "$TMP/probe" && CARGO_TARGET_DIR="$ROOT/target/review_probe" cargo build --offline >"$TMP/build.log" 2>&1); then
    PROBE="$ROOT/target/review_probe/debug/probe"
    BAD=0
    for passes in - 0 1 2; do
        OUT=$("$PROBE" "$DIR/idx.circom" T $passes -)
        N=$(echo "$OUT" | grep "^CS0005" | grep -c "is constrained here")
        echo "value passes allowed: $passes -> $(echo "$OUT" | head -1); constraint listed: $N"
        [ "$N" -eq 1 ] || BAD=1
    done
    if [ $BAD -ne 0 ]; then
        echo "INCORRECT: the constraint r[0] === a is not listed for r[p] <-- ... when propagation stops early"
        exit 1
    fi
    exit 0
fi
echo "probe build failed (see below), falling back to the real binary on big.circom"; tail -5 "$TMP/build.log"
BIN="$ROOT/target/debug/circomspect"
[ -x "$BIN" ] || (cd "$ROOT" && cargo build --offline -p circomspect >/dev/null 2>&1)
OUT=$("$BIN" "$DIR/big.circom" 2>&1)
echo "$OUT" | grep -A8 "does not constrain" | cut -c1-160
if echo "$OUT" | grep -q "is constrained here"; then exit 0; fi
echo "INCORRECT: the constraint r[0] === a is not listed for r[p] <-- ..."
exit 1
