use std::path::PathBuf;
use program_analysis::analysis_runner::AnalysisRunner;
use program_analysis::get_analysis_passes;
use program_structure::cfg::verif;
use program_structure::constants::Curve;

// usage: probe <file> <template> <value_passes|-> <degree_passes|->
fn main() {
    let args: Vec<String> = std::env::args().collect();
    let file = PathBuf::from(&args[1]);
    let name = &args[2];
    let parse = |s: &String| if s == "-" { None } else { Some(s.parse::<usize>().unwrap()) };
    verif::VALUE_PASSES.with(|c| c.set(parse(&args[3])));
    verif::DEGREE_PASSES.with(|c| c.set(parse(&args[4])));
    let (mut runner, reports) = AnalysisRunner::new(Curve::default()).with_files(&[file]);
    for r in &reports {
        println!("PARSE: {}", r.message());
    }
    let cfg = runner.take_template(name).expect("template lifts");
    println!(
        "value passes run: {}, degree passes run: {}",
        verif::VALUE_PASSES_RUN.with(|c| c.get()),
        verif::DEGREE_PASSES_RUN.with(|c| c.get())
    );
    let mut out = Vec::new();
    for pass in get_analysis_passes() {
        for r in pass(&mut runner, &cfg) {
            let src = |l: &std::ops::Range<usize>, f: usize| {
                let lib = runner.file_library();
                let _ = f;
                let _ = lib;
                format!("{}..{}", l.start, l.end)
            };
            let mut line = format!("{} | {}", r.id(), r.message());
            for l in r.primary() {
                line += &format!(" | P[{}] {}", src(&l.range, l.file_id), l.message);
            }
            for l in r.secondary() {
                line += &format!(" | S[{}] {}", src(&l.range, l.file_id), l.message);
            }
            out.push(line);
        }
    }
    out.sort();
    for l in out {
        println!("{l}");
    }
}
