pragma circom 2.0.0;
template T() {
    signal input a;
    signal output r[2];
    r[21888242871839275222246405745257275088548364400416034343698204186575808495617] <-- a >> 1;
    r[0] === a;
    r[1] <== a;
}
