#!/bin/sh
# usage: run.sh <repository root>; exits 0 iff the behaviour is CORRECT (= as before 2b59069).
# checked.circom: both inputs of LessThan(8) are range checked by Num2Bits(8) on the very same
# expressions (`x[n - 1]`, n a template parameter that is never assigned, and `x[0]`). The checks
# stand in the entry block, the LessThan after an `if`, i.e. in another basic block. Nothing may
# be reported (the parent 8d32e7f / 463752d prints "No issues found.", exit 0).
ROOT=${1:?repository root}
DIR=$(cd "$(dirname "$0")" && pwd)
BIN="$ROOT/target/debug/circomspect"
[ -x "$BIN" ] || (cd "$ROOT" && cargo build --offline -p circomspect >/dev/null 2>&1)
OUT=$("$BIN" "$DIR/checked.circom" 2>&1); RC=$?
echo "$OUT"; echo "exit status: $RC"
if echo "$OUT" | grep -q "Inputs to \`LessThan\` need to be constrained"; then
    echo "INCORRECT: x[n - 1] is reported as unchecked although Num2Bits(8) checks it"
    exit 1
fi
[ $RC -eq 0 ] || exit 1
exit 0
