pragma circom 2.0.0;
include "comparators.circom";
template T(n) {
    signal input x[n];
    signal output o;
    component nb[2];
    nb[0] = Num2Bits(8);
    nb[0].in <== x[n - 1];
    nb[1] = Num2Bits(8);
    nb[1].in <== x[0];
    var s = 1;
    if (n > 2) {
        s = 2;
    }
    component lt = LessThan(8);
    lt.in[0] <== x[n - 1];
    lt.in[1] <== x[0];
    o <== lt.out * s;
}
