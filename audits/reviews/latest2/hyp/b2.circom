pragma circom 2.0.0;
include "lib.circom";
template T(n) {
    signal input x[n+1];
    signal output o;
    component nb[n];
    var i;
    for (i = 0; i < n; i++) {
        nb[i] = Num2Bits(8);
        nb[i].in <== x[i];
    }
    component lt = LessThan(8);
    lt.in <== [x[i], x[i]+0];
    o <== lt.out;
}
