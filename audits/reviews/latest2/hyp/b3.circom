pragma circom 2.0.0;
include "lib.circom";
template T(n) {
    signal input x[n+1];
    signal output o;
    var k = 0;
    var a[2];
    a[0] = 0;
    component nb = Num2Bits(8);
    nb.in <== x[k];
    component nc = Num2Bits(8);
    nc.in <== x[a[0]];
    k = k + 1;
    a[0] = 1;
    component lt = LessThan(8);
    lt.in[0] <== x[k];
    lt.in[1] <== x[a[0]];
    o <== lt.out;
}
