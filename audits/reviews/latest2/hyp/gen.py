import sys,re
# usage: gen.py template.in out.circom ; placeholder @NAME@ replaced by <Tmpl>_<line>_<off> of marker "/*A*/" occurrence
src=open(sys.argv[1]).read()
tmpl=sys.argv[3]
name=tmpl+"_00_000"
for _ in range(10):
    s=src.replace("@NAME@",name)
    off=s.index("/*A*/")+5
    line=s[:off].count("\n")+1
    new="%s_%d_%d"%(tmpl,line,off)
    if new==name: break
    name=new
open(sys.argv[2],"w").write(s)
print(name)
