pragma circom 2.0.0;
template T() {
    signal input a;
    signal output r[2];
    r[1] <-- a >> 1;
    r[0] <== a;
}
