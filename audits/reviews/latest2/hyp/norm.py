import sys,re
txt=sys.stdin.read()
chunks=[c.strip('\n') for c in re.split(r'\n(?=(?:warning|error|note|circomspect):)', txt)]
chunks=[c for c in chunks if not c.startswith('circomspect: analyzing')]
print("\n\n".join(sorted(chunks)))
