pragma circom 2.1.0;
include "lib.circom";
template T(n) {
    signal input x[n+1];
    signal output o[n+1];
    component nb[n];
    component lt[n+1];
    var i;
    for (i = 0; i < n; i++) {
        nb[i] = Num2Bits(8);
        nb[i].in <== x[i];
        lt[i] = LessThan(8);
        lt[i].in[0] <== x[i];
        lt[i].in[1] <== 5;
        o[i] <== lt[i].out;
    }
    lt[i] = LessThan(8);
    lt[i].in[0] <== x[i];
    lt[i].in[1] <== 5;
    o[i] <== lt[i].out;
}
template U(n) {
    signal input x[n];
    signal output o[n];
    for (var i = 0; i < n; i++) {
        _ <== Num2Bits(8)(x[i]);
        o[i] <== LessThan(8)([x[i], 5]);
    }
}
