pragma circom 2.1.0;
include "lib.circom";
template Sq() {
    signal input in;
    signal output out;
    out <== in * in;
}
template Two() {
    signal input a;
    signal input b;
    signal output p;
    signal output q;
    p <== a * b;
    q <-- a + b;
}
template T(n) {
    signal input x[n];
    signal output y[n];
    signal output z[n][n];
    signal w[n];
    var anon_var_21_400 = 3;
    for (var i = 0; i < n; i++) {
        y[i] <== Sq()(x[i]);
        for (var j = 0; j < n; j++) {
            if (j < i) {
                z[i][j] <== LessThan(8)([x[i], x[j]]);
            } else {
                (z[i][j], w[j]) <== Two()(x[i], x[j]);
            }
        }
    }
    var k = 0;
    while (k < n) {
        (_, _) <== Two()(a <-- x[k], b <== x[k]);
        k++;
    }
    var anon_var_33_703 = n * 2;
    anon_var_33_703 = anon_var_33_703 + 1;
    y[0] === anon_var_21_400;
}
