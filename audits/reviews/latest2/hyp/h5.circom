pragma circom 2.0.0;
template T() {
    signal output o;
    var anon_var@1_2 = 0;
    o <== anon_var@1_2;
}
