pragma circom 2.0.0;
include "c.circom";
template B() { signal input x; signal output y; y <== x; }
