#!/bin/sh
# Usage: run.sh <repository root>. Exits 0 iff the behaviour is correct.
# a.circom (named) includes b.circom (only included), which includes c.circom, which does not
# exist. The definitions of c.circom (template C, used by A) are missing from the analysis, so
# an error has to be displayed and the exit status has to be non-zero.
root=${1:?repository root}
here=$(cd "$(dirname "$0")" && pwd)
bin="$root/target/debug/circomspect"
[ -x "$bin" ] || (cd "$root" && cargo build --offline -p circomspect >/dev/null 2>&1)
[ -x "$bin" ] || { echo "no binary"; exit 2; }
tmp=$(mktemp -d) || exit 2
trap 'rm -rf "$tmp"' EXIT
cp "$here/a.circom" "$here/b.circom" "$tmp/"
out=$("$bin" "$tmp/a.circom" 2>&1); status=$?
echo "$out"
echo "exit status: $status"
# Control: the same include graph with a c.circom that exists but cannot be parsed IS reported.
printf '/* unterminated' > "$tmp/c.circom"
"$bin" "$tmp/a.circom" >/dev/null 2>&1; control=$?
echo "control (c.circom exists, unterminated comment) exit status: $control"
if [ "$status" -ne 0 ] && echo "$out" | grep -q 'c\.circom'; then
    exit 0
fi
echo "WRONG: the unresolved include of an included file is not reported (No issues found.)"
exit 1
