pragma circom 2.0.0;
include "b.circom";
template A() { signal input x; signal output y; component c = C(); c.x <== x; y <== c.y; }
