import sys
N=int(sys.argv[1])
s="pragma circom 2.0.0;\ntemplate T(n){\n signal input in; signal output out;\n"
for i in range(N): s+=f" var v{i} = 0;\n"
s+=" for (var i = 0; i < n; i++) {\n"
for i in range(N): s+=f"  if (v{i} < i) {{ v{i} = v{(i+1)%N} + 1; }}\n"
s+=" }\n out <== in;\n}\n"
open(f"loopifs{N}.circom","w").write(s)
