pragma circom 2.0.0;
include "lib.circom";
component main = Num2Bits(300);
