pragma circom 2.0.0;
include "lib.circom";
template A() { signal input a; signal output b; b <== a; }
template A() { signal input a; signal output b; b <== a; }
component main = Num2Bits(254);
