pragma circom 2.0.0;
include "d.circom";
template B() { signal input a; signal output b; b <== a; }
