pragma circom 2.0.0;
template anon_var() { signal input a; signal output b; b <== a; }
template U(n) { signal input x; signal output y; signal t; t <-- anon_var()(x); y <== t;
  for (var i = 0; i < n; i++) { y === anon_var()(x); } }
