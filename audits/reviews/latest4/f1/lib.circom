pragma circom 2.0.0;
template Num2Bits(n) {
    signal input in;
    signal output out[n];
    var lc1=0;
    var e2=1;
    for (var i = 0; i<n; i++) {
        out[i] <-- (in >> i) & 1;
        out[i] * (out[i] -1 ) === 0;
        lc1 += out[i] * e2;
        e2 = e2+e2;
    }
    lc1 === in;
}
