#!/bin/sh
# exits 0 iff the finding about the main component of a.circom is also displayed when b.circom is named too
ROOT="$1"; BIN="$ROOT/target/debug/circomspect"
[ -x "$BIN" ] || (cd "$ROOT" && cargo build --offline -p circomspect >/dev/null 2>&1)
D="$(cd "$(dirname "$0")" && pwd)"
one=$("$BIN" "$D/a.circom" | grep -c "Using \`Num2Bits\` to convert")
two=$("$BIN" "$D/a.circom" "$D/b.circom" | grep -c "Using \`Num2Bits\` to convert")
echo "a alone: $one finding(s); a and b: $two finding(s) (expected 2)"
[ "$one" -eq 1 ] && [ "$two" -eq 2 ]
