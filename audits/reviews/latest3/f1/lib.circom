pragma circom 2.0.0;
template Num2Bits(n) { signal input in; signal output out[n]; out[0] <== in; }
template X() { signal input a; signal output b; b <== a; }
template X() { signal input a; signal output b; b <== a; }
