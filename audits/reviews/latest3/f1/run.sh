#!/bin/sh
# $1 = repository root. Exits 0 iff the behaviour is CORRECT: the instantiation
# `component main = Num2Bits(254)` in the named file is flagged although a file which was
# only included defines a template twice.
ROOT=${1:?usage: run.sh <repository root>}
HERE=$(cd "$(dirname "$0")" && pwd)
BIN="$ROOT/target/debug/circomspect"
[ -x "$BIN" ] || (cd "$ROOT" && cargo build --offline -p circomspect >/dev/null 2>&1)
OUT=$("$BIN" "$HERE/main.circom" 2>&1)
echo "$OUT"
echo "$OUT" | grep -q 'Circomlib template `Num2Bits` instantiated here' || exit 1
exit 0
