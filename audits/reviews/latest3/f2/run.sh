#!/bin/sh
# $1 = repository root. Exits 0 iff the behaviour is CORRECT: a main component which contains
# an anonymous component (it is not desugared and not analysed) is reported as an error and the
# exit status is non-zero, also when a file which was only included defines a template twice.
ROOT=${1:?usage: run.sh <repository root>}
HERE=$(cd "$(dirname "$0")" && pwd)
BIN="$ROOT/target/debug/circomspect"
[ -x "$BIN" ] || (cd "$ROOT" && cargo build --offline -p circomspect >/dev/null 2>&1)
OUT=$("$BIN" "$HERE/main.circom" 2>&1)
STATUS=$?
echo "$OUT"
echo "exit status $STATUS"
[ "$STATUS" -ne 0 ] || exit 1
echo "$OUT" | grep -q '^error' || exit 1
exit 0
