pragma circom 2.1.0;
template anon_var() { signal input a; signal output b; b <== a; }
template T() {
    signal input in;
    signal output out;
    out <== anon_var()(in * 3);
}
