#!/bin/sh
# $1 = repository root. Exits 0 iff the behaviour is CORRECT: the findings for av.circom do not
# depend on the name of the template used as anonymous component. The argument `in * 3` of the
# anonymous component yields the note `Field element arithmetic could overflow` (level INFO)
# when the template is called `anon_war`, so it has to when it is called `anon_var`.
ROOT=${1:?usage: run.sh <repository root>}
HERE=$(cd "$(dirname "$0")" && pwd)
BIN="$ROOT/target/debug/circomspect"
[ -x "$BIN" ] || (cd "$ROOT" && cargo build --offline -p circomspect >/dev/null 2>&1)
sed 's/anon_var/anon_war/g' "$HERE/av.circom" > "$HERE/av_renamed.circom"
A=$("$BIN" -l INFO "$HERE/av.circom" 2>&1)
B=$("$BIN" -l INFO "$HERE/av_renamed.circom" 2>&1)
rm -f "$HERE/av_renamed.circom"
echo "--- av.circom"; echo "$A"
echo "--- renamed"; echo "$B"
NA=$(echo "$A" | grep -c 'Field element arithmetic here')
NB=$(echo "$B" | grep -c 'Field element arithmetic here')
[ "$NA" -eq "$NB" ] && [ "$NA" -ge 1 ] || exit 1
exit 0
