pragma circom 2.0.0;

// Hints that could have been constraints: circom accepts `out[i] <== in[i] * in[i]`
// and `out[i] <== x * k`.
template Squares(n) {
    signal input in[n];
    signal output out[n];
    for (var i = 0; i < n; i++) {
        out[i] <-- in[i] * in[i];
        out[i] === in[i] * in[i];
    }
}

// The loop counter occurs only in the index of the assigned element.
template Scaled(n) {
    signal input x;
    signal input k;
    signal output scaled[n];
    for (var j = 0; j < n; j++) {
        scaled[j] <-- x * k;
        scaled[j] === x * k;
    }
}

component main = Squares(4);
