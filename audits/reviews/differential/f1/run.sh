#!/bin/sh
# usage: run.sh <tree-root>   exits 0 iff the behaviour is correct
# Correct: `out[i] <-- in[i] * in[i]` and `scaled[j] <-- x * k` (i, j loop counters) get the
# `unnecessary signal assignment` finding (CS0013, "... is quadratic"), as in the base tree,
# and not the plain `signal assignment` finding (CS0005).
ROOT="${1:?tree root}"
BIN="$ROOT/target/debug/circomspect"
[ -x "$BIN" ] || (cd "$ROOT" && cargo build --offline -p circomspect >/dev/null 2>&1)
DIR="$(cd "$(dirname "$0")" && pwd)"
OUT="$("$BIN" "$DIR/squares.circom" 2>&1)"
rc=0
echo "$OUT" | grep -q 'The expression assigned to `out\[i\]` is quadratic' || { echo "FAIL: no unnecessary-signal-assignment finding for out[i] <-- in[i] * in[i]"; rc=1; }
echo "$OUT" | grep -q 'The expression assigned to `scaled\[j\]` is quadratic' || { echo "FAIL: no unnecessary-signal-assignment finding for scaled[j] <-- x * k"; rc=1; }
echo "$OUT" | grep -q 'The assigned signal `out\[i\]` is not constrained here' && { echo "FAIL: out[i] reported as plain signal assignment"; rc=1; }
echo "$OUT" | grep -q 'The assigned signal `scaled\[j\]` is not constrained here' && { echo "FAIL: scaled[j] reported as plain signal assignment"; rc=1; }
[ $rc -eq 0 ] && echo OK
exit $rc
