import json,os,subprocess,sys
HEAD=os.environ.get("BIN","/var/tmp/seeds/df_head/target/debug/circomspect")
def run(args):
    sar="/tmp/oc.sarif"
    if os.path.exists(sar): os.remove(sar)
    p=subprocess.run([HEAD,"--level","info","--sarif-file",sar]+args,cwd="corpus",capture_output=True,text=True)
    res=[]
    d=json.load(open(sar))
    for r in d["runs"][0]["results"]:
        for k in ("locations","relatedLocations"):
            for l in r.get(k,[]): l.pop("id",None)
            r[k]=sorted(r.get(k,[]),key=lambda l:json.dumps(l,sort_keys=True))
        res.append(json.dumps(r,sort_keys=True))
    return p.returncode,sorted(res)
pairs=[(["proj/p18_multifile_a.circom","proj/p18_multifile_b.circom"],["proj/p18_multifile_b.circom","proj/p18_multifile_a.circom"]),
(["proj/p23_duplicates_a.circom","proj/p23_duplicates_b.circom"],["proj/p23_duplicates_b.circom","proj/p23_duplicates_a.circom"]),
(["proj/inc/main.circom","proj/inc/b/right.circom"],["proj/inc/b/right.circom","proj/inc/main.circom"]),
(["circomlib/bitify.circom","circomlib/comparators.circom","circomlib/poseidon.circom"],["circomlib/poseidon.circom","circomlib/comparators.circom","circomlib/bitify.circom"]),
]
for a,b in pairs:
    ra,rb=run(a),run(b)
    print(a, "SAME" if ra==rb else "DIFFERENT", ra[0], rb[0], len(ra[1]), len(rb[1]))
