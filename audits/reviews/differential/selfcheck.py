#!/usr/bin/env python3
# head-only invariants: determinism, summary == sarif count, exit code
import json, os, subprocess, sys, shlex, re, collections
HEAD = os.environ.get("HEAD_BIN", "/var/tmp/seeds/df_head/target/debug/circomspect")
CORPUS = os.path.join(os.path.dirname(os.path.abspath(__file__)), "corpus")
def run(args, level="info"):
    sar="/tmp/sc.sarif"
    if os.path.exists(sar): os.remove(sar)
    p=subprocess.run([HEAD,"--level",level,"--sarif-file",sar]+args,cwd=CORPUS,capture_output=True,text=True,timeout=600)
    res=[]
    if os.path.exists(sar):
        d=json.load(open(sar))
        for r in d["runs"][0]["results"]:
            for k in ("locations","relatedLocations"):
                for l in r.get(k,[]): l.pop("id",None)
                r[k]=sorted(r.get(k,[]),key=lambda l:json.dumps(l,sort_keys=True))
            res.append(json.dumps(r,sort_keys=True))
    m=re.search(r"circomspect: (\d+) issues? found|circomspect: No issues found", p.stdout)
    n=None
    if m: n=int(m.group(1)) if m.group(1) else 0
    return p.returncode,n,sorted(res),p.stderr
for line in open(sys.argv[1]):
    line=line.strip().lstrip("!")
    if not line or line.startswith("#"): continue
    name,argstr=[x.strip() for x in line.split("|",1)]
    args=shlex.split(argstr)
    for level in ("info","warning"):
        a=run(args,level); b=run(args,level)
        probs=[]
        if a[0]!=b[0] or a[2]!=b[2]: probs.append("NONDETERMINISTIC")
        if a[1] is None: probs.append("NO SUMMARY")
        elif a[1]!=len(a[2]): probs.append(f"summary {a[1]} != sarif {len(a[2])}")
        if a[0] not in (0,1): probs.append(f"rc {a[0]}")
        if a[1] is not None and (a[0]==0)!=(a[1]==0): probs.append(f"rc {a[0]} with {a[1]} issues")
        if "panicked" in a[3]: probs.append("PANIC")
        dup=[k for k,v in collections.Counter(a[2]).items() if v>1]
        if dup: probs.append(f"{len(dup)} duplicated findings: "+dup[0][:300])
        print(name,level,"OK" if not probs else "PROBLEM: "+"; ".join(probs))
