import json,os,subprocess,sys,shlex,urllib.parse
HEAD="/var/tmp/seeds/df_head/target/debug/circomspect"
bad=0;tot=0
for line in open(sys.argv[1]):
    line=line.strip().lstrip("!")
    if not line or line.startswith("#"): continue
    name,argstr=[x.strip() for x in line.split("|",1)]
    sar="/tmp/lc.sarif"
    if os.path.exists(sar): os.remove(sar)
    subprocess.run([HEAD,"--level","info","--sarif-file",sar]+shlex.split(argstr),cwd="corpus",capture_output=True,text=True)
    d=json.load(open(sar))
    for r in d["runs"][0]["results"]:
        for l in r["locations"]+r.get("relatedLocations",[]):
            tot+=1
            uri=l["physicalLocation"]["artifactLocation"]["uri"]
            path=urllib.parse.unquote(uri[len("file://"):])
            rg=l["physicalLocation"]["region"]
            try:
                lines=open(path,encoding="utf-8").read().split("\n")
            except Exception as e:
                print(name,"cannot read",path,e); bad+=1; continue
            sl,sc,el,ec=rg["startLine"],rg["startColumn"],rg["endLine"],rg["endColumn"]
            ok = 1<=sl<=el<=len(lines) and (sl<el or sc<=ec) and sc>=1 and sc<=len(lines[sl-1])+2 and ec<=len(lines[el-1])+2
            if not ok:
                bad+=1; print(name,r["ruleId"],path.split("/")[-1],rg)
print("locations",tot,"bad",bad)
