import json,sys,re,collections
cls=collections.defaultdict(list)
for l in open(sys.argv[1]):
    d=json.loads(l)
    for kind in ('lost','gained'):
        for r in d[kind]:
            msg=re.sub(r'`[^`]*`','`_`',r[2])
            prim=[re.sub(r'`[^`]*`','`_`',p[5]) for p in r[3]]
            cls[(kind,r[0],r[1],msg,tuple(prim))].append((d['name'],d['curve'],r))
    if not d['lost'] and not d['gained']:
        cls[('stdout-only',str(d['brc'])+'->'+str(d['hrc']),'','',())].append((d['name'],d['curve'],None))
for k,v in sorted(cls.items(), key=lambda kv:(kv[0][1],kv[0][0])):
    names=sorted(set(n for n,c,_ in v))
    print(len(v),k[0],k[1],k[2],k[3][:110],'|',k[4][:2],'|',' '.join(names)[:150])
