#!/usr/bin/env python3
"""Runs base and head circomspect on every case of the manifest and prints the differences.

manifest line:  name | args...        (paths relative to corpus/)
Each case is run under the three curves (unless the line starts with '!', then BN254 only).
"""
import json, os, subprocess, sys, collections, re, shlex, tempfile

ROOT = os.path.dirname(os.path.abspath(__file__))
BASE = os.environ.get("BASE_BIN", "/var/tmp/seeds/df_base/target/debug/circomspect")
HEAD = os.environ.get("HEAD_BIN", "/var/tmp/seeds/df_head/target/debug/circomspect")
CORPUS = os.path.join(ROOT, "corpus")
CURVES = ["BN254", "BLS12_381", "GOLDILOCKS"]


def run(binary, args, curve, tag):
    sarif = os.path.join(tempfile.gettempdir(), f"dd_{tag}.sarif")
    if os.path.exists(sarif):
        os.remove(sarif)
    cmd = [binary, "--level", "info", "--curve", curve, "--sarif-file", sarif] + args
    try:
        p = subprocess.run(cmd, cwd=CORPUS, capture_output=True, text=True, timeout=300)
        rc, out, err = p.returncode, p.stdout, p.stderr
    except subprocess.TimeoutExpired:
        rc, out, err = "TIMEOUT", "", ""
    results = []
    if os.path.exists(sarif):
        try:
            d = json.load(open(sarif))
            for r in d["runs"][0]["results"]:
                def loc(l):
                    pl = l["physicalLocation"]
                    rg = pl["region"]
                    return (os.path.basename(pl["artifactLocation"]["uri"]), rg.get("startLine"), rg.get("startColumn"),
                            rg.get("endLine"), rg.get("endColumn"), l.get("message", {}).get("text", ""))
                results.append((r["ruleId"], r["level"], r["message"]["text"],
                                tuple(sorted(loc(l) for l in r["locations"])),
                                tuple(sorted(loc(l) for l in r.get("relatedLocations", [])))))
        except Exception as e:
            results.append(("SARIF-ERROR", str(e), "", (), ()))
    # stdout blocks
    summary = [l for l in out.splitlines() if l.startswith("circomspect:") and "written" not in l and "analyzing" not in l]
    body = "\n".join(l for l in out.splitlines() if not l.startswith("circomspect:"))
    blocks = [b.strip() for b in re.split(r"\n\s*\n", body) if b.strip()]
    blocks = [b for b in blocks if not b.startswith("circomspect:")]
    return dict(rc=rc, results=results, blocks=blocks, summary=summary, err=err, out=out)


def diff_multiset(a, b):
    ca, cb = collections.Counter(a), collections.Counter(b)
    return list((ca - cb).elements()), list((cb - ca).elements())


def main():
    manifest = sys.argv[1]
    only = set(sys.argv[2:])
    ndiff = 0
    for line in open(manifest):
        line = line.strip()
        if not line or line.startswith("#"):
            continue
        single = line.startswith("!")
        line = line.lstrip("!")
        name, argstr = [x.strip() for x in line.split("|", 1)]
        if only and name not in only:
            continue
        args = shlex.split(argstr)
        for curve in (CURVES[:1] if single else CURVES):
            b = run(BASE, args, curve, "b")
            h = run(HEAD, args, curve, "h")
            lost, gained = diff_multiset(b["results"], h["results"])
            blost, bgained = diff_multiset(b["blocks"], h["blocks"])
            hdr = f"=== {name} [{curve}] base rc={b['rc']} {b['summary']} | head rc={h['rc']} {h['summary']}"
            changed = lost or gained or blost or bgained or b["rc"] != h["rc"] or b["summary"] != h["summary"]
            if "panicked" in h["err"] or "panicked" in b["err"]:
                changed = True
            if not changed:
                print(f"--- {name} [{curve}] same ({len(h['results'])} findings, rc={h['rc']})")
                continue
            ndiff += 1
            print(hdr)
            if os.environ.get("DD_JSON"):
                with open(os.environ["DD_JSON"], "a") as jf:
                    jf.write(json.dumps(dict(name=name, curve=curve, lost=lost, gained=gained, blost=blost, bgained=bgained, brc=b["rc"], hrc=h["rc"], bsum=b["summary"], hsum=h["summary"], berr=b["err"][:2000], herr=h["err"][:2000])) + "\n")
            for r in lost:
                print("  LOST  ", r[0], r[1], r[2], r[3], "rel=", r[4])
            for r in gained:
                print("  GAINED", r[0], r[1], r[2], r[3], "rel=", r[4])
            if not lost and not gained:
                for x in blost:
                    print("  STDOUT-LOST:\n    " + x.replace("\n", "\n    "))
                for x in bgained:
                    print("  STDOUT-GAINED:\n    " + x.replace("\n", "\n    "))
            for tag, r in (("base", b), ("head", h)):
                if r["err"].strip():
                    print(f"  {tag} stderr: " + r["err"].strip()[:500].replace("\n", "\n    "))
    print(f"cases with differences: {ndiff}")


main()
