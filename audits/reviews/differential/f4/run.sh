#!/bin/sh
# usage: run.sh <tree-root>   exits 0 iff the behaviour is correct
# Correct: `out <-- arr[0] + arr[n - 1]` (arr filled with linear values in a loop) gets the
# `unnecessary signal assignment` finding (CS0013), as in the base tree.
ROOT="${1:?tree root}"
BIN="$ROOT/target/debug/circomspect"
[ -x "$BIN" ] || (cd "$ROOT" && cargo build --offline -p circomspect >/dev/null 2>&1)
DIR="$(cd "$(dirname "$0")" && pwd)"
OUT="$("$BIN" "$DIR/arrayvar.circom" 2>&1)"
echo "$OUT" | grep -q 'The expression assigned to `out` is quadratic' || { echo "FAIL: no unnecessary-signal-assignment finding for out <-- arr[0] + arr[n - 1]"; exit 1; }
echo OK
exit 0
