pragma circom 2.0.0;

// A local array filled in a loop with linear expressions; the sum of two of its elements is
// linear, so `out <== arr[0] + arr[n - 1]` is accepted by circom.
template Ends(n) {
    signal input in[n];
    signal output out;
    var arr[n];
    for (var i = 0; i < n; i++) {
        arr[i] = in[i] * 2;
    }
    out <-- arr[0] + arr[n - 1];
    out === arr[0] + arr[n - 1];
}

component main = Ends(4);
