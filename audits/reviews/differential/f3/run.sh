#!/bin/sh
# usage: run.sh <tree-root>   exits 0 iff the behaviour is correct
# Correct: no `unconstrained less-than` warning (CS0014) for `total` (range checked by
# Num2Bits(64) in the dominating entry block, single SSA version) nor for `in[i]` at
# `lt[i].in[1] <== in[i]` (range checked by Num2Bits(32) earlier in the same iteration).
ROOT="${1:?tree root}"
BIN="$ROOT/target/debug/circomspect"
[ -x "$BIN" ] || (cd "$ROOT" && cargo build --offline -p circomspect >/dev/null 2>&1)
DIR="$(cd "$(dirname "$0")" && pwd)"
OUT="$("$BIN" "$DIR/limits.circom" 2>&1)"
rc=0
echo "$OUT" | grep -q '`total` needs to be constrained' && { echo "FAIL: false CS0014 for range-checked local total"; rc=1; }
echo "$OUT" | grep -q '`in\[i\]` needs to be constrained' && { echo "FAIL: false CS0014 for in[i], range checked in the same iteration"; rc=1; }
[ $rc -eq 0 ] && echo OK
exit $rc
