pragma circom 2.0.0;

include "../corpus/circomlib/bitify.circom";
include "../corpus/circomlib/comparators.circom";

// `total` is range checked once (64 bits) and then compared against every limit.
template Limits(n) {
    signal input a;
    signal input b;
    signal input limit[n];
    signal output ok[n];

    var total = a + b;
    component rc = Num2Bits(64);
    rc.in <== total;

    component rl[n];
    component lt[n];
    for (var i = 0; i < n; i++) {
        rl[i] = Num2Bits(64);
        rl[i].in <== limit[i];
        lt[i] = LessThan(64);
        lt[i].in[0] <== total;
        lt[i].in[1] <== limit[i];
        ok[i] <== lt[i].out;
    }
}

// Range check of in[i] at the top of the loop body, comparison under `if (i > 0)`.
template Increasing(n) {
    signal input in[n];
    component rc[n];
    component lt[n];
    for (var i = 0; i < n; i++) {
        rc[i] = Num2Bits(32);
        rc[i].in <== in[i];
        if (i > 0) {
            lt[i] = LessThan(33);
            lt[i].in[0] <== in[i - 1];
            lt[i].in[1] <== in[i];
            lt[i].out === 1;
        }
    }
}

component main = Limits(4);
