import json,sys
f=sys.argv[1]; names=set(sys.argv[2:])
for l in open(f):
    d=json.loads(l)
    if d['name'] not in names: continue
    import os
    if os.environ.get('CURVE','BN254')!='ALL' and d['curve']!=os.environ.get('CURVE','BN254'): continue
    print('===',d['name'],d['curve'],'rc',d['brc'],'->',d['hrc'],d['bsum'],'->',d['hsum'])
    for kind in ('lost','gained'):
        for r in sorted(d[kind], key=lambda r:(r[3],r[0])):
            prim=['%s:%s:%s-%s:%s %s'%(p[0][:14],p[1],p[2],p[3],p[4],p[5][:70]) for p in r[3]]
            rel=['%s:%s %s'%(p[1],p[2],p[5][:40]) for p in r[4]]
            print('  ',kind.upper(),r[0],r[1],r[2][:60],'|',prim,'| rel',rel)
    if not d['lost'] and not d['gained']:
        for x in d['blost']: print('  BLOST',x[:1500])
        for x in d['bgained']: print('  BGAINED',x[:1500])
    if d['berr'].strip(): print('  base-stderr:',d['berr'][:600])
    if d['herr'].strip(): print('  head-stderr:',d['herr'][:600])
