#!/usr/bin/env python3
"""Assigns every difference record (finding x curve) of diffs_proj.jsonl to a class."""
import json, collections, sys
BIG = {'wholeproj', 'projlite', 'pnpm4'}
cls = collections.Counter(); cases = collections.defaultdict(set); un = []
runs_panic = []
def classify(d, kind, r):
    name = d['name']; rule = r[0]
    p = r[3][0] if r[3] else None
    line = p[1] if p else 0
    if name in ('p07', 'p36', 'p40') and kind == 'gained':
        if rule == 'CS0014' and name == 'p07' and line == 14: return 'I3'
        if rule == 'CS0014' and name == 'p40' and line == 31: return 'I3'
        return 'I6'
    if name in ('p24', 'p41a', 'p24u'): return 'I10'
    if name in ('p39a', 'p39c'): return 'I11'
    if name in ('p23', 'p23r', 'p23a'):
        return 'I7' if rule == 'CS0002' else 'I12'
    if rule in ('P1002', 'P1003', 'P1004'): return 'I8'
    if rule == 'P1000':
        if name in ('missing', 'missing2'): return 'I8'
        return 'I9'
    if rule in ('CS0001', 'T2003'): return 'I7'
    if name == 'p47': return 'U1' if rule == 'CS0014' else 'I6'
    if name == 'p45': return 'R3'
    if name == 'p46': return 'R4' if line == 50 else 'R1'
    if rule == 'CS0014': return 'I2'
    if rule == 'CS0018': return 'I15'
    if rule == 'CS0009' and name == 'p34': return 'R2'
    if rule in ('CS0013', 'CS0005'):
        if name == 'p25' and line == 29: return 'R1'
        if name == 'p17' and line == 61: return 'R4'
        if name == 'p44' and line == 26: return 'I14'
        return 'I5'
    if rule == 'CS0006' and kind == 'lost': return 'I4'
    if rule == 'CA01' and kind == 'gained': return 'I4'
    if (name, line) in (('p11', 66), ('p11', 67), ('p11', 68), ('p44', 23)): return 'I13'
    if (name, line) == ('p37', 86): return 'U2'
    return None
for l in open('diffs_proj.jsonl'):
    d = json.loads(l)
    if d['brc'] not in (0, 1):
        runs_panic.append((d['name'], d['curve'])); continue
    if d['name'] in BIG: continue
    for kind in ('lost', 'gained'):
        for r in d[kind]:
            c = classify(d, kind, r)
            if c is None: un.append((d['name'], d['curve'], kind, r[0], r[3][:1]))
            else:
                cls[c] += 1; cases[c].add(d['name'])
for c in sorted(cls): print(c, cls[c], ' '.join(sorted(cases[c])))
print('runs where base panicked:', len(runs_panic), runs_panic)
print('unclassified:', len(un))
for u in un[:40]: print('  ', u)
