#!/bin/sh
# usage: run.sh <tree-root>   exits 0 iff the behaviour is correct
# Correct: under --curve goldilocks `1 << 64` evaluates to 0 (Circom: (x * 2^k) & mask, mod p),
# so `if (base == 0)` is reported as a constant condition that is always true (CS0009).
ROOT="${1:?tree root}"
BIN="$ROOT/target/debug/circomspect"
[ -x "$BIN" ] || (cd "$ROOT" && cargo build --offline -p circomspect >/dev/null 2>&1)
DIR="$(cd "$(dirname "$0")" && pwd)"
OUT="$("$BIN" --curve goldilocks "$DIR/shift64.circom" 2>&1)"
echo "$OUT" | grep -q 'This condition is always true' || { echo "FAIL: constant condition (1 << 64) == 0 not reported under goldilocks"; exit 1; }
echo OK
exit 0
