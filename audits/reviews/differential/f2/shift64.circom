pragma circom 2.0.0;

// Written for BN254, analysed with --curve goldilocks (64-bit prime):
// 1 << 64 is (2^64 & (2^64 - 1)) mod p = 0 in Circom, so the guard is always taken.
template Limb() {
    signal input in;
    signal output out;
    var base = 1 << 64;
    var scale = 1;
    if (base == 0) {
        scale = 2;
    }
    out <== in * scale;
}

component main = Limb();
