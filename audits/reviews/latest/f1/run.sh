#!/bin/sh
# usage: run.sh <repository root>; exits 0 iff the behaviour is correct
ROOT=${1:?repository root}
HERE=$(cd "$(dirname "$0")" && pwd)
(cd "$ROOT" && cargo build --offline -q -p circomspect 2>/dev/null) || exit 2
OUT=$("$ROOT/target/debug/circomspect" "$HERE/index_ge_prime.circom" 2>&1)
# o[p] is o[0] (a literal is read modulo the prime), so the constraint on line 6 mentions the
# signal assigned with `<--` on line 5 and has to be listed as a secondary location.
echo "$OUT" | grep -q 'The signal `o\[0\]` is constrained here' || { echo "$OUT"; echo "FAIL: constraint o[p]*2 === a not listed for o[0] <-- a \\ 2"; exit 1; }
exit 0
