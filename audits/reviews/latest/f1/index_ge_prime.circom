pragma circom 2.0.0;
template T() {
  signal input a;
  signal output o[2];
  o[0] <-- a \ 2;
  o[21888242871839275222246405745257275088548364400416034343698204186575808495617] * 2 === a;
  o[1] <== a;
}
