pragma circom 2.0.0;
template T(N) {
  signal input x[N+1];
  signal output out;
  component n2b[N];
  var i;
  for (i = 0; i < N; i++) {
    n2b[i] = Num2Bits(8);
    n2b[i].in <== x[i];
  }
  component lt = LessThan(8);
  lt.in[0] <== x[i];
  lt.in[1] <== 5;
  out <== lt.out;
}
