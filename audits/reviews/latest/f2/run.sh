#!/bin/sh
# usage: run.sh <repository root>; exits 0 iff the behaviour is correct
ROOT=${1:?repository root}
HERE=$(cd "$(dirname "$0")" && pwd)
(cd "$ROOT" && cargo build --offline -q -p circomspect 2>/dev/null) || exit 2
OUT=$("$ROOT/target/debug/circomspect" "$HERE/after_loop.circom" 2>&1)
# x[i] after the loop is x[N], which is never given to Num2Bits: it has to be reported as an
# input of LessThan which is not range checked (primary label on line 12).
echo "$OUT" | grep -q 'after_loop.circom:12:' && echo "$OUT" | grep -q '`x\[i\]` needs to be constrained' || { echo "$OUT"; echo "FAIL: lt.in[0] <== x[i] (x[N], after the loop) counts as range checked"; exit 1; }
exit 0
