pragma circom 2.0.0;
template T() {
  signal input a;
  signal output o;
  var anon_var_1_2 = a + 1;
  anon_var_1_2 = a * 3;
  o <== a;
}
