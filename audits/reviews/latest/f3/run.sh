#!/bin/sh
# usage: run.sh <repository root>; exits 0 iff the behaviour is correct
ROOT=${1:?repository root}
HERE=$(cd "$(dirname "$0")" && pwd)
(cd "$ROOT" && cargo build --offline -q -p circomspect 2>/dev/null) || exit 2
OUT=$("$ROOT/target/debug/circomspect" --level info "$HERE/user_counter_name.circom" 2>&1)
# The variable is written by the user: both unused assignments and both arithmetic notes are due.
N=$(echo "$OUT" | grep -c 'The value assigned to `anon_var_1_2` here is never read')
A=$(echo "$OUT" | grep -c 'Field element arithmetic here')
[ "$N" -eq 2 ] && [ "$A" -eq 2 ] || { echo "$OUT"; echo "FAIL: findings about the user's variable anon_var_1_2 are suppressed (unused: $N/2, arithmetic: $A/2)"; exit 1; }
exit 0
