/-
A minimal S-expression reader for the dumps produced by the harness (via tools in vlib.py):
`(tag child ...)`; atoms are runs of non-space, non-parenthesis characters.
-/
namespace Driver

inductive Sexp
  | atom (s : String)
  | list (l : List Sexp)
  deriving Repr, Inhabited

namespace Sexp

partial def parseList (cs : List Char) (acc : List Sexp) : Option (List Sexp × List Char) :=
  match cs with
  | [] => none
  | ')' :: rest => some (acc.reverse, rest)
  | ' ' :: rest => parseList rest acc
  | '(' :: rest =>
    match parseList rest [] with
    | some (l, rest') => parseList rest' (Sexp.list l :: acc)
    | none => none
  | _ =>
    let tok := cs.takeWhile (fun c => c != ' ' && c != '(' && c != ')')
    parseList (cs.drop tok.length) (Sexp.atom (String.ofList tok) :: acc)

def parse (s : String) : Option Sexp :=
  match s.toList with
  | '(' :: rest =>
    match parseList rest [] with
    | some (l, _) => some (Sexp.list l)
    | none => none
  | _ => none

def nat? : Sexp → Option Nat
  | atom s => s.toNat?
  | _ => none

def str? : Sexp → Option String
  | atom s => some s
  | _ => none

def items : Sexp → List Sexp
  | list l => l
  | _ => []

end Sexp
end Driver
