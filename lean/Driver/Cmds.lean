import Circomspect.Model.Field
import Circomspect.Spec.Field

namespace Driver
open Circomspect

def showOut : Field.Out → String
  | .ok v => s!"ok {v}"
  | .err .div0 => "err div0"
  | .err .shift => "err shift"
  | .panic s => s!"panic {s}"
  | .unmodelled => "unmodelled"

def showRes : Option FieldSpec.Res → String
  | some (.val n) => s!"val {n}"
  | some .undef => "undef"
  | some .over => "over"
  | none => "skip"

def fieldCmd (args : List String) : String :=
  match args with
  | [op, a, b, p] =>
    match a.toInt?, b.toInt?, p.toInt? with
    | some a, some b, some p => showOut (Field.evalOp op a b p)
    | _, _, _ => "bad-op"
  | _ => "bad-op"

def fieldSpecCmd (args : List String) : String :=
  match args with
  | [op, a, b, p] =>
    match a.toNat?, b.toNat?, p.toNat? with
    | some a, some b, some p =>
      if op == "pow" && b > 100000 then "skip" else showRes (FieldSpec.evalOp op p a b)
    | _, _, _ => "bad-op"
  | _ => "bad-op"

def handle (line : String) : String :=
  match line.splitOn " " with
  | "field" :: args => fieldCmd args
  | "fieldspec" :: args => fieldSpecCmd args
  | _ => "bad-op"

end Driver
