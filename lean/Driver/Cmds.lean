import Circomspect.Model.Field
import Circomspect.Spec.Field
import Circomspect.Model.Strip
import Circomspect.Spec.Strip
import Circomspect.Model.Curve
import Circomspect.Model.Runner
import Circomspect.Model.Dominators
import Circomspect.Model.CfgLift
import Circomspect.Spec.Cfg
import Circomspect.Spec.Trace
import Circomspect.Model.UniqueVars
import Circomspect.Model.Ssa
import Circomspect.Model.Propagate
import Circomspect.Model.SignalAssign
import Circomspect.Model.Includes
import Circomspect.Model.Taint
import Circomspect.Model.CfgReach
import Circomspect.Model.LessThanPass
import Circomspect.Lemmas.PathValues
import Circomspect.Lemmas.PathDegrees
import Circomspect.Model.SsaBuild
import Circomspect.Model.SsaWalk
import Driver.Sexp
import Driver.DesugarCmd

namespace Driver
open Circomspect

def showOut : Field.Out → String
  | .ok v => s!"ok {v}"
  | .err .div0 => "err div0"
  | .err .shift => "err shift"
  | .panic s => s!"panic {s}"
  | .unmodelled => "unmodelled"

def showRes : Option FieldSpec.Res → String
  | some (.val n) => s!"val {n}"
  | some .undef => "undef"
  | some .over => "over"
  | none => "skip"

def fieldCmd (args : List String) : String :=
  match args with
  | [op, a, b, p] =>
    match a.toInt?, b.toInt?, p.toInt? with
    | some a, some b, some p => showOut (Field.evalOp op a b p)
    | _, _, _ => "bad-op"
  | _ => "bad-op"

def fieldSpecCmd (args : List String) : String :=
  match args with
  | [op, a, b, p] =>
    match a.toNat?, b.toNat?, p.toNat? with
    | some a, some b, some p =>
      if op == "pow" && b > 100000 then "skip" else showRes (FieldSpec.evalOp op p a b)
    | _, _, _ => "bad-op"
  | _ => "bad-op"

def hexVal (c : Char) : Option Nat :=
  if '0' ≤ c ∧ c ≤ '9' then some (c.toNat - '0'.toNat)
  else if 'a' ≤ c ∧ c ≤ 'f' then some (c.toNat - 'a'.toNat + 10)
  else none

def unhex : List Char → ByteArray → Option ByteArray
  | [], acc => some acc
  | a :: b :: r, acc =>
    match hexVal a, hexVal b with
    | some x, some y => unhex r (acc.push (UInt8.ofNat (x * 16 + y)))
    | _, _ => none
  | _, _ => none

def hexDigit (n : Nat) : Char := if n < 10 then Char.ofNat (48 + n) else Char.ofNat (87 + n)

def toHex (s : String) : String :=
  let bs := s.toUTF8
  String.ofList (bs.toList.flatMap (fun b => [hexDigit (b.toNat / 16), hexDigit (b.toNat % 16)]))

def decodeHexStr (h : String) : Option String :=
  if h == "-" then some "" else
  match unhex h.toList ByteArray.empty with
  | some ba => String.fromUTF8? ba
  | none => none

def showStrip : Except Nat (List Char) → String
  | .ok o => let t := toHex (String.ofList o); if t.isEmpty then "ok -" else "ok " ++ t
  | .error e => s!"err {e}"

def stripCmd (spec : Bool) (args : List String) : String :=
  match args with
  | [h] =>
    match decodeHexStr h with
    | some s => showStrip (if spec then StripSpec.strip s.toList else Strip.preprocess s.toList)
    | none => "bad-op"
  | _ => "bad-op"

def curveOf : String → Option Curve.Curve
  | "BN254" => some .bn254
  | "BLS12_381" => some .bls12381
  | "GOLDILOCKS" => some .goldilocks
  | _ => none

def showCurve : Option Curve.Curve → String
  | some .bn254 => "ok BN254"
  | some .bls12381 => "ok BLS12_381"
  | some .goldilocks => "ok Goldilocks"
  | none => "err"

def c11Cmd (args : List String) : String :=
  match args with
  | ["flag", c, name] => match curveOf c with
    | some c => toString (Curve.flagged c name)
    | none => "bad-op"
  | ["n2b", c, v] => match curveOf c with
    | some c => toString (Curve.nonstrictFlagged c (if v == "-" then none else v.toNat?))
    | none => "bad-op"
  | "inst" :: c :: name :: args => match curveOf c with
    | some c =>
      let rs := Curve.instReports c { name := name, args := args.map (fun v => if v == "-" then none else v.toNat?) }
      if rs.isEmpty then "-" else ",".intercalate rs
    | none => "bad-op"
  | ["lt", c, k] => match curveOf c, k.toNat? with
    | some c, some k => toString (Curve.rangeChecked c k)
    | _, _ => "bad-op"
  | ["curve", h] => match decodeHexStr h with
    | some s => showCurve (Curve.parseCurve s)
    | none => "bad-op"
  | _ => "bad-op"

def csv (s : String) (sep : String) : List String := if s == "-" || s.isEmpty then [] else s.splitOn sep

def parseReport (t : String) : Option Runner.Report :=
  match t.splitOn "/" with
  | [i, l, loc, u, b] => match l.toNat? with
    | some l => some { id := i, level := l, located := loc == "1", inUser := u == "1", body := b }
    | none => none
  | _ => none

def parseReports (t : String) : List Runner.Report := (csv t ";").filterMap parseReport

def showReports (rs : List Runner.Report) : String :=
  if rs.isEmpty then "-" else ";".intercalate (rs.map (fun r => s!"{r.id}/{r.level}/{r.body}"))

structure DefRow where
  name : String
  ok : Bool
  gen : List Runner.Report
  lookups : List String
  passes : List Runner.Report

def parseDef (t : String) : Option DefRow :=
  match t.splitOn ":" with
  | [n, ok, g, l, ps] => some { name := n, ok := ok == "1", gen := parseReports g, lookups := csv l ",", passes := parseReports ps }
  | _ => none

def runnerCmd (args : List String) : String :=
  match args with
  | level :: allow :: order :: parse :: defs =>
    match level.toNat? with
    | none => "bad-op"
    | some level =>
      let rows := defs.filterMap parseDef
      let find (n : String) : Option DefRow := rows.find? (·.name == n)
      -- `main=<reports>`: the batch of the main component (absent: no such batch)
      let mainTok := defs.find? (fun t => t.startsWith "main=")
      let p : Runner.Project :=
        { parseReports := parseReports parse
          known := fun n => (find n).isSome
          gen := fun n => match find n with | some r => (r.ok, r.gen) | none => (false, [])
          lookups := fun n => match find n with | some r => r.lookups | none => []
          passes := fun n => match find n with | some r => r.passes | none => []
          mainReports := mainTok.map (fun t => parseReports (t.drop 5).toString) }
      let o : Runner.Opts := { level := level, allow := csv allow "," }
      let order := csv order ","
      let bs := Runner.batches p order
      let b := "|".intercalate (bs.map showReports)
      s!"exit {Runner.exitCode o p order} # written {Runner.written o p order} # {Runner.summary o p order} # {b} # {showReports (Runner.displayed o p order)} # {showReports (Runner.sarif o p order)}"
  | _ => "bad-op"

def showCsv (l : List Nat) : String := if l.isEmpty then "-" else ",".intercalate (l.map toString)

def domCmd (spec : Bool) (args : List String) : String :=
  match args with
  | ns :: ps =>
    match ns.toNat? with
    | none => "bad-op"
    | some n =>
      if ps.length != n then "bad-op" else
      let predList : List (List Nat) := ps.map (fun p => (csv p ",").filterMap String.toNat?)
      let g : Graph.Graph := { n := n, pred := fun i => predList.getD i [] }
      match Dominators.computeDominators g with
      | none => "no-fixpoint"
      | some D =>
        let idom := Dominators.idoms g D
        if idom 0 != .none then "panic assert idom[0].is_none()" else
        if (List.range n).any (fun i => idom i == .panic) then "panic assert idom_candidates.len() <= 1" else
        let row (i : Nat) : String :=
          let d := Dominators.members n (D i)
          let id := match idom i with | .some j => toString j | _ => "-"
          let c := Dominators.children g idom i
          let f := (List.range n).filter (fun j => Dominators.inFrontier g idom i j)
          s!"D={showCsv d} I={id} C={showCsv c} F={showCsv f}"
        let _ := spec
        ";".intercalate ((List.range n).map row)
  | _ => "bad-op"

open Sexp in
def locOf (m : Sexp) : CfgLift.Loc :=
  match m with
  | .list (_ :: a :: b :: _) => ((nat? a).getD 0, (nat? b).getD 0)
  | _ => (0, 0)

/-- the identity of a statement in traces and CFG dumps: its source range, refined by its kind and the
    declared / assigned name (the statements the parser produces for `var a = e1, b = e2;` all carry
    the range of the whole declaration) -/
def nameTag (s : String) : Nat := (s.toList.foldl (fun a c => a + c.toNat) 0) % 1000

def stmtKey (m : Sexp) (kind : Nat) (name : String) : CfgLift.Loc :=
  let l := locOf m
  (l.1, l.2 * 10000 + kind * 1000 + (if kind = 0 then 0 else nameTag name))

def vBase (v : Sexp) : String :=
  match v with
  | .list (.atom "v" :: .atom n :: _) => n
  | _ => ""

open Sexp in
partial def astSkel (s : Sexp) : CfgLift.Stmt :=
  match s with
  | .list (.atom "ite" :: m :: _ :: t :: e :: _) =>
    (match e with | .atom _ => .ite (stmtKey m 0 "") (astSkel t) | e => .iteElse (stmtKey m 0 "") (astSkel t) (astSkel e))
  | .list (.atom "while" :: m :: _ :: b :: _) => .while (stmtKey m 0 "") (astSkel b)
  | .list (.atom "blk" :: _ :: .list cs :: _) => .block (CfgLift.Stmts.ofList (cs.map astSkel))
  | .list (.atom "init" :: _ :: _ :: .list cs :: _) => .init (CfgLift.Stmts.ofList (cs.map astSkel))
  | .list (.atom "decl" :: m :: _ :: .atom name :: _) => .simple (stmtKey m 1 name)
  | .list (.atom "sub" :: m :: .atom name :: _) => .simple (stmtKey m 2 name)
  | .list (_ :: m :: _) => .simple (stmtKey m 0 "")
  | _ => .simple (0, 0)

/-- body of `(def kind name (args) argloc body)` -/
def defBody (s : Sexp) : Option Sexp :=
  match s with
  | .list [.atom "def", _, _, _, _, body] => some body
  | _ => none

open Sexp in
def irSkel (st : Sexp) : CfgLift.IStmt :=
  match st with
  | .list (.atom "st" :: .list (.atom "if" :: m :: _ :: t :: f :: _) :: _) =>
    .branch (stmtKey m 0 "") ((nat? t).getD 0) (nat? f)
  | .list (.atom "st" :: .list (.atom "decl" :: m :: .list (v :: _) :: _) :: _) => .simple (stmtKey m 1 (vBase v))
  | .list (.atom "st" :: .list (.atom "sub" :: m :: v :: _) :: _) => .simple (stmtKey m 2 (vBase v))
  | .list (.atom "st" :: .list (_ :: m :: _) :: _) => .simple (stmtKey m 0 "")
  | _ => .simple (0, 0)

open Sexp in
def cfgSkel (c : Sexp) : List CfgLift.Block :=
  match c with
  | .list (.atom "cfg" :: _ :: _ :: _ :: _ :: .list bs :: _) =>
    bs.map (fun b => match b with
      | .list [.atom "b", _, d, .list ps, .list ss, .list sts] =>
        { depth := (nat? d).getD 0, stmts := sts.map irSkel, preds := ps.filterMap nat?, succs := ss.filterMap nat? }
      | _ => default)
  | _ => []

/-- source ranges of the `return` statements of an AST dump -/
partial def retLocs (s : Sexp) : List CfgLift.Loc :=
  match s with
  | .list (.atom "ret" :: m :: _) => [stmtKey m 0 ""]
  | .list (.atom "ite" :: _ :: _ :: t :: e :: _) => retLocs t ++ retLocs e
  | .list (.atom "while" :: _ :: _ :: b :: _) => retLocs b
  | .list (.atom "blk" :: _ :: .list cs :: _) => cs.flatMap retLocs
  | .list (.atom "init" :: _ :: _ :: .list cs :: _) => cs.flatMap retLocs
  | _ => []

def isPhiStmt (st : Sexp) : Bool :=
  match st with
  | .list (.atom "st" :: .list (.atom "sub" :: _ :: _ :: _ :: .list (.atom "phi" :: _) :: _) :: _) => true
  | _ => false

open Sexp in
def cfgSkelNoPhi (c : Sexp) : List CfgLift.Block :=
  match c with
  | .list (.atom "cfg" :: _ :: _ :: _ :: _ :: .list bs :: _) =>
    bs.map (fun b => match b with
      | .list [.atom "b", _, d, .list ps, .list ss, .list sts] =>
        { depth := (nat? d).getD 0, stmts := (sts.filter (fun st => !isPhiStmt st)).map irSkel, preds := ps.filterMap nat?, succs := ss.filterMap nat? }
      | _ => default)
  | _ => []

/-- `traces (triple <ast def> <cfg> k)`: C13 for all decision sequences of length `k` -/
def tracesCmd (rest : String) : String :=
  match Sexp.parse rest with
  | some (.list [.atom "triple", a, c, k]) =>
    match defBody a, Sexp.nat? k with
    | some body, some k =>
      let bs := cfgSkelNoPhi c
      match Trace.firstMismatch (retLocs body) (astSkel body) bs k with
      | none => s!"ok {(Trace.allDecisions k).length}"
      | some ds =>
        let show_ (l : List CfgLift.Loc) := ",".intercalate (l.map (fun x => s!"{x.1}-{x.2}"))
        s!"mismatch decisions={ds} ast={show_ (Trace.astTrace (retLocs body) (astSkel body) ds)} cfg={show_ (Trace.cfgTrace bs ds)}"
    | _, _ => "bad-op"
  | _ => "bad-op"

/-- an occurrence met by the traversal of `unique_vars.rs`: (is declaration, source range, name) -/
structure Occ where
  isDecl : Bool
  loc : CfgLift.Loc
  name : String

inductive Ev | enter | exit | occ (o : Occ)

mutual
/-- `visit_expression` of unique_vars.rs: variable occurrences in traversal order -/
partial def exprEvents (e : Sexp) : List Ev :=
  match e with
  | .list (.atom "var" :: m :: .atom n :: .list acc :: _) => .occ ⟨false, locOf m, n⟩ :: acc.flatMap accessEvents
  | .list (.atom "infix" :: _ :: _ :: l :: r :: _) => exprEvents l ++ exprEvents r
  | .list (.atom "prefix" :: _ :: _ :: r :: _) => exprEvents r
  | .list (.atom "switch" :: _ :: c :: t :: f :: _) => exprEvents c ++ exprEvents t ++ exprEvents f
  | .list (.atom "par" :: _ :: r :: _) => exprEvents r
  | .list (.atom "call" :: _ :: _ :: .list args :: _) => args.flatMap exprEvents
  | .list (.atom "arr" :: _ :: .list vs :: _) => vs.flatMap exprEvents
  | .list (.atom "tuple" :: _ :: .list vs :: _) => vs.flatMap exprEvents
  | .list (.atom "anon" :: m :: _ :: .list ps :: .list ss :: names :: _) =>
    ps.flatMap exprEvents ++ ss.flatMap exprEvents ++
      (match names with
       | .list ns => ns.filterMap (fun n => match n with
           | .list [_, .atom nm] => some (.occ ⟨false, locOf m, nm⟩) | _ => none)
       | _ => [])
  | _ => []
partial def accessEvents (a : Sexp) : List Ev :=
  match a with
  | .list [.atom "idx", e] => exprEvents e
  | _ => []
end

/-- `visit_statement` of unique_vars.rs -/
partial def stmtEvents (s : Sexp) : List Ev :=
  match s with
  | .list (.atom "decl" :: m :: _ :: .atom n :: .list dims :: _) => dims.flatMap exprEvents ++ [.occ ⟨true, locOf m, n⟩]
  | .list (.atom "sub" :: m :: .atom v :: .list acc :: _ :: rhe :: _) =>
    .occ ⟨false, locOf m, v⟩ :: (acc.flatMap accessEvents ++ exprEvents rhe)
  | .list (.atom "msub" :: _ :: l :: _ :: r :: _) => exprEvents l ++ exprEvents r
  | .list (.atom "log" :: _ :: .list args :: _) =>
    args.flatMap (fun a => match a with | .list [.atom "exp", e] => exprEvents e | _ => [])
  | .list (.atom "ret" :: _ :: e :: _) => exprEvents e
  | .list (.atom "ceq" :: _ :: l :: r :: _) => exprEvents l ++ exprEvents r
  | .list (.atom "assert" :: _ :: e :: _) => exprEvents e
  | .list (.atom "init" :: _ :: _ :: .list cs :: _) => cs.flatMap stmtEvents
  | .list (.atom "while" :: _ :: c :: b :: _) => exprEvents c ++ stmtEvents b
  | .list (.atom "blk" :: _ :: .list cs :: _) => [.enter] ++ cs.flatMap stmtEvents ++ [.exit]
  | .list (.atom "ite" :: _ :: c :: t :: e :: _) =>
    exprEvents c ++ stmtEvents t ++ (match e with | .atom _ => [] | e => stmtEvents e)
  | _ => []

/-- `uniq <ast def>`: per occurrence `start-end:name:suffix:declaration` (model key and
    specified resolution), the shadowing pairs of model and specification, and the
    parameter-collision flag -/
def uniqCmd (rest : String) : String :=
  match Sexp.parse rest with
  | some (.list [.atom "def", _, _, .list params, ploc, body]) =>
    let ps := params.filterMap Sexp.str?
    let evs := stmtEvents body
    -- occurrences are numbered in traversal order (as the model does); parameters take ids 0..
    let np := ps.length
    let (events, occs, _) := evs.foldl (fun (acc : List UniqueVars.Event × List (Nat × Occ) × Nat) e =>
      let (es, os, k) := acc
      match e with
      | .enter => (es ++ [UniqueVars.Event.enter], os, k)
      | .exit => (es ++ [UniqueVars.Event.exit], os, k)
      | .occ o => (es ++ [if o.isDecl then UniqueVars.Event.decl o.name else UniqueVars.Event.use o.name], os ++ [(k, o)], k + 1))
      (([] : List UniqueVars.Event), ([] : List (Nat × Occ)), np)
    let outs := (UniqueVars.rename ps events).filter (fun o => decide (np ≤ o.id))
    let pev := UniqueVars.paramEvents ps
    let res := ScopeSpec.resolve ScopeSpec.St.init (pev ++ events)
    let locStr (id : Nat) : String :=
      if id < np then s!"p{(locOf ploc).1}-{(locOf ploc).2}" else
      match occs.find? (fun e => e.1 == id) with
      | some (_, o) => s!"{o.loc.1}-{o.loc.2}"
      | none => "?"
    let line (o : UniqueVars.Out) : String :=
      let d := match res.find? (fun r => r.1 == o.id) with
        | some (_, some d) => locStr d ++ "#" ++ toString d
        | _ => "-"
      s!"{locStr o.id}:{o.name}:{match o.suffix with | some k => toString k | none => "-"}:{d}"
    let shadowM := outs.filterMap (fun o => o.shadows.map (fun d => s!"{locStr o.id}>{locStr d}"))
    let shadowS := (ScopeSpec.shadowing ScopeSpec.St.init (pev ++ events)).filter (fun e => decide (np ≤ e.1)) |>.map (fun e => s!"{locStr e.1}>{locStr e.2}")
    s!"{" ".intercalate (outs.map line)} # {" ".intercalate shadowM} # {" ".intercalate shadowS} # {UniqueVars.paramCollision ps}"
  | _ => "bad-op"

/-- `(v name suffix version)` -> (key, version?) -/
def vvarOf (v : Sexp) : Option (String × Option Nat) :=
  match v with
  | .list [.atom "v", .atom n, .atom sfx, ver] =>
    some ((if sfx == "-" then n else n ++ "." ++ sfx), Sexp.nat? ver)
  | _ => none

/-- all versioned variable occurrences of an IR expression dump -/
partial def exprReads (e : Sexp) : List Ssa.VVar :=
  match e with
  | .list (.atom "var" :: _ :: v :: _) => (match vvarOf v with | some (k, some n) => [(k, n)] | _ => [])
  | .list (.atom "acc" :: _ :: v :: .list acc :: _) =>
    (match vvarOf v with | some (k, some n) => [(k, n)] | _ => []) ++ acc.flatMap exprReads
  | .list (.atom "upd" :: _ :: v :: .list acc :: rhe :: _) =>
    (match vvarOf v with | some (k, some n) => [(k, n)] | _ => []) ++ acc.flatMap exprReads ++ exprReads rhe
  | .list (.atom "phi" :: _ :: .list args :: _) => args.filterMap (fun a => match vvarOf a with | some (k, some n) => some (k, n) | _ => none)
  | .list (.atom "idx" :: e :: _) => exprReads e
  | .list (.atom "exp" :: e :: _) => exprReads e
  | .list (.atom "m" :: _) => []
  | .list (.atom "v" :: _) => []
  | .list (.list x :: rest) => (Sexp.list x :: rest).flatMap exprReads      -- a list of expressions (call / log arguments)
  | .list (_ :: rest) => rest.flatMap exprReads
  | _ => []

def ssaStmtOf (st : Sexp) : Ssa.Stmt :=
  match st with
  | .list (.atom "st" :: .list (.atom "sub" :: _ :: v :: _ :: rhe :: _) :: _) =>
    let isPhi := match rhe with | .list (.atom "phi" :: _) => true | _ => false
    let imp := match rhe with
      | .list (.atom "upd" :: _ :: uv :: _) => (match vvarOf uv with | some (k, some n) => [(k, n)] | _ => [])
      | _ => []
    { isPhi := isPhi, target := (match vvarOf v with | some (k, some n) => some (k, n) | _ => none), reads := exprReads rhe, implicit := imp }
  | .list (.atom "st" :: .list (.atom "decl" :: _ :: _ :: _ :: .list dims :: _) :: _) =>
    { isPhi := false, target := none, reads := dims.flatMap exprReads, implicit := [] }
  | .list (.atom "st" :: .list (_ :: _ :: rest) :: _) => { isPhi := false, target := none, reads := rest.flatMap exprReads, implicit := [] }
  | _ => { isPhi := false, target := none, reads := [], implicit := [] }

def ssaCfgOf (c : Sexp) : Ssa.Cfg :=
  match c with
  | .list (.atom "cfg" :: _ :: _ :: .list ps :: _ :: .list bs :: _) =>
    { params := ps.filterMap (fun p => (vvarOf p).map (·.1)),
      blocks := bs.map (fun b => match b with
        | .list [.atom "b", _, _, .list pr, .list su, .list sts] =>
          { stmts := sts.map ssaStmtOf, preds := pr.filterMap Sexp.nat?, succs := su.filterMap Sexp.nat? }
        | _ => default) }
  | _ => { params := [], blocks := [] }

/-- `ssacheck <ssa cfg>`: the certificate check of C14 on a real SSA dump, plus the static facts -/
def ssacheckCmd (rest : String) : String :=
  match Sexp.parse rest with
  | some c =>
    let g := ssaCfgOf c
    let vars := (g.params ++ (Ssa.allStmts g).flatMap (fun s => (match s.target with | some t => [t.1] | none => []) ++ s.reads.map (·.1))).eraseDups
    let ins := Ssa.guessIns g
    let r1 := if Ssa.ssaLocalCheck g vars ins then [] else ["local-check"]
    let r2 := if Ssa.uniqueDefs g then [] else ["unique-defs"]
    let r3 := if Ssa.phisAtHead g then [] else ["phis-at-head"]
    let n := g.blocks.length
    let dbg : List String := if r1.isEmpty then [] else
      (if Ssa.mentions g vars then [] else ["mentions"]) ++
      (if (g.block 0).preds.isEmpty then [] else ["entry-preds"]) ++
      (List.range n).flatMap (fun i =>
        let b := g.block i
        (if Ssa.phiPrefix b then [] else [s!"phiprefix@{i}"]) ++
        b.preds.flatMap (fun p => vars.filterMap (fun v =>
          match Ssa.phiFor b v with
          | some args => (match Ssa.outOf g ins p v with
              | some k => if args.contains (v, k) then none else some s!"edge {p}->{i} {v}: out {k} not in phi args {args.map (·.2)}"
              | none => none)
          | none => if Ssa.outOf g ins p v == ins i v then none else some s!"edge {p}->{i} {v}: out {Ssa.outOf g ins p v} != in {ins i v}")) ++
        (if Ssa.readsOk (ins i) b.stmts then [] else [s!"reads@{i}"]))
    let rs := r1 ++ r2 ++ r3 ++ dbg.take 6
    if rs.isEmpty then s!"ok vars={vars.length} stmts={(Ssa.allStmts g).length} phis={((Ssa.allStmts g).filter (·.isPhi)).length}" else "fail " ++ " ".intercalate rs
  | none => "bad-op"

-- ---------------------------------------------------------------- C14: the construction model on real dumps

def pkeyOf (v : Sexp) : Option String := (vvarOf v).map (·.1)

/-- local-variable occurrences of an (unversioned) IR expression dump, in the order `exprReads` uses -/
partial def exprReadsP (locals : List String) (e : Sexp) : List String :=
  let loc (v : Sexp) : List String := match pkeyOf v with | some k => if locals.contains k then [k] else [] | none => []
  match e with
  | .list (.atom "var" :: _ :: v :: _) => loc v
  | .list (.atom "acc" :: _ :: v :: .list acc :: _) => loc v ++ acc.flatMap (exprReadsP locals)
  | .list (.atom "upd" :: _ :: v :: .list acc :: rhe :: _) => loc v ++ acc.flatMap (exprReadsP locals) ++ exprReadsP locals rhe
  | .list (.atom "phi" :: _) => []
  | .list (.atom "idx" :: e :: _) => exprReadsP locals e
  | .list (.atom "exp" :: e :: _) => exprReadsP locals e
  | .list (.atom "m" :: _) => []
  | .list (.atom "v" :: _) => []
  | .list (.list x :: rest) => (Sexp.list x :: rest).flatMap (exprReadsP locals)
  | .list (_ :: rest) => rest.flatMap (exprReadsP locals)
  | _ => []

def pstmtOf (locals : List String) (st : Sexp) : SsaBuild.PStmt :=
  match st with
  | .list (.atom "st" :: .list (.atom "sub" :: _ :: v :: _ :: rhe :: _) :: _) =>
    let tgt := match pkeyOf v with | some k => if locals.contains k then some k else none | none => none
    (match rhe, tgt with
     | .list (.atom "upd" :: _ :: uv :: .list acc :: inner :: _), some t =>
       if pkeyOf uv == some t then
         { target := tgt, reads := acc.flatMap (exprReadsP locals) ++ exprReadsP locals inner, upd := true }
       else { target := tgt, reads := exprReadsP locals rhe, upd := false }
     | _, _ => { target := tgt, reads := exprReadsP locals rhe, upd := false })
  | .list (.atom "st" :: .list (.atom "decl" :: _ :: _ :: _ :: .list dims :: _) :: _) =>
    { target := none, reads := dims.flatMap (exprReadsP locals), upd := false }
  | .list (.atom "st" :: .list (_ :: _ :: rest) :: _) => { target := none, reads := rest.flatMap (exprReadsP locals), upd := false }
  | _ => { target := none, reads := [], upd := false }

def pcfgOf (c : Sexp) : SsaBuild.PCfg × List String :=
  match c with
  | .list (.atom "cfg" :: _ :: _ :: .list ps :: .list decls :: .list bs :: _) =>
    let locals := decls.filterMap (fun d => match d with
      | .list (.atom "d" :: v :: .list (.atom "local" :: _) :: _) => pkeyOf v
      | _ => none)
    ({ params := ps.filterMap pkeyOf,
       blocks := bs.map (fun b => match b with
         | .list [.atom "b", _, _, .list pr, .list su, .list sts] =>
           { stmts := sts.map (pstmtOf locals), preds := pr.filterMap Sexp.nat?, succs := su.filterMap Sexp.nat? }
         | _ => default) }, locals)
  | _ => ({ params := [], blocks := [] }, [])

def showSsaStmt (s : Ssa.Stmt) : String :=
  let vv (x : Ssa.VVar) := s!"{x.1}@{x.2}"
  let srt (l : List Ssa.VVar) := (l.map vv).toArray.qsort (· < ·) |>.toList
  (if s.isPhi then "phi " else "") ++ (match s.target with | some t => vv t | none => "-") ++ " <- " ++ ",".intercalate (srt s.reads.eraseDups) ++
    (if s.implicit.isEmpty then "" else " imp " ++ ",".intercalate (srt s.implicit))

def showSsaBlock (b : Ssa.Block) : String :=
  let phis := (b.stmts.filter (·.isPhi)).map showSsaStmt
  let rest := (b.stmts.filter (fun s => !s.isPhi)).map showSsaStmt
  "; ".intercalate ((phis.toArray.qsort (· < ·)).toList ++ rest)

/-- `ssabuild (pair <pre-SSA cfg> <ssa cfg | ->)`: the construction model of C14 (`SsaBuild.insertPhis`, `SsaBuild.build`) run
    on the real CFG before SSA conversion, with the version numbers of the real SSA dump: the built SSA form must be the
    dump (phi statements and their arguments as sets, the other statements in order); also evaluates the hypotheses of
    `C14_construction` (rooted graph, immediate dominators with smaller index, work list emptied) -/
def ssabuildCmd (rest : String) : String :=
  match Sexp.parse rest with
  | some (.list [.atom "pair", pc, sc]) =>
    let (c, _) := pcfgOf pc
    let n := c.blocks.length
    let g : Graph.Graph := { n := c.blocks.length, pred := fun i => (c.block i).preds }
    match Dominators.computeDominators g with
    | none => "fail dominators"
    | some D =>
      let idoms := Dominators.idoms g D
      let idom : Nat → Nat := fun i => match idoms i with | .some j => j | _ => 0
      let hyps := (if (List.range n).all (fun i => i == 0 || decide (idom i < i)) then [] else ["idom-not-smaller"]) ++
        (if (g.pred 0).isEmpty then [] else ["entry-preds"]) ++
        (if (List.range n).all (fun i => (g.pred i).all (· < n)) then [] else ["preds-range"])
      let df : Nat → List Nat := fun x => (List.range n).filter (fun j => Dominators.inFrontier g idoms x j)
      let allW := ((List.range n).flatMap (SsaBuild.written c)).eraseDups
      match SsaBuild.insertPhis df (SsaBuild.written c) (n + n * allW.length + 2) (List.range n) (fun _ => []) with
      | none => "fail worklist-fuel"
      | some Pf =>
        match sc with
        | .atom _ =>
          -- the real conversion failed: the model must fail as well, for every numbering (none is consulted on failure)
          let V : SsaBuild.Versions := { phi := fun _ _ => 0, def_ := fun _ _ => 0, imp := fun _ _ => 0 }
          (match SsaBuild.build V c Pf idom with
           | none => "ok both-fail" ++ (if hyps.isEmpty then "" else " hyps:" ++ ",".intercalate hyps)
           | some _ => "mismatch model builds an SSA form but the implementation failed")
        | _ =>
          let r := ssaCfgOf sc
          let V : SsaBuild.Versions :=
            { phi := fun i v => match Ssa.phiFor (r.block i) v with
                | some _ => (match ((r.block i).stmts.find? (fun s => s.isPhi && (match s.target with | some (w, _) => w == v | none => false))) with
                             | some s => (match s.target with | some t => t.2 | none => 0) | none => 0)
                | none => 0,
              def_ := fun i k => match ((r.block i).stmts.filter (fun s => !s.isPhi))[k]? with
                | some s => (match s.target with | some t => t.2 | none => 0) | none => 0,
              imp := fun i k => match ((r.block i).stmts.filter (fun s => !s.isPhi))[k]? with
                | some s => (match s.implicit with | x :: _ => x.2 | [] => 0) | none => 0 }
          (match SsaBuild.build V c Pf idom with
           | none => "mismatch model fails (read of an unversioned local) but the implementation produced an SSA form"
           | some m =>
             let bad := (List.range n).filter (fun i => showSsaBlock (m.block i) != showSsaBlock (r.block i))
             if bad.isEmpty && m.blocks.length == r.blocks.length then
               s!"ok blocks={n} phis={((List.range n).map (fun i => (Pf i).length)).sum}" ++ (if hyps.isEmpty then "" else " hyps:" ++ ",".intercalate hyps)
             else
               let i := bad.headD 0
               s!"mismatch block {i}: model [{showSsaBlock (m.block i)}] implementation [{showSsaBlock (r.block i)}]")
  | _ => "bad-op"

/-- `ssawalk (pair <pre-SSA cfg> <ssa cfg | ->)`: the operational model of the renaming (`SsaWalk.run`: pre-order walk,
    global counters, scoped map) on the real CFG before SSA conversion: the SSA form it produces must be the dump,
    version numbers included (phi statements and their arguments as sets) -/
def ssawalkCmd (rest : String) : String :=
  match Sexp.parse rest with
  | some (.list [.atom "pair", pc, sc]) =>
    let (c, _) := pcfgOf pc
    let n := c.blocks.length
    let g : Graph.Graph := { n := c.blocks.length, pred := fun i => (c.block i).preds }
    match Dominators.computeDominators g with
    | none => "fail dominators"
    | some D =>
      let idoms := Dominators.idoms g D
      let idom : Nat → Nat := fun i => match idoms i with | .some j => j | _ => 0
      let df : Nat → List Nat := fun x => (List.range n).filter (fun j => Dominators.inFrontier g idoms x j)
      let allW := ((List.range n).flatMap (SsaBuild.written c)).eraseDups
      match SsaBuild.insertPhis df (SsaBuild.written c) (n + 2 * (n * allW.length)) (List.range n) (fun _ => []) with
      | none => "fail worklist-fuel"
      | some Pf =>
        let hyps := (if c.params.eraseDups.length == c.params.length then [] else ["dup-params"]) ++
          (if (List.range n).all (fun i => (c.block i).succs.all (fun s => (c.block s).preds.contains i) &&
              (c.block i).preds.all (fun p => decide (p < n) && (c.block p).succs.contains i)) then [] else ["edges"]) ++
          (if (List.range n).all (fun i => i == 0 || decide (idom i < i)) then [] else ["idom-not-smaller"])
        match SsaWalk.run c Pf idom, sc with
        | .fuel, _ => "fail walk-fuel"
        | .undef, .atom _ => "ok both-fail"
        | .undef, _ => "mismatch model fails (read of an unversioned local) but the implementation produced an SSA form"
        | .ok _, .atom _ => "mismatch model builds an SSA form but the implementation failed"
        | .ok st, _ =>
          let r := ssaCfgOf sc
          match SsaWalk.cfgOf c Pf st with
          | none => "mismatch the walk did not visit every block"
          | some m =>
            let bad := (List.range n).filter (fun i => showSsaBlock (m.block i) != showSsaBlock (r.block i))
            let pairs := st.log.map (fun e => (e.var, e.ver))
            let freshOk := pairs.eraseDups.length == pairs.length
            if !freshOk then "mismatch a version was handed out twice" else
            if bad.isEmpty && m.blocks.length == r.blocks.length then
              s!"ok blocks={n} versions={st.log.length}" ++ (if hyps.isEmpty then "" else " hyps:" ++ ",".intercalate hyps)
            else
              let i := bad.headD 0
              s!"mismatch block {i}: model [{showSsaBlock (m.block i)}] implementation [{showSsaBlock (r.block i)}]"
  | _ => "bad-op"

/-- `phicomplete <ssa cfg>`: the phi statements that lack an argument for some incoming edge (the
    variable has no version at the end of that predecessor): hypothesis `PhiComplete` of C06 -/
def phicompleteCmd (rest : String) : String :=
  match Sexp.parse rest with
  | some c =>
    let g := ssaCfgOf c
    let ins := Ssa.guessIns g
    let n := g.blocks.length
    let bad := (List.range n).flatMap (fun i =>
      let b := g.block i
      b.stmts.filterMap (fun s =>
        if s.isPhi then
          match s.target with
          | some (v, k) => if b.preds.any (fun p => (Ssa.outOf g ins p v).isNone) then some s!"{v}@{k}" else none
          | none => none
        else none))
    if bad.isEmpty then "complete" else "incomplete " ++ " ".intercalate bad
  | none => "bad-op"

-- ---------------------------------------------------------------- IR decoding (C06/C07/C20)

def vnameOf (v : Sexp) : Ir.VName :=
  match v with
  | .list [.atom "v", .atom n, .atom sfx, ver] => { name := n, suffix := if sfx == "-" then none else some sfx, version := Sexp.nat? ver }
  | _ => { name := "?", suffix := none, version := none }

def vtypeOf (t : Sexp) : Option Ir.VType :=
  match t with
  | .list (.atom "local" :: _) => some .local_
  | .list (.atom "signal" :: _) => some .signal
  | .list (.atom "component" :: _) => some .component
  | .list (.atom "anoncomponent" :: _) => some .component
  | _ => none

mutual
partial def irExpr (e : Sexp) : Ir.Expr :=
  match e with
  | .list [.atom "infix", _, .atom op, l, r] => .infix {} op (irExpr l) (irExpr r)
  | .list [.atom "prefix", _, .atom op, x] => .prefix {} op (irExpr x)
  | .list [.atom "switch", _, c, t, f] => .switch {} (irExpr c) (irExpr t) (irExpr f)
  | .list [.atom "var", _, v] => .var {} (vnameOf v)
  | .list [.atom "num", _, .atom n] => .num {} (n.toInt?.getD 0)
  | .list [.atom "call", _, .atom name, .list args] => .call {} name (Ir.Exprs.ofList (args.map irExpr))
  | .list [.atom "arr", _, .list vs] => .arr {} (Ir.Exprs.ofList (vs.map irExpr))
  | .list [.atom "acc", _, v, .list acc] => .acc {} (vnameOf v) (Ir.Accs.ofList (acc.map irAcc))
  | .list [.atom "upd", _, v, .list acc, rhe] => .upd {} (vnameOf v) (Ir.Accs.ofList (acc.map irAcc)) (irExpr rhe)
  | .list [.atom "phi", _, .list args] => .phi {} (args.map vnameOf)
  | _ => .num {} 0
partial def irAcc (a : Sexp) : Ir.Acc :=
  match a with
  | .list [.atom "idx", e] => .idx (irExpr e)
  | .list [.atom "cmp", .atom n] => .cmp n
  | _ => .cmp "?"
end

def metaType (m : Sexp) : Option Ir.VType :=
  match m with
  | .list [_, _, _, _, _, t] => vtypeOf t
  | _ => none

def irStmt (st : Sexp) : Ir.Stmt :=
  match st with
  | .list (.atom "st" :: body :: _) =>
    match body with
    | .list [.atom "decl", _, .list names, ty, .list dims] => .decl (names.map vnameOf) ((vtypeOf ty).getD .local_) (dims.map irExpr)
    | .list [.atom "if", _, c, _, _] => .ite (irExpr c)
    | .list [.atom "ret", _, e] => .ret (irExpr e)
    | .list [.atom "sub", m, v, .atom op, rhe] => .sub {} (vnameOf v) (metaType m) op (irExpr rhe)
    | .list [.atom "ceq", _, l, r] => .ceq (irExpr l) (irExpr r)
    | .list [.atom "log", _, .list args] => .log (args.map (fun a => match a with | .list [.atom "exp", e] => .expr (irExpr e) | _ => .str))
    | .list [.atom "assert", _, e] => .assert (irExpr e)
    | _ => .ret default
  | _ => .ret default

def irCfg (c : Sexp) : Ir.Cfg :=
  match c with
  | .list (.atom "cfg" :: _ :: .atom kind :: .list ps :: _ :: .list bs :: _) =>
    -- the dominators of every block, by the model of C15 on the dumped predecessor lists
    let preds : List (List Nat) := bs.map (fun b => match b with
      | .list [.atom "b", _, _, .list pr, _, _] => pr.filterMap Sexp.nat?
      | _ => [])
    let g : Graph.Graph := { n := bs.length, pred := fun i => preds.getD i [] }
    let domsD := Dominators.computeDominators g
    let domsOf : Nat → List Nat := match domsD with
      | some D => fun i => (List.range bs.length).filter (fun j => D i j)
      | none => fun _ => []
    -- the conditions between the immediate dominator of a block and the block (`get_join_conditions`), from the dumped edges
    let idomOf : Nat → Option Nat := match domsD with
      | some D => fun i => (match Dominators.idoms g D i with | .some j => some j | _ => none)
      | none => fun _ => none
    let edges : List (Nat × Nat) := (List.range bs.length).flatMap (fun i => (preds.getD i []).map (fun q => (q, i)))
    let stmtsOf : Nat → List Ir.Stmt := fun i => match bs.getD i (.atom "") with
      | .list [.atom "b", _, _, _, _, .list sts] => sts.map irStmt
      | _ => []
    let isBranch : Nat → Bool := fun i => match (stmtsOf i).getLast? with | some (.ite _) => true | _ => false
    let hasPhi : Nat → Bool := fun i => (stmtsOf i).any (fun st => match st with | .sub _ _ _ _ (.phi _ _) => true | _ => false)
    let sortN (l : List Nat) : List Nat := (List.range bs.length).filter (fun i => l.contains i)
    { isFunction := kind == "fn", params := ps.map vnameOf,
      blocks := bs.zipIdx.map (fun bi => match bi.1 with
        | .list [.atom "b", _, _, .list pr, _, .list sts] =>
          { stmts := sts.map irStmt, npreds := pr.length, doms := domsOf bi.2,
            conds := sortN (CfgReach.joinConds edges isBranch hasPhi (idomOf bi.2) bi.2) }
        | _ => { stmts := [] }) }
  | _ => { isFunction := false, params := [], blocks := [] }

def showVal : Option Ir.Val → String
  | none => "-"
  | some (.bool b) => if b then "b1" else "b0"
  | some (.fe n) => s!"f{n}"

def showDeg : Option Ir.Range → String
  | none => "-"
  | some (a, b) => s!"{a}{b}"

def showAnn (a : Ir.Ann) : String := showVal a.val ++ "/" ++ showDeg a.deg

mutual
/-- annotations in the order of the dump (node, then children left to right) -/
partial def annExpr (e : Ir.Expr) : List String :=
  match e with
  | .infix a _ l r => showAnn a :: (annExpr l ++ annExpr r)
  | .prefix a _ x => showAnn a :: annExpr x
  | .switch a c t f => showAnn a :: (annExpr c ++ annExpr t ++ annExpr f)
  | .var a _ => [showAnn a]
  | .num a _ => [showAnn a]
  | .call a _ args => showAnn a :: args.toList.flatMap annExpr
  | .arr a vs => showAnn a :: vs.toList.flatMap annExpr
  | .acc a _ acc => showAnn a :: annAccs acc
  | .upd a _ acc rhe => showAnn a :: (annAccs acc ++ annExpr rhe)
  | .phi a _ => [showAnn a]
partial def annAccs (a : Ir.Accs) : List String :=
  match a with
  | .nil => []
  | .cons (.idx e) rest => annExpr e ++ annAccs rest
  | .cons (.cmp _) rest => annAccs rest
end

def annStmt (s : Ir.Stmt) : List String :=
  match s with
  | .decl _ _ dims => dims.flatMap annExpr
  | .ite c => annExpr c
  | .ret e => annExpr e
  | .sub a _ _ _ rhe => ("S" ++ showAnn a) :: annExpr rhe
  | .ceq l r => annExpr l ++ annExpr r
  | .log args => args.flatMap (fun x => match x with | .expr e => annExpr e | .str => [])
  | .assert e => annExpr e

/-- merge value annotations of `vb` and degree annotations of `db` (same shapes) is not needed:
    the two loops run one after the other on the same tree -/
def propagateCmd (rest : String) : String :=
  match Sexp.parse rest with
  | some (.list [.atom "prop", c, vk, dk, p]) =>
    let cfg := irCfg c
    let prime := match p with | .atom s => s.toInt?.getD 0 | _ => 0
    let big := 1000000
    let vfuel := (Sexp.nat? vk).getD big
    let dfuel := (Sexp.nat? dk).getD big
    -- the counted loops: the same blocks and flags as `valLoop` / `degLoop` (`valLoopN_spec`, `degLoopN_spec`), plus the number of passes
    let (bs1, fixV, nV) := Propagate.valLoopN vfuel (Propagate.valInit prime cfg.blocks) cfg.blocks 0
    let (bs2, fixD, nD) := Propagate.degLoopN dfuel (Propagate.degInit cfg) bs1 0
    let anns := bs2.flatMap (fun b => b.stmts.flatMap annStmt)
    s!"{fixV} {fixD} {nV} {nD} " ++ " ".intercalate anns
  | _ => "bad-op"

/-- `lessthan <curve tag> <stmt>*` with `I:<key>:<L|U|N.<size|->.<size text>>` (an instantiation) and
    `P:<key>:<port>:<0|1 indexed>:<whole>:<elem,elem,…|->:<block>` (an assignment to a port; an expression is `<id>/<0|1 fixed>`), `D:<block>:<dominators>`; a key is `<id>~<name>~<acc;acc;…|->` as for
    `sigassign`. Prints the reported values. -/
def lessthanCmd (args : List String) : String :=
  match args with
  | ctag :: toks =>
    match Curve.curveOfTag ctag with
    | none => "bad-op"
    | some c =>
      let accOf (t : String) : SignalAssign.Acc :=
        if t.startsWith "P" then .port (t.drop 1).toString
        else let v := (t.drop 1).toString; .idx (if v == "-" then none else some v)
      let keyOf (t : String) : LessThanPass.Key := match t.splitOn "~" with
        | [i, n, a] => { id := i, name := n, acc := if a == "-" then [] else (a.splitOn ";").map accOf }
        | _ => { id := t, name := t, acc := [] }
      let valOf (t : String) : LessThanPass.Val := match t.splitOn "/" with
        | [v, f] => (v, f == "1")
        | _ => (t, true)
      let instOf (t : String) : LessThanPass.Inst := match t.splitOn "." with
        | ["L"] => .lessThan
        | ["N", sz, txt] => .num2bits sz.toNat? txt
        | _ => .unknown
      let ss : List LessThanPass.Stmt := toks.map (fun t => match t.splitOn ":" with
        | ["I", k, i] => .inst (keyOf k) (instOf i)
        | ["P", k, port, ix, whole, elems, blk] => .input (keyOf k) port (ix == "1") (valOf whole)
            (if elems == "-" then none else some ((elems.splitOn ",").map valOf)) (blk.toNat?.getD 0)
        | _ => .other)
      -- `D:<block>:<dominator,dominator,…|->`: the dominators of a block (`Cfg::get_dominators`)
      let doms : List (Nat × List Nat) := toks.filterMap (fun t => match t.splitOn ":" with
        | ["D", b, ds] => some (b.toNat?.getD 0, (csv ds ",").filterMap String.toNat?)
        | _ => none)
      let rs := LessThanPass.reported c (LessThanPass.domOf doms) ss
      if rs.isEmpty then "-" else ",".intercalate rs
  | _ => "bad-op"

/-- `sigassign <kind> <stmt>*` with `A:<s>-<e>:<key>:<0|1>` and `C:<s>-<e>:<key,key,...|->:<target key|->`; a key is
    `<id>~<name>~<acc;acc;…|->` with `acc` = `P<port>` or `I<value|->` -/
def sigassignCmd (args : List String) : String :=
  match args with
  | kind :: toks =>
    let k : SignalAssign.Kind := if kind == "tmpl" then .template else if kind == "fn" then .function else .custom
    let locOf' (t : String) : Nat × Nat := match t.splitOn "-" with | [a, b] => (a.toNat?.getD 0, b.toNat?.getD 0) | _ => (0, 0)
    let accOf (t : String) : SignalAssign.Acc :=
      if t.startsWith "P" then .port (t.drop 1).toString
      else let v := (t.drop 1).toString; .idx (if v == "-" then none else some v)
    let keyOf (t : String) : SignalAssign.Key := match t.splitOn "~" with
      | [i, n, a] => { id := i, name := n, acc := if a == "-" then [] else (a.splitOn ";").map accOf }
      | _ => { id := t, name := t, acc := [] }
    let ss : List SignalAssign.Stmt := toks.map (fun t => match t.splitOn ":" with
      | ["A", l, key, q] => .assign (locOf' l) (keyOf key) (q == "1")
      | ["C", l, keys, tgt] => .constraint (locOf' l) (if keys == "-" then [] else (csv keys ",").map keyOf) (if tgt == "-" then none else some (keyOf tgt))
      | _ => .other)
    let rs := SignalAssign.findSignalAssignments k ss
    if rs.isEmpty then "-" else " ".intercalate (rs.map (fun r => match r with
      | .signalAssignment l key secs => s!"CS0005:{l.1}-{l.2}:{key.id}:{",".intercalate (secs.map (fun x => s!"{x.1}-{x.2}"))}"
      | .unnecessary l key => s!"CS0013:{l.1}-{l.2}:{key.id}:"))
  | _ => "bad-op"

/-- `includes <inputs csv|-> <libs|-> <files>`:
    libs `;`-separated `d:key=file,...` / `f:target:name`; files `;`-separated `<ok>:<rel|->/<dot>/<sep>/<key>,...` -/
def includesCmd (args : List String) : String :=
  match args with
  | [ins, libs, files] =>
    let nat (t : String) : Nat := t.toNat?.getD 0
    let inputs : List Nat := if ins == "-" then [] else (ins.splitOn ",").map nat
    let parseLib (t : String) : Includes.Lib := match t.splitOn ":" with
      | ["d", es] => .dir ((es.splitOn ",").filterMap (fun e => match e.splitOn "=" with
          | [k, f] => some (nat k, nat f) | _ => none))
      | ["f", t, nm] => .file (nat t) (nat nm)
      | _ => .dir []
    let parseInc (t : String) : Option Includes.Inc := match t.splitOn "/" with
      | [rel, dot, sep, key] => some { rel := if rel == "-" then none else some (nat rel), dot := dot == "1", sep := sep == "1", key := nat key }
      | _ => none
    let parseFile (t : String) : Includes.FileInfo := match t.splitOn ":" with
      | [ok, incs] => { ok := ok == "1", includes := if incs == "" then [] else (incs.splitOn ",").filterMap parseInc }
      | _ => { ok := false, includes := [] }
    let fs : Includes.Fs := { files := (files.splitOn ";").map parseFile, libs := if libs == "-" then [] else (libs.splitOn ";").map parseLib }
    let st := Includes.parseFiles fs inputs
    let stable := decide (Includes.run fs (fs.n + 5) (Includes.init inputs) = st)
    let users := st.reads.filter (Includes.isUserInput inputs)
    s!"wf={if fs.wf inputs then 1 else 0} stack={st.stack.length} stable={if stable then 1 else 0} reads={showCsv st.reads} users={showCsv users} errors={",".intercalate (st.errors.map (fun e => s!"{e.1}.{e.2}"))} bad={",".intercalate ((Includes.badSites fs inputs st.reads).map (fun e => s!"{e.1}.{e.2}"))}"
  | _ => "bad-op"

/-- `taint <fuel> <params|-> <exported|-> <underscore|-> <fact>*` with facts `A:w:rs:phi`, `D:names:rs`,
    `B:rs:const:region`, `O:rs`, `C:us:reads`, `X:rs` (lists `.`-separated, `-` empty) -/
def taintCmd (args : List String) : String :=
  match args with
  | fuel :: ps :: ex :: us :: toks =>
    let lst (t : String) : List Nat := if t == "-" || t == "" then [] else (t.splitOn ".").filterMap String.toNat?
    let facts : List Taint.Fact := toks.filterMap (fun t => match t.splitOn ":" with
      | ["A", w, rs, phi] => some (.assign (w.toNat?.getD 0) (lst rs) (phi == "1"))
      | ["D", ns, rs] => some (.decl (lst ns) (lst rs))
      | ["B", rs, c, region] => some (.branch (lst rs) (c == "1") (lst region))
      | ["O", rs] => some (.observe (lst rs))
      | ["C", us, reads] => some (.constraint (lst us) (lst reads))
      | ["X", rs] => some (.other (lst rs))
      | _ => none)
    let d : Taint.Def := { facts := facts, params := lst ps, exported := lst ex, underscore := lst us, fuel := max (fuel.toNat?.getD 0) (Taint.closureFuel (Taint.edges facts ++ Taint.consEdges facts) ((Taint.consEdges facts).length + 1)) }
    let showPairs (l : List (Nat × Nat)) : String :=
      let u := l.eraseDups
      if u.isEmpty then "-" else ",".intercalate (u.map (fun e => s!"{e.1}>{e.2}"))
    let sinks := match d.sinks with
      | some l => showCsv l.eraseDups
      | none => "none"
    let claims := d.definitions.eraseDups.map (fun x => match d.classify x with
      | some (some .unread) => s!"{x}:U"
      | some (some .noSideEffect) => s!"{x}:N"
      | some none => s!"{x}:-"
      | none => s!"{x}:fuel")
    s!"wf={if Taint.consWfB facts then 1 else 0} edges={showPairs (Taint.edges facts)} cons={showPairs (Taint.consEdges facts)} sinks={sinks} claims={if claims.isEmpty then "-" else ",".intercalate claims}"
  | _ => "bad-op"

/-- `regions <n> <a>b,…|-> <h:t:f,…|->` (f may be `-`): the blocks of the true and of the false side of every if statement
    (`get_true_branch`, `get_false_branch`), from the edges of the CFG alone: reachability by `CfgReach`, the dominance
    frontier by `Dominators` -/
def regionsCmd (args : List String) : String :=
  match args with
  | [ns, es, bs] =>
    match ns.toNat? with
    | none => "bad-op"
    | some n =>
      let edges : List (Nat × Nat) := if es == "-" then [] else (es.splitOn ",").filterMap (fun t => match t.splitOn ">" with
        | [a, b] => (match a.toNat?, b.toNat? with | some a, some b => some (a, b) | _, _ => none)
        | _ => none)
      let g : Graph.Graph := { n := n, pred := fun i => (edges.filter (fun e => e.2 == i)).map (·.1) }
      match Dominators.computeDominators g with
      | none => "no-fixpoint"
      | some D =>
        let idom := Dominators.idoms g D
        let df : Nat → List Nat := fun x => (List.range n).filter (fun j => Dominators.inFrontier g idom x j)
        let sorted (l : List Nat) : List Nat := (List.range n).filter (fun i => l.contains i)
        let one (t : String) : String := match t.splitOn ":" with
          | [h, tb, fb] =>
            (match tb.toNat? with
             | none => "bad-branch"
             | some tb => s!"{h}:T={showCsv (sorted (CfgReach.trueBranch edges df tb))}:F={showCsv (sorted (CfgReach.falseBranch edges df tb fb.toNat?))}")
          | _ => "bad-branch"
        if bs == "-" then "-" else " ".intercalate ((bs.splitOn ",").map one)
  | _ => "bad-op"

def showIStmt : CfgLift.IStmt → String
  | .simple l => s!"s{l.1}-{l.2}"
  | .branch l t f => s!"i{l.1}-{l.2}:{t}:{match f with | some f => toString f | none => "-"}"

def showBlocks (bs : List CfgLift.Block) : String :=
  "|".intercalate (bs.map (fun b => s!"{b.depth};{showCsv b.preds};{showCsv b.succs};{",".intercalate (b.stmts.map showIStmt)}"))

def cfgliftCmd (rest : String) : String :=
  match Sexp.parse rest with
  | none => "bad-op"
  | some s =>
    match defBody s with
    | none => "bad-op"
    | some body =>
      match CfgLift.lift (astSkel body) with
      | .ok bs _ => "ok " ++ showBlocks bs
      | .panic m => "panic " ++ m

/-- `wfcheck (pair <ast def> <cfg>)` -/
def wfcheckCmd (rest : String) : String :=
  match Sexp.parse rest with
  | some (.list [.atom "pair", a, c]) =>
    match defBody a with
    | none => "bad-op"
    | some body =>
      let ps := CfgSpec.wfProblems (astSkel body) (cfgSkel c)
      if ps.isEmpty then "wf" else "not-wf " ++ "; ".intercalate ps
  | _ => "bad-op"

/-- `complexity <cfg>`: nodes, edges and `CfgLift.complexity` of a real CFG, and whether the unsigned subtraction is defined -/
def complexityCmd (rest : String) : String :=
  match Sexp.parse rest with
  | some c =>
    let bs := cfgSkel c
    let e := CfgLift.edges bs
    s!"{bs.length} {e} {CfgLift.complexity bs} {if bs.length ≤ 2 + e then "defined" else "underflow"} {CfgLift.tooComplex bs}"
  | none => "bad-op"

/-- `pathhyps <ssa cfg>`: the hypothesis `SingleDef` of the path-level soundness theorems
    (`C06_path_sound`, `C07_path_sound`, C20) in its decidable form `Propagate.singleDefB`, evaluated on
    the statements of a real SSA dump; lists the variables that have more than one substitution -/
def pathhypsCmd (rest : String) : String :=
  match Sexp.parse rest with
  | some c =>
    let g := irCfg c
    let P := Propagate.stmtsOf g.blocks
    let sd :=
      if Propagate.singleDefB P then s!"singledef subs={(P.filterMap Propagate.defVar).length}"
      else
        let ks := P.filterMap Propagate.defKey
        let dup := ((ks.filter (fun k => ks.any (fun k' => k'.1 == k.1 && !(k.2 && k'.2)) && (ks.filter (·.1 == k.1)).length > 1)).map (·.1)).eraseDups
        "multi " ++ " ".intercalate (dup.map (fun v => v.name ++ (match v.suffix with | some s => "_" ++ s | none => "") ++ (match v.version with | some k => s!".{k}" | none => "")))
    -- the hypothesis `WfD` of the degree theorems, clause by clause (for the evidence)
    let E := Propagate.programOf g
    let c1 := decide ((E.filterMap Propagate.defVar).Pairwise (Propagate.singleOk E))
    let c2 := E.all (fun s => (Propagate.nlNames s).all (fun v => !Propagate.localDeclB E v && !g.params.contains v))
    let c3 := g.params.all (fun v => !Propagate.hasSubB E v)
    let c4 := Propagate.posOKB E [] E
    let wf := if Propagate.wfDB E g.params then "wfd" else
      "notwfd:" ++ (if c1 then "" else "single,") ++ (if c2 then "" else "types,") ++ (if c3 then "" else "params,") ++ (if c4 then "" else "pos,")
    sd ++ " | " ++ wf
  | none => "bad-op"

def handle (line : String) : String :=
  if line.startsWith "pathhyps " then pathhypsCmd (line.drop 9).toString else
  if line.startsWith "ssabuild " then ssabuildCmd (line.drop 9).toString else
  if line.startsWith "ssawalk " then ssawalkCmd (line.drop 8).toString else
  if line.startsWith "desugar " then desugarCmd (line.drop 8).toString else
  if line.startsWith "cfglift " then cfgliftCmd (line.drop 8).toString else
  if line.startsWith "wfcheck " then wfcheckCmd (line.drop 8).toString else
  if line.startsWith "complexity " then complexityCmd (line.drop 11).toString else
  if line.startsWith "traces " then tracesCmd (line.drop 7).toString else
  if line.startsWith "uniq " then uniqCmd (line.drop 5).toString else
  if line.startsWith "ssacheck " then ssacheckCmd (line.drop 9).toString else
  if line.startsWith "phicomplete " then phicompleteCmd (line.drop 12).toString else
  if line.startsWith "propagate " then propagateCmd (line.drop 10).toString else
  match line.splitOn " " with
  | "field" :: args => fieldCmd args
  | "fieldspec" :: args => fieldSpecCmd args
  | "c11" :: args => c11Cmd args
  | "runner" :: args => runnerCmd args
  | "sigassign" :: args => sigassignCmd args
  | "lessthan" :: args => lessthanCmd args
  | "includes" :: args => includesCmd args
  | "taint" :: args => taintCmd args
  | "regions" :: args => regionsCmd args
  | "dom" :: args => domCmd false args
  | "strip" :: args => stripCmd false args
  | "stripspec" :: args => stripCmd true args
  | _ => "bad-op"

end Driver
