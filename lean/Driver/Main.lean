import Circomspect.Model.Field
import Circomspect.Spec.Field
import Driver.Cmds

open Circomspect

partial def loop (h : IO.FS.Stream) (out : IO.FS.Stream) : IO Unit := do
  let line ← h.getLine
  if line.isEmpty then return ()
  let reply := Driver.handle line.trimAscii.toString
  out.putStrLn reply
  loop h out

def main : IO Unit := do
  let out ← IO.getStdout
  loop (← IO.getStdin) out
  out.flush
