import Circomspect.Model.Desugar
import Driver.Sexp

/-!
`desugar (req <kind> (tbl (<name> (<in>...) (<out>...)) ...) <body>)` — the body is the AST dump of
`harness/src/dump.rs` with a label atom inserted after the meta of every `anon` and `while` node.
Reply: `ok <sexp of the new body>` / `err <start> <end> <hex message>` for templates,
`kept` / `rejected <start>-<end>:<hex message> ...` for functions.
-/
namespace Driver
open Circomspect Desugar

def metaOf (s : Sexp) : Desugar.Meta :=
  match s with
  | .list [.atom "m", .atom a, .atom b] => (a.toNat?.getD 0, b.toNat?.getD 0)
  | _ => (0, 0)

def opOf (s : Sexp) : Op :=
  match s with
  | .atom "var" => .var
  | .atom "sig" => .sig
  | _ => .csig

def opStr : Op → String
  | .var => "var"
  | .sig => "sig"
  | .csig => "csig"

def vtOf (s : Sexp) : VT :=
  match s with
  | .list [.atom "local"] => .local_
  | .list [.atom "signal", .atom k] => .signal k
  | .list [.atom "component"] => .component
  | _ => .anon

instance : Inhabited Acc := ⟨.cmp ""⟩

mutual
partial def exprOf (s : Sexp) : Expr :=
  match s with
  | .list [.atom "infix", m, .atom op, l, r] => .infix (metaOf m) op (exprOf l) (exprOf r)
  | .list [.atom "prefix", m, .atom op, e] => .prefix (metaOf m) op (exprOf e)
  | .list [.atom "switch", m, c, t, f] => .switch (metaOf m) (exprOf c) (exprOf t) (exprOf f)
  | .list [.atom "par", m, e] => .par (metaOf m) (exprOf e)
  | .list [.atom "var", m, .atom n, .list acc] => .var (metaOf m) n (Accs.ofList (acc.map accOf))
  | .list [.atom "num", m, .atom n] => .num (metaOf m) n
  | .list [.atom "call", m, .atom i, .list args] => .call (metaOf m) i (Exprs.ofList (args.map exprOf))
  | .list [.atom "anon", m, .atom label, .atom i, .list ps, .list ss, names, .atom par] =>
    let ns : Option (List (Op × String)) := match names with
      | .list l => some (l.filterMap (fun x => match x with | .list [o, .atom n] => some (opOf o, n) | _ => none))
      | _ => none
    .anon (metaOf m) label i (Exprs.ofList (ps.map exprOf)) (Exprs.ofList (ss.map exprOf)) ns (par == "1")
  | .list [.atom "arr", m, .list vs] => .arr (metaOf m) (Exprs.ofList (vs.map exprOf))
  | .list [.atom "tuple", m, .list vs] => .tuple (metaOf m) (Exprs.ofList (vs.map exprOf))
  | _ => .num (0, 0) "bad"
partial def accOf (s : Sexp) : Acc :=
  match s with
  | .list [.atom "idx", e] => .idx (exprOf e)
  | .list [.atom "cmp", .atom n] => .cmp n
  | _ => .cmp "bad"
end

partial def stmtOf (s : Sexp) : Stmt :=
  match s with
  | .list [.atom "ite", m, c, t, e] =>
    .ite (metaOf m) (exprOf c) (stmtOf t) (match e with | .atom _ => .none | e => .some (stmtOf e))
  | .list [.atom "while", m, .atom label, c, b] => .while_ (metaOf m) label (exprOf c) (stmtOf b)
  | .list [.atom "ret", m, e] => .ret (metaOf m) (exprOf e)
  | .list [.atom "init", m, xt, .list is] => .init (metaOf m) (vtOf xt) (Stmts.ofList (is.map stmtOf))
  | .list [.atom "decl", m, xt, .atom n, .list dims] => .decl (metaOf m) (vtOf xt) n (Exprs.ofList (dims.map exprOf))
  | .list [.atom "sub", m, .atom v, .list acc, op, r] => .sub (metaOf m) v (Accs.ofList (acc.map accOf)) (opOf op) (exprOf r)
  | .list [.atom "msub", m, l, op, r] => .msub (metaOf m) (exprOf l) (opOf op) (exprOf r)
  | .list [.atom "ceq", m, l, r] => .ceq (metaOf m) (exprOf l) (exprOf r)
  | .list [.atom "log", m, .list args] =>
    .log (metaOf m) (args.map (fun a => match a with
      | .list [.atom "str", .atom n] => LogArg.str (n.toNat?.getD 0)
      | .list [.atom "exp", e] => LogArg.exp (exprOf e)
      | _ => LogArg.str 0))
  | .list [.atom "blk", m, .list ss] => .block (metaOf m) (Stmts.ofList (ss.map stmtOf))
  | .list [.atom "assert", m, e] => .assert (metaOf m) (exprOf e)
  | _ => .block (0, 0) .nil

def showMeta (m : Desugar.Meta) : String := s!"(m {m.1} {m.2})"

def showList (l : List String) : String := "(" ++ " ".intercalate l ++ ")"

def showVT : VT → String
  | .local_ => "(local)"
  | .signal k => s!"(signal {k})"
  | .component => "(component)"
  | .anon => "(anoncomponent)"

mutual
partial def showExpr : Expr → String
  | .infix m op l r => s!"(infix {showMeta m} {op} {showExpr l} {showExpr r})"
  | .prefix m op e => s!"(prefix {showMeta m} {op} {showExpr e})"
  | .switch m c t f => s!"(switch {showMeta m} {showExpr c} {showExpr t} {showExpr f})"
  | .par m e => s!"(par {showMeta m} {showExpr e})"
  | .var m n acc => s!"(var {showMeta m} {n} {showList (acc.toList.map showAcc)})"
  | .num m n => s!"(num {showMeta m} {n})"
  | .call m i args => s!"(call {showMeta m} {i} {showList (args.toList.map showExpr)})"
  | .anon m _ i ps ss names par =>
    let ns := match names with
      | some l => showList (l.map (fun (p : Op × String) => s!"({opStr p.1} {p.2})"))
      | none => "-"
    s!"(anon {showMeta m} {i} {showList (ps.toList.map showExpr)} {showList (ss.toList.map showExpr)} {ns} {if par then "1" else "0"})"
  | .arr m vs => s!"(arr {showMeta m} {showList (vs.toList.map showExpr)})"
  | .tuple m vs => s!"(tuple {showMeta m} {showList (vs.toList.map showExpr)})"
partial def showAcc : Acc → String
  | .idx e => s!"(idx {showExpr e})"
  | .cmp n => s!"(cmp {n})"
end

partial def showStmt : Stmt → String
  | .ite m c t e => s!"(ite {showMeta m} {showExpr c} {showStmt t} {match e with | .none => "-" | .some s => showStmt s})"
  | .while_ m _ c b => s!"(while {showMeta m} {showExpr c} {showStmt b})"
  | .ret m e => s!"(ret {showMeta m} {showExpr e})"
  | .init m xt is => s!"(init {showMeta m} {showVT xt} {showList (is.toList.map showStmt)})"
  | .decl m xt n dims => s!"(decl {showMeta m} {showVT xt} {n} {showList (dims.toList.map showExpr)})"
  | .sub m v acc op r => s!"(sub {showMeta m} {v} {showList (acc.toList.map showAcc)} {opStr op} {showExpr r})"
  | .msub m l op r => s!"(msub {showMeta m} {showExpr l} {opStr op} {showExpr r})"
  | .ceq m l r => s!"(ceq {showMeta m} {showExpr l} {showExpr r})"
  | .log m args => s!"(log {showMeta m} {showList (args.map (fun a => match a with | .str n => s!"(str {n})" | .exp e => s!"(exp {showExpr e})"))})"
  | .block m ss => s!"(blk {showMeta m} {showList (ss.toList.map showStmt)})"
  | .assert m e => s!"(assert {showMeta m} {showExpr e})"

def hexOf (s : String) : String :=
  let hexDigit (n : Nat) : Char := if n < 10 then Char.ofNat (48 + n) else Char.ofNat (87 + n)
  String.ofList (s.toUTF8.toList.flatMap (fun b => [hexDigit (b.toNat / 16), hexDigit (b.toNat % 16)]))

def desugarCmd (rest : String) : String :=
  match Sexp.parse rest with
  | some (.list [.atom "req", .atom kind, .list (.atom "tbl" :: ts), body]) =>
    let tbl : List TemplateSig := ts.filterMap (fun t => match t with
      | .list [.atom n, .list ins, .list outs] => some ⟨n, ins.filterMap Sexp.str?, outs.filterMap Sexp.str?⟩
      | _ => none)
    let b := stmtOf body
    if kind == "fn" then
      match functionReports b with
      | [] => "kept"
      | rs => "rejected " ++ " ".intercalate (rs.map (fun (m, msg) => s!"{m.1}-{m.2}:{hexOf msg}"))
    else
      match desugarTemplate tbl b with
      | .ok b' => "ok " ++ showStmt b'
      | .error (m, msg) => s!"err {m.1} {m.2} {hexOf msg}"
  | _ => "bad-op"

end Driver
