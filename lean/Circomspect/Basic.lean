def hello := "world"
