/-
C13 — the control-flow graph contains every source execution, statement by statement.

Proved for every statement tree: *conservation in program order* — the statements of the blocks
of the lifted CFG, concatenated in index order, are exactly the statements of the source in
pre-order (one branch statement per `if`/`while` at the position of its condition).  Nothing is
lost, duplicated or reordered by lifting; in particular the step statement of a `for` loop
(expanded by the parser into `{init; while (cond) {body; step}}`) sits inside the loop.

The trace-inclusion clause is proved for all inputs (`C13_trace_inclusion`, `Lemmas/TracePaths.lean`): for
every statement tree (arbitrary nesting of blocks, initialization blocks, `if`, `if/else`, `while`), every
set of `return` locations and every sequence of branch/loop decisions, the statements the source program
executes up to its first `return` are a prefix of the walk of the lifted CFG under the same decisions —
for every sufficiently large walk budget, and in particular for the concrete budget of the executable
`cfgTrace` (`C13_trace`: the full claim `C13_trace_statement` is a theorem).  The proof builds, by mutual induction over the
statement tree, a small-step *path* in the block vector for every run of the source semantics; paths are
stable under every later step of the construction (`Path.mono` along `Ext`: a block whose outgoing edges
are complete is never modified again, an open block only gets statements appended / its open false target
resolved / a successor added), pending exits are connected by `complete_basic_block` and by the back edges
(`connect_complete`, `connect_edges`), and every path is followed by `Trace.walk` (`path_walk`).
`checks/c13.py` evaluates both executable semantics (`Trace.astTrace`, `Trace.cfgTrace` with its concrete
budget) on every real AST/CFG pair under every decision sequence up to a bound: that is the tie to the
code.
-/
import Circomspect.Lemmas.TraceLemmas
import Circomspect.Lemmas.TracePaths
import Circomspect.Lemmas.TraceBudget

namespace Circomspect.C13
open Circomspect CfgLift TraceLemmas Trace

/-- the full claim, with the concrete walk budget of the executable `cfgTrace` -/
def C13_trace_statement : Prop :=
  ∀ (rets : List Loc) (body : Stmt) (bs : List Block) (ps : List Nat) (ds : List Bool),
    lift body = .ok bs ps → isPrefix (astTrace rets body ds) (cfgTrace bs ds) = true

/-- **the full claim is a theorem**: the budget `(|ds| + 1) * (|blocks| + 1)` of `cfgTrace` is always enough,
    because a fall-through edge of a lifted CFG leads to a larger block index or to a block ending in a
    branch (`Lemmas/TraceBudget.lean`) -/
theorem C13_trace : C13_trace_statement :=
  fun rets body bs ps ds h => TracePaths.trace_inclusion_cfgTrace rets body bs ps ds h

/-- **trace inclusion, for all programs and all decision sequences**: the source trace (up to the first
    `return`) is a prefix of the graph walk, for every sufficiently large walk budget -/
theorem C13_trace_inclusion (rets : List Loc) (body : Stmt) (bs : List Block) (ps : List Nat) (ds : List Bool)
    (h : lift body = .ok bs ps) :
    ∃ N, ∀ fuel, N ≤ fuel → isPrefix (astTrace rets body ds) (walk bs fuel 0 ds []) = true :=
  TracePaths.trace_inclusion rets body bs ps ds h

/-- the walk only ever extends with more budget: what it has returned stays a prefix -/
theorem C13_walk_grows (bs : List Block) (fuel cur : Nat) (ds : List Bool) (acc : List Loc) :
    acc <+: walk bs fuel cur ds acc := TracePaths.walk_acc_prefix bs fuel cur ds acc

/-- statement conservation in program order, for every statement tree -/
theorem C13_conservation (body : Stmt) (bs : List Block) (ps : List Nat) (h : lift body = .ok bs ps) :
    bs.flatMap (fun b => b.stmts.map stmtLoc) = pre body := lift_locs body bs ps h

/-- consequently every source statement occurs in the graph exactly as often as in the source -/
theorem C13_count (body : Stmt) (bs : List Block) (ps : List Nat) (h : lift body = .ok bs ps) (l : Loc) :
    (bs.flatMap (fun b => b.stmts.map stmtLoc)).count l = (pre body).count l := by
  rw [C13_conservation body bs ps h]

/-- with no decision to take, the source trace and the graph walk of a straight-line body agree
    (sanity anchor for the two semantics) -/
example : astTrace [] (.block (.cons (.simple (1, 2)) (.cons (.simple (3, 4)) .nil))) [] = [(1, 2), (3, 4)] := by decide

/-- the while example of C12: source trace and graph walk under decisions `[true, true, false]` -/
def exBody : Stmt :=
  .block (.cons (.while (1, 2) (.block (.cons (.ite (3, 4) (.block (.cons (.simple (5, 6)) .nil))) .nil)))
         (.cons (.simple (7, 8)) .nil))
example : astTrace [] exBody [true, true, false] = [(1, 2), (3, 4), (5, 6), (1, 2), (7, 8)] := by decide
example : (match lift exBody with
    | .ok bs _ => cfgTrace bs [true, true, false]
    | .panic _ => []) = [(1, 2), (3, 4), (5, 6), (1, 2), (7, 8)] := by decide

end Circomspect.C13
