/-
C13 — the control-flow graph contains every source execution, statement by statement.

Proved for every statement tree: *conservation in program order* — the statements of the blocks
of the lifted CFG, concatenated in index order, are exactly the statements of the source in
pre-order (one branch statement per `if`/`while` at the position of its condition).  Nothing is
lost, duplicated or reordered by lifting; in particular the step statement of a `for` loop
(expanded by the parser into `{init; while (cond) {body; step}}`) sits inside the loop.

The trace-inclusion clause itself (`C13_trace_statement` below) is stated but **not yet proved
for all inputs**: it is decided per instance by `checks/c13.py`, which evaluates both executable
semantics (`Trace.astTrace`, `Trace.cfgTrace`) on every real AST/CFG pair under every decision
sequence up to a bound.
-/
import Circomspect.Lemmas.TraceLemmas

namespace Circomspect.C13
open Circomspect CfgLift TraceLemmas Trace

/-- the full claim: for all programs and all decision sequences the source trace (up to the first
    return) is a prefix of the graph walk (statement, not theorem: decided per instance) -/
def C13_trace_statement : Prop :=
  ∀ (rets : List Loc) (body : Stmt) (bs : List Block) (ps : List Nat) (ds : List Bool),
    lift body = .ok bs ps → isPrefix (astTrace rets body ds) (cfgTrace bs ds) = true

/-- statement conservation in program order, for every statement tree -/
theorem C13_conservation (body : Stmt) (bs : List Block) (ps : List Nat) (h : lift body = .ok bs ps) :
    bs.flatMap (fun b => b.stmts.map stmtLoc) = pre body := lift_locs body bs ps h

/-- consequently every source statement occurs in the graph exactly as often as in the source -/
theorem C13_count (body : Stmt) (bs : List Block) (ps : List Nat) (h : lift body = .ok bs ps) (l : Loc) :
    (bs.flatMap (fun b => b.stmts.map stmtLoc)).count l = (pre body).count l := by
  rw [C13_conservation body bs ps h]

/-- with no decision to take, the source trace and the graph walk of a straight-line body agree
    (sanity anchor for the two semantics) -/
example : astTrace [] (.block (.cons (.simple (1, 2)) (.cons (.simple (3, 4)) .nil))) [] = [(1, 2), (3, 4)] := by decide

/-- the while example of C12: source trace and graph walk under decisions `[true, true, false]` -/
def exBody : Stmt :=
  .block (.cons (.while (1, 2) (.block (.cons (.ite (3, 4) (.block (.cons (.simple (5, 6)) .nil))) .nil)))
         (.cons (.simple (7, 8)) .nil))
example : astTrace [] exBody [true, true, false] = [(1, 2), (3, 4), (5, 6), (1, 2), (7, 8)] := by decide
example : (match lift exBody with
    | .ok bs _ => cfgTrace bs [true, true, false]
    | .panic _ => []) = [(1, 2), (3, 4), (5, 6), (1, 2), (7, 8)] := by decide

end Circomspect.C13
