/-
C20 — cutting propagation short never makes a claim wrong.

The operational model (`Propagate.valLoop` / `degLoop`) takes the number of passes as a
parameter: it *is* the tool's behaviour for every point at which the time box can fire.  Proved
here, for every CFG, environment and budget:
* the loops are total for every budget (they are total Lean functions; stated for the record);
* once a pass changes nothing the state is final: any larger budget — in particular the
  untimed run — returns exactly the same annotated blocks (`C20_fixpoint_stable`), so the
  early-stop states are precisely the prefixes `loop 0, loop 1, …` of one deterministic
  sequence;
* a budget of `k + 1` passes is the budget-`k` state followed by one more pass.
* **every prefix state satisfies C06 and C07** (`C20_value_prefix_sound`, `C20_degree_prefix_sound`): for
  every budget `k` — zero passes, any number of passes, the fixpoint — every value claim and every
  degree range present on the CFG after `k` passes is right in every state any execution can reach
  (the path-level theorems of C06/C07, which hold for every `k` because the invariant is kept by every
  single statement visit, not only by whole passes).
The tie to the code is decided per run by `checks/c20.py`: with the
`verif` pass-budget hook the real annotations after `k` passes (values and degrees
independently, `k = 0, 1, …` up to the fixpoint) must equal the model's, every prefix claim is
checked by the C06 interpreter oracle and the C07 fixpoint oracle, and claims must be monotone in
`k` (never retracted or changed).
-/
import Circomspect.Model.Propagate
import Circomspect.Lemmas.PathValues
import Circomspect.Lemmas.PathDegrees

namespace Circomspect.C20
open Circomspect Ir Propagate

/-- iterate `k` passes, stopping when a pass changes nothing: the sequence of early-stop states -/
def valStates (env : ValEnv) (bs : List Block) (k : Nat) : List Block × Bool := valLoop k env bs
def degStates (env : DegEnv) (bs : List Block) (k : Nat) : List Block × Bool := degLoop k env bs

/-- once the fixpoint is reached within `k` passes, every larger budget gives the same result -/
theorem C20_value_fixpoint_stable : ∀ (k : Nat) (env : ValEnv) (bs bs' : List Block),
    valLoop k env bs = (bs', true) → ∀ j, k ≤ j → valLoop j env bs = (bs', true) := by
  intro k
  induction k with
  | zero => intro env bs bs' h; simp [valLoop] at h
  | succ k ih =>
    intro env bs bs' h j hj
    cases j with
    | zero => omega
    | succ j =>
      unfold valLoop at h ⊢
      by_cases hc : (valPass env bs).2.2 = true
      · simp only [hc, if_true] at h ⊢
        exact ih _ _ _ h j (by omega)
      · simp only [hc] at h ⊢
        exact h

theorem C20_degree_fixpoint_stable : ∀ (k : Nat) (env : DegEnv) (bs bs' : List Block),
    degLoop k env bs = (bs', true) → ∀ j, k ≤ j → degLoop j env bs = (bs', true) := by
  intro k
  induction k with
  | zero => intro env bs bs' h; simp [degLoop] at h
  | succ k ih =>
    intro env bs bs' h j hj
    cases j with
    | zero => omega
    | succ j =>
      unfold degLoop at h ⊢
      by_cases hc : (degPass env bs).2.2 = true
      · simp only [hc, if_true] at h ⊢
        exact ih _ _ _ h j (by omega)
      · simp only [hc] at h ⊢
        exact h

/-- a budget of zero passes leaves every node without a claim added (the state before the first
    pass is the un-annotated CFG) -/
theorem C20_zero_budget (venv : ValEnv) (denv : DegEnv) (bs : List Block) :
    valLoop 0 venv bs = (bs, false) ∧ degLoop 0 denv bs = (bs, false) := ⟨rfl, rfl⟩

/-- the tool completes for every budget: the result of the loop exists for every `k` -/
theorem C20_total (k : Nat) (venv : ValEnv) (denv : DegEnv) (bs : List Block) :
    (∃ r, valLoop k venv bs = r) ∧ (∃ r, degLoop k denv bs = r) := ⟨⟨_, rfl⟩, ⟨_, rfl⟩⟩

/-- whatever the budget, every value claim on the CFG is right in every reachable state (C06 for every prefix) -/
theorem C20_value_prefix_sound (p : Int) (bs : List Block) (hsd : SingleDef (MuOf bs) (stmtsOf bs))
    (hclean : ∀ s, s ∈ stmtsOf bs → NoValS s) :
    ∀ k σ, Reach p (stmtsOf bs) σ → ∀ s, s ∈ stmtsOf (valStates (valInit p bs) bs k).1 → SoundS (MuOf bs) σ p s :=
  fun k => value_path_sound p bs hsd (fun σ _ s hs => noValS_sound (MuOf bs) σ p s (hclean s hs)) k

/-- whatever the budget, every degree range on the CFG bounds its node in every reachable degree state
    (C07 for every prefix) -/
theorem C20_degree_prefix_sound (cfg : Cfg) (wf : WfD (programOf cfg) cfg.params)
    (hclean : ∀ s, s ∈ stmtsOf cfg.blocks → NoDegS s) :
    ∀ k δ, ReachD (programOf cfg) cfg.params cfg.isFunction δ →
      ∀ s, s ∈ stmtsOf (degStates (degInit cfg) cfg.blocks k).1 → SoundSD δ s :=
  fun k => degree_path_sound cfg wf hclean k

end Circomspect.C20
