/-
C16 — Field arithmetic matches Circom's semantics for all operands, never panics.

Every theorem quantifies over *all* naturals `a b` (canonical or not) and every modulus
`p > 2` (primality is needed only for the existence of inverses), i.e. over the whole infinite
domain the property talks about.  `Field.*` is the model of `modular_arithmetic.rs`
(`Model/Field.lean`), `FieldSpec.*` the specification written from Circom's documentation
(`Spec/Field.lean`).  The model is tied to the Rust code by the correspondence run of
`checks/c16.py`.
-/
import Circomspect.Lemmas.FieldLemmas

namespace Circomspect.C16
open Circomspect Field FieldLemmas

/-- the specification's notion of "number of bits" is the usual one -/
theorem C16_bits_spec (n : Nat) (hn : 0 < n) :
    2 ^ (FieldSpec.bits n - 1) ≤ n ∧ n < 2 ^ FieldSpec.bits n := bits_spec n hn

theorem C16_add (a b p : Nat) (hp : 2 < p) :
    evalOp "add" a b p = .ok ((FieldSpec.add p a b : Nat) : Int) := by
  show Out.ok _ = _; rw [add_ok _ _ _ (by omega)]

theorem C16_sub (a b p : Nat) (hp : 2 < p) :
    evalOp "sub" a b p = .ok ((FieldSpec.sub p a b : Nat) : Int) := by
  show Out.ok _ = _; rw [sub_ok _ _ _ (by omega)]

theorem C16_mul (a b p : Nat) (hp : 2 < p) :
    evalOp "mul" a b p = .ok ((FieldSpec.mul p a b : Nat) : Int) := by
  show Out.ok _ = _; rw [mul_ok _ _ _ (by omega)]

theorem C16_neg (a b p : Nat) (hp : 2 < p) :
    evalOp "neg" a b p = .ok ((FieldSpec.neg p a : Nat) : Int) := by
  show Out.ok _ = _; rw [neg_ok _ _ (by omega)]

theorem C16_pow (a b p : Nat) (hp : 2 < p) :
    evalOp "pow" a b p = .ok ((FieldSpec.pow p a b : Nat) : Int) := pow_ok a b p (by omega)

theorem C16_idiv (a b p : Nat) (hp : 2 < p) :
    Agrees (evalOp "idiv" a b p) (FieldSpec.idiv p a b) := by
  show Agrees (Field.idiv a b p) _
  rw [idiv_ok _ _ _ (by omega)]; cases FieldSpec.idiv p a b <;> simp [Agrees]

theorem C16_mod (a b p : Nat) (hp : 2 < p) :
    Agrees (evalOp "mod" a b p) (FieldSpec.mod p a b) := by
  show Agrees (Field.modOp a b p) _
  rw [mod_ok _ _ _ (by omega)]; cases FieldSpec.mod p a b <;> simp [Agrees]

/-- integer division and remainder by zero are errors, never a panic -/
theorem C16_idiv_mod_by_zero (a b p : Nat) (hp : 2 < p) (hb : b % p = 0) :
    evalOp "idiv" a b p = .err .div0 ∧ evalOp "mod" a b p = .err .div0 := by
  constructor
  · show Field.idiv a b p = _
    rw [idiv_ok _ _ _ (by omega)]; simp [FieldSpec.idiv, hb]
  · show Field.modOp a b p = _
    rw [mod_ok _ _ _ (by omega)]; simp [FieldSpec.mod, hb]

/-- division: whatever is returned is the field quotient -/
theorem C16_div_sound (a b p : Nat) (hp : 2 < p) (c : Int) (h : evalOp "div" a b p = .ok c) :
    ∃ c' : Nat, c = c' ∧ FieldSpec.IsFieldDiv p a b c' := by
  change Field.div a b p = .ok c at h
  unfold Field.div at h
  split at h
  · simp at h
  · rename_i inv hinv
    injection h with h
    obtain ⟨h0, h1, h2⟩ := modInverse_sound b p (by omega) inv hinv
    refine ⟨c.toNat, ?_, ?_⟩
    · subst h; unfold Field.mul; rw [modulus_eq _ _ (by omega)]
      exact (Int.toNat_of_nonneg (Int.emod_nonneg _ (by omega))).symm
    · subst h; unfold Field.mul; rw [modulus_eq _ _ (by omega)]
      unfold FieldSpec.IsFieldDiv
      have hnn : 0 ≤ (a : Int) * inv % p := Int.emod_nonneg _ (by omega)
      have hlt : (a : Int) * inv % p < p := Int.emod_lt_of_pos _ (by omega)
      constructor
      · omega
      · have : ((((a : Int) * inv % p).toNat * b % p : Nat) : Int) = ((a % p : Nat) : Int) := by
          rw [Int.natCast_emod, Int.natCast_mul, Int.toNat_of_nonneg hnn, Int.natCast_emod]
          rw [Int.mul_emod, Int.emod_emod_of_dvd _ (Int.dvd_refl _), ← Int.mul_emod]
          rw [Int.mul_assoc, Int.mul_emod, h2, Int.mul_one, Int.emod_emod_of_dvd _ (Int.dvd_refl _)]
        exact Int.ofNat_inj.mp this

/-- division by (a multiple of) zero is an error -/
theorem C16_div_zero (a b p : Nat) (hp : 2 < p) (hb : b % p = 0) :
    evalOp "div" a b p = .err .div0 := by
  change Field.div a b p = _
  unfold Field.div modInverse
  have : ((b : Int) % p).toNat = 0 := by
    have : (b : Int) % p = ((b % p : Nat) : Int) := by norm_cast
    rw [this, hb]; rfl
  simp only [this, Int.toNat_natCast]
  have e : egcd (p + 2) p 0 0 1 = (p, 0) := by simp [egcd]
  rw [e]
  have : ¬ p = 1 := by omega
  simp [this]

/-- division by a unit succeeds (for a prime `p`, every `b` with `b % p ≠ 0` is one) -/
theorem C16_div_complete (a b p : Nat) (hp : 2 < p) (hb : Nat.gcd p (b % p) = 1) :
    ∃ c, evalOp "div" a b p = .ok c := by
  change ∃ c, Field.div a b p = _
  unfold Field.div modInverse
  have e : ((b : Int) % p).toNat = b % p := by
    have : (b : Int) % p = ((b % p : Nat) : Int) := by norm_cast
    rw [this]; rfl
  simp only [e, Int.toNat_natCast]
  have := egcd_gcd (p + 2) p (b % p) 0 1 (by have := Nat.mod_lt b (show 0 < p by omega); omega)
  rw [hb] at this
  simp [this]

theorem C16_shl (a k p : Nat) (hp : 2 < p) (hk : k ≤ p) (hb : FieldSpec.bits p ≤ 2 ^ 64) :
    Agrees (evalOp "shl" a k p) (FieldSpec.shl p a k) := shl_ok a k p (by omega) hk hb

theorem C16_shr (a k p : Nat) (hp : 2 < p) (hk : k ≤ p) (hb : FieldSpec.bits p ≤ 2 ^ 64) :
    Agrees (evalOp "shr" a k p) (FieldSpec.shr p a k) := shr_ok a k p (by omega) hk hb

/-- over-large shift counts are answered with an error and `2^k` is built only for
    `k < bits p`: bounded time. -/
theorem C16_shift_bounded (a k p v : Int) :
    (shiftLCore a k p = .ok v → k.toNat < bitLen p) ∧
    (shiftRCore a k p = .ok v → k.toNat < bitLen p) := shift_bounded a k p v

/-- `shift_l` and `shift_r` call each other at most once, for every integer count -/
theorem C16_shift_no_bounce (a k p : Int) (hp : 0 ≤ p) :
    (∀ s, shiftL a k p ≠ .panic s) ∧ (∀ s, shiftR a k p ≠ .panic s) := shift_no_bounce a k p hp

theorem C16_and (a b p : Nat) (hp : 2 < p) :
    evalOp "and" a b p = .ok ((FieldSpec.band p a b : Nat) : Int) := bitop_ok _ a b p (by omega)
theorem C16_or (a b p : Nat) (hp : 2 < p) :
    evalOp "or" a b p = .ok ((FieldSpec.bor p a b : Nat) : Int) := bitop_ok _ a b p (by omega)
theorem C16_xor (a b p : Nat) (hp : 2 < p) :
    evalOp "xor" a b p = .ok ((FieldSpec.bxor p a b : Nat) : Int) := bitop_ok _ a b p (by omega)

theorem C16_compl (a b p : Nat) (hp : 2 < p) :
    evalOp "compl" a b p = .ok ((FieldSpec.compl p a : Nat) : Int) := by
  show Out.ok _ = _; rw [compl_ok _ _ (by omega)]

theorem C16_not (a b p : Nat) (hp : 2 < p) :
    evalOp "not" a b p = .ok ((FieldSpec.lnot p a : Nat) : Int) := by
  show Out.ok _ = _; rw [not_ok _ _ (by omega)]
theorem C16_band (a b p : Nat) (hp : 2 < p) :
    evalOp "band" a b p = .ok ((FieldSpec.land p a b : Nat) : Int) := by
  show Out.ok _ = _; rw [band_ok _ _ _ (by omega)]
theorem C16_bor (a b p : Nat) (hp : 2 < p) :
    evalOp "bor" a b p = .ok ((FieldSpec.lor p a b : Nat) : Int) := by
  show Out.ok _ = _; rw [bor_ok _ _ _ (by omega)]
theorem C16_eq (a b p : Nat) (hp : 2 < p) :
    evalOp "eq" a b p = .ok ((FieldSpec.eq p a b : Nat) : Int) := by
  show Out.ok _ = _; rw [eq_ok _ _ _ (by omega)]
theorem C16_ne (a b p : Nat) (hp : 2 < p) :
    evalOp "ne" a b p = .ok ((FieldSpec.ne p a b : Nat) : Int) := by
  show Out.ok _ = _; rw [ne_ok _ _ _ (by omega)]
theorem C16_lt (a b p : Nat) (hp : 2 < p) :
    evalOp "lt" a b p = .ok ((FieldSpec.lt p a b : Nat) : Int) := by
  show Out.ok _ = _; rw [lt_ok _ _ _ (by omega)]
theorem C16_le (a b p : Nat) (hp : 2 < p) :
    evalOp "le" a b p = .ok ((FieldSpec.le p a b : Nat) : Int) := by
  show Out.ok _ = _; rw [le_ok _ _ _ (by omega)]
theorem C16_gt (a b p : Nat) (hp : 2 < p) :
    evalOp "gt" a b p = .ok ((FieldSpec.gt p a b : Nat) : Int) := by
  show Out.ok _ = _; rw [gt_ok _ _ _ (by omega)]
theorem C16_ge (a b p : Nat) (hp : 2 < p) :
    evalOp "ge" a b p = .ok ((FieldSpec.ge p a b : Nat) : Int) := by
  show Out.ok _ = _; rw [ge_ok _ _ _ (by omega)]

/-- the operators of the dispatcher -/
def ops : List String :=
  ["add", "sub", "mul", "div", "idiv", "mod", "pow", "neg", "compl", "shl", "shr", "or", "and",
   "xor", "not", "bor", "band", "eq", "ne", "lt", "le", "gt", "ge"]

/-- No operation panics, recurses without bound or leaves the modelled domain, on any
    non-negative operands (canonical or not) and any modulus above two. -/
theorem C16_no_panic (op : String) (hop : op ∈ ops) (a b p : Nat) (hp : 2 < p) :
    (∀ s, evalOp op a b p ≠ .panic s) ∧ evalOp op a b p ≠ .unmodelled := by
  have hnb := shift_no_bounce a b p (by omega)
  have hcoreL : ∀ k : Int, shiftLCore a k p ≠ .unmodelled := by
    intro k; unfold shiftLCore
    have : ¬ ((a : Int) < 0) := by omega
    split <;> (try split) <;> simp
  have hcoreR : ∀ k : Int, shiftRCore a k p ≠ .unmodelled := by
    intro k; unfold shiftRCore; split <;> (try split) <;> simp
  have hkey : ¬ ((b : Int) ≤ (p : Int).tdiv 2) → (p : Int) - b ≤ (p : Int).tdiv 2 := by
    intro h; have := Int.tdiv_eq_ediv_of_nonneg (a := (p : Int)) (b := 2) (by omega); omega
  have okc : ∀ v : Int, (∀ s, Out.ok v ≠ .panic s) ∧ Out.ok v ≠ .unmodelled := by intro v; simp
  have hdiv : (∀ s, Field.div a b p ≠ .panic s) ∧ Field.div a b p ≠ .unmodelled := by
    unfold Field.div; split <;> simp
  have hidiv : (∀ s, Field.idiv a b p ≠ .panic s) ∧ Field.idiv a b p ≠ .unmodelled := by
    unfold Field.idiv; simp only; split <;> simp
  have hmod : (∀ s, Field.modOp a b p ≠ .panic s) ∧ Field.modOp a b p ≠ .unmodelled := by
    unfold Field.modOp; simp only; split <;> simp
  have hpow : (∀ s, Field.pow a b p ≠ .panic s) ∧ Field.pow a b p ≠ .unmodelled := by
    unfold Field.pow; have : ¬ ((b : Int) < 0) := by omega
    rw [if_neg this]; simp
  have hshl : (∀ s, shiftL a b p ≠ .panic s) ∧ shiftL a b p ≠ .unmodelled := by
    refine ⟨hnb.1, ?_⟩
    unfold shiftL
    by_cases h : (b : Int) ≤ (p : Int).tdiv 2
    · rw [if_pos h]; exact hcoreL _
    · rw [if_neg h, if_pos (hkey h)]; exact hcoreR _
  have hshr : (∀ s, shiftR a b p ≠ .panic s) ∧ shiftR a b p ≠ .unmodelled := by
    refine ⟨hnb.2, ?_⟩
    unfold shiftR
    by_cases h : (b : Int) ≤ (p : Int).tdiv 2
    · rw [if_pos h]; exact hcoreR _
    · rw [if_neg h, if_pos (hkey h)]; exact hcoreL _
  have hbit : ∀ f, (∀ s, bitop f a b p ≠ .panic s) ∧ bitop f a b p ≠ .unmodelled := by
    intro f; rw [bitop_ok _ _ _ _ (by omega)]; simp
  simp only [ops, List.mem_cons, List.not_mem_nil, or_false] at hop
  rcases hop with h | h | h | h | h | h | h | h | h | h | h | h | h | h | h | h | h | h | h | h | h | h | h <;> subst h
  · exact okc _
  · exact okc _
  · exact okc _
  · exact hdiv
  · exact hidiv
  · exact hmod
  · exact hpow
  · exact okc _
  · exact okc _
  · exact hshl
  · exact hshr
  · exact hbit _
  · exact hbit _
  · exact hbit _
  · exact okc _
  · exact okc _
  · exact okc _
  · exact okc _
  · exact okc _
  · exact okc _
  · exact okc _
  · exact okc _
  · exact okc _

/-- Closure: on non-negative operands every operation returns a non-negative value, so the
    analyser (which starts from non-negative literals) never feeds a negative number back in.
    This is what justifies modelling the bitwise operators on naturals only. -/
theorem C16_closed (op : String) (hop : op ∈ ops) (a b p : Nat) (hp : 2 < p) (v : Int)
    (h : evalOp op a b p = .ok v) : 0 ≤ v := by
  have hmodu : ∀ x : Int, 0 ≤ modulus x p := fun x => (modulus_nonneg x p (by omega)).1
  have hcoreL : ∀ k : Int, shiftLCore a k p = .ok v → 0 ≤ v := by
    intro k hk; unfold shiftLCore at hk
    split at hk <;> (try split at hk) <;> (try split at hk) <;> simp at hk
    subst hk; exact hmodu _
  have hcoreR : ∀ k : Int, shiftRCore a k p = .ok v → 0 ≤ v := by
    intro k hk; unfold shiftRCore at hk
    split at hk <;> (try split at hk) <;> simp at hk
    subst hk
    exact Int.tdiv_nonneg (Int.natCast_nonneg a) (Int.pow_nonneg (show (0:Int) ≤ 2 by decide))
  have hnat : ∀ n : Nat, Out.ok ((n : Nat) : Int) = Out.ok v → 0 ≤ v := by
    intro n hn; injection hn with hn; omega
  simp only [ops, List.mem_cons, List.not_mem_nil, or_false] at hop
  rcases hop with h' | h' | h' | h' | h' | h' | h' | h' | h' | h' | h' | h' | h' | h' | h' | h' | h' | h' | h' | h' | h' | h' | h' <;> subst h'
  · rw [C16_add _ _ _ hp] at h; exact hnat _ h
  · rw [C16_sub _ _ _ hp] at h; exact hnat _ h
  · rw [C16_mul _ _ _ hp] at h; exact hnat _ h
  · obtain ⟨c', hc, _⟩ := C16_div_sound a b p hp v h; omega
  · have := C16_idiv a b p hp; rw [h] at this
    cases hr : FieldSpec.idiv p a b <;> rw [hr] at this <;> simp [Agrees] at this; omega
  · have := C16_mod a b p hp; rw [h] at this
    cases hr : FieldSpec.mod p a b <;> rw [hr] at this <;> simp [Agrees] at this; omega
  · rw [C16_pow _ _ _ hp] at h; exact hnat _ h
  · rw [C16_neg _ _ _ hp] at h; exact hnat _ h
  · rw [C16_compl _ _ _ hp] at h; exact hnat _ h
  · change shiftL a b p = .ok v at h; unfold shiftL at h
    split at h
    · exact hcoreL _ h
    · split at h
      · exact hcoreR _ h
      · simp at h
  · change shiftR a b p = .ok v at h; unfold shiftR at h
    split at h
    · exact hcoreR _ h
    · split at h
      · exact hcoreL _ h
      · simp at h
  · rw [C16_or _ _ _ hp] at h; exact hnat _ h
  · rw [C16_and _ _ _ hp] at h; exact hnat _ h
  · rw [C16_xor _ _ _ hp] at h; exact hnat _ h
  · rw [C16_not _ _ _ hp] at h; exact hnat _ h
  · rw [C16_bor _ _ _ hp] at h; exact hnat _ h
  · rw [C16_band _ _ _ hp] at h; exact hnat _ h
  · rw [C16_eq _ _ _ hp] at h; exact hnat _ h
  · rw [C16_ne _ _ _ hp] at h; exact hnat _ h
  · rw [C16_lt _ _ _ hp] at h; exact hnat _ h
  · rw [C16_le _ _ _ hp] at h; exact hnat _ h
  · rw [C16_gt _ _ _ hp] at h; exact hnat _ h
  · rw [C16_ge _ _ _ hp] at h; exact hnat _ h

/-- the hypotheses of the theorems above are met by non-trivial values -/
theorem bits7 : FieldSpec.bits 7 = 3 := by
  rw [FieldSpec.bits, if_neg (by omega), FieldSpec.bits, if_neg (by omega), FieldSpec.bits, if_pos (by omega)]
example : evalOp "shl" 5 6 7 = .ok 2 ∧ FieldSpec.shl 7 5 6 = .val 2 ∧ FieldSpec.bits 7 ≤ 2 ^ 64 := by
  refine ⟨by decide, ?_, by rw [bits7]; omega⟩
  simp [FieldSpec.shl, FieldSpec.shrCore, bits7]
example : evalOp "compl" 0 0 7 = .ok ((FieldSpec.compl 7 0 : Nat) : Int) := C16_compl 0 0 7 (by omega)
example : evalOp "mod" 1 0 7 = .err .div0 := by decide
example : Nat.gcd 7 (3 % 7) = 1 := by decide

end Circomspect.C16
