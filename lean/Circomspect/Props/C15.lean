/-
C15 — dominators, immediate dominators, dominator-tree children and dominance frontiers match
their definitions, for **every** rooted digraph (any number of nodes, reducible or not, self
loops, parallel joins).

`Dominators.*` is the model of `static_single_assignment/dominator_tree.rs`; `Graph.Dom`,
`IDom`, `InFrontier` are the textbook path-based definitions (`Spec/Graph.lean`).  The tie to
the Rust code is `checks/c15.py` (all rooted digraphs up to 4/5 nodes, random beyond).
-/
import Circomspect.Lemmas.DominatorLemmas

namespace Circomspect.C15
open Circomspect Graph Dominators DominatorLemmas

/-- the `while !done` loop terminates within `n*n + 1` passes on every graph (no rootedness
    needed) — also the C01 termination argument for this loop -/
theorem C15_terminates (g : Graph) : ∃ D, computeDominators g = some D := by
  unfold computeDominators
  exact iterate_terminates g (g.n * g.n + 1) (init g) (init_pre g) (by have := mu_le g (init g); omega)

/-- the computed dominator set of a node is exactly the set of nodes on every entry-to-node path -/
theorem C15_dom (g : Graph) (hr : Rooted g) :
    ∃ D, computeDominators g = some D ∧ ∀ i, i < g.n → ∀ d, D i d = true ↔ Dom g d i :=
  computeDominators_correct g hr

/-- the immediate dominator is the unique closest strict dominator; the entry has none; the
    `assert!(idom_candidates.len() <= 1)` never fires; and all this holds for every iteration
    order of the hash set of candidates -/
theorem C15_idom (g : Graph) (hr : Rooted g) (D : Sets) (hD : computeDominators g = some D) (i : Nat) (hi : i < g.n)
    (order : List Nat) (hord : ∀ j, j ∈ order ↔ j ∈ candidates g D i) :
    (i = 0 → idomOf g D i order = .none) ∧
    (i ≠ 0 → ∃ d, idomOf g D i order = .some d ∧ IDom g d i ∧ ∀ d', IDom g d' i → d' = d) := by
  obtain ⟨D', h1, h2⟩ := computeDominators_correct g hr
  rw [hD] at h1; injection h1 with h1; subst h1
  exact idomOf_correct g hr D h2 i hi order hord

/-- any two iteration orders of the candidate set give the same immediate dominator -/
theorem C15_idom_order_independent (g : Graph) (hr : Rooted g) (D : Sets) (hD : computeDominators g = some D)
    (i : Nat) (hi : i < g.n) (o₁ o₂ : List Nat)
    (h₁ : ∀ j, j ∈ o₁ ↔ j ∈ candidates g D i) (h₂ : ∀ j, j ∈ o₂ ↔ j ∈ candidates g D i) :
    idomOf g D i o₁ = idomOf g D i o₂ := by
  have a := C15_idom g hr D hD i hi o₁ h₁
  have b := C15_idom g hr D hD i hi o₂ h₂
  by_cases h0 : i = 0
  · rw [a.1 h0, b.1 h0]
  · obtain ⟨d₁, e₁, hd₁, _⟩ := a.2 h0
    obtain ⟨d₂, e₂, _, hu₂⟩ := b.2 h0
    rw [e₁, e₂, hu₂ d₁ hd₁]

/-- the dominator-tree children invert the immediate-dominator function -/
theorem C15_children (g : Graph) (idom : Nat → IdomOut) (i j : Nat) :
    i ∈ children g idom j ↔ i < g.n ∧ idom i = .some j := by
  unfold children; simp [List.mem_filter]

theorem idoms_fn (g : Graph) (hr : Rooted g) (D : Sets) (hD : computeDominators g = some D) :
    IdomFn g (idoms g D) := by
  constructor
  · exact (C15_idom g hr D hD 0 hr.pos _ (fun _ => Iff.rfl)).1 rfl
  · intro i hi h0
    obtain ⟨d, e, hd, _⟩ := (C15_idom g hr D hD i hi _ (fun _ => Iff.rfl)).2 h0
    exact ⟨d, e, hd⟩

/-- the dominance frontier of `k` is exactly the set of nodes `i` such that `k` dominates a
    predecessor of `i` but does not strictly dominate `i` -/
theorem C15_frontier (g : Graph) (hr : Rooted g) (D : Sets) (hD : computeDominators g = some D) (k i : Nat) :
    inFrontier g (idoms g D) k i = true ↔ InFrontier g k i := by
  obtain ⟨D', h1, h2⟩ := computeDominators_correct g hr
  rw [hD] at h1; injection h1 with h1; subst h1
  exact inFrontier_correct g hr D h2 (idoms g D) (idoms_fn g hr D hD) k i

/-- neither assertion of `DominatorTree::new` can fire on a rooted graph -/
theorem C15_no_panic (g : Graph) (hr : Rooted g) (D : Sets) (hD : computeDominators g = some D) :
    idoms g D 0 = .none ∧ ∀ i, i < g.n → idoms g D i ≠ .panic := by
  have hf := idoms_fn g hr D hD
  refine ⟨hf.1, ?_⟩
  intro i hi
  by_cases h0 : i = 0
  · subst h0; rw [hf.1]; simp
  · obtain ⟨d, e, _⟩ := hf.2 i hi h0
    rw [e]; simp

/-- non-vacuity: the diamond-with-back-edge graph `0→1, 1→2, 3→2, 2→3` is rooted -/
def exG : Graph := { n := 4, pred := fun i => match i with | 1 => [0] | 2 => [1, 3] | 3 => [2] | _ => [] }
example : Rooted exG where
  pos := by decide
  entry := rfl
  closed := by
    intro i hi j hj
    match i, hi with
    | 0, _ => cases hj
    | 1, _ => simp [exG] at hj; subst hj; decide
    | 2, _ => simp [exG] at hj; rcases hj with e | e <;> subst e <;> decide
    | 3, _ => simp [exG] at hj; subst hj; decide
  reach := by
    intro i hi
    have p1 : Path exG 1 [1, 0] := Path.step Path.root (by simp [exG]) (by decide)
    have p2 : Path exG 2 [2, 1, 0] := Path.step p1 (by simp [exG]) (by decide)
    have p3 : Path exG 3 [3, 2, 1, 0] := Path.step p2 (by simp [exG]) (by decide)
    match i, hi with
    | 0, _ => exact ⟨_, Path.root⟩
    | 1, _ => exact ⟨_, p1⟩
    | 2, _ => exact ⟨_, p2⟩
    | 3, _ => exact ⟨_, p3⟩

end Circomspect.C15
